//! Verification stand-in for the `anyhow` API surface used by pyxis.
use vstd::prelude::*;
verus!{
/// Opaque error value. Message text is not modelled.
#[verifier::external_body]
pub struct Error { _p: () }
pub type Result<T, E = Error> = core::result::Result<T, E>;

impl Error {
    #[verifier::external_body]
    pub fn msg<M>(_message: M) -> Error { Error { _p: () } }
    #[verifier::external_body]
    pub fn new<E>(_e: E) -> Error { Error { _p: () } }
    #[verifier::external_body]
    pub fn context<C>(self, _c: C) -> Error { self }
}

pub trait Context<T, E> {
    fn with_context<C, F: FnOnce() -> C>(self, f: F) -> (r: Result<T, Error>);
    fn context<C>(self, c: C) -> (r: Result<T, Error>);
}
impl<T> Context<T, core::convert::Infallible> for Option<T> {
    #[verifier::external_body]
    fn with_context<C, F: FnOnce() -> C>(self, f: F) -> (r: Result<T, Error>)
        ensures self is Some ==> r is Ok && r->Ok_0 == self->0, self is None ==> r is Err
    { match self { Some(x) => core::result::Result::Ok(x), None => Err(Error { _p: () }) } }
    #[verifier::external_body]
    fn context<C>(self, c: C) -> (r: Result<T, Error>)
        ensures self is Some ==> r is Ok && r->Ok_0 == self->0, self is None ==> r is Err
    { match self { Some(x) => core::result::Result::Ok(x), None => Err(Error { _p: () }) } }
}
impl<T, E> Context<T, E> for core::result::Result<T, E> {
    #[verifier::external_body]
    fn with_context<C, F: FnOnce() -> C>(self, f: F) -> (r: Result<T, Error>)
        ensures self is Ok ==> r is Ok && r->Ok_0 == self->Ok_0, self is Err ==> r is Err
    { match self { core::result::Result::Ok(x) => core::result::Result::Ok(x), Err(_) => Err(Error { _p: () }) } }
    #[verifier::external_body]
    fn context<C>(self, c: C) -> (r: Result<T, Error>)
        ensures self is Ok ==> r is Ok && r->Ok_0 == self->Ok_0, self is Err ==> r is Err
    { match self { core::result::Result::Ok(x) => core::result::Result::Ok(x), Err(_) => Err(Error { _p: () }) } }
}
} // verus!

impl<E: std::error::Error + Send + Sync + 'static> From<E> for Error {
    fn from(_e: E) -> Error { Error { _p: () } }
}
impl core::fmt::Debug for Error { fn fmt(&self, f: &mut core::fmt::Formatter<'_>) -> core::fmt::Result { f.write_str("error") } }
impl core::fmt::Display for Error { fn fmt(&self, f: &mut core::fmt::Formatter<'_>) -> core::fmt::Result { f.write_str("error") } }

#[macro_export]
macro_rules! anyhow { ($($t:tt)*) => { $crate::Error::msg(::std::format!($($t)*)) } }
#[macro_export]
macro_rules! bail { ($($t:tt)*) => { return ::core::result::Result::Err($crate::Error::msg(::std::format!($($t)*))) } }
#[allow(non_snake_case)]
pub fn Ok<T>(t: T) -> Result<T> { Result::Ok(t) }

