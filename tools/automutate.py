#!/usr/bin/env python3
"""automutate.py: mechanical mutation of the functions under contract, to look for WEAK CONTRACTS.

For every verified unit (mode V) of the current weave, small operator mutations (relational operators,
+/-1, &&/||, true/false, is_some/is_none, Public/Private, continue/break, checked_add/checked_sub, ...) are
applied one at a time to the unit's source text in a scratch copy of /repo; the scratch tree is woven and
verified ONCE (all properties).  A mutant is
  killed     - some obligation fails (any property),
  undecided  - weave / rustc / unsupported (nothing learnt),
  survived   - every obligation still discharged: the contracts do not notice the change.
Survivors are then run through `cargo test --lib` (killed by the suite -> uninteresting) and through the
bounded check of the unit's properties.  What remains is printed for inspection: an equivalent mutant, or a
contract to strengthen.  Scratch copies live under /tmp and are removed.

usage: automutate.py [--max N] [--jobs J] [--files a.rs,b.rs] [--json out.json]
"""
import argparse, json, os, random, re, shutil, subprocess, sys, tempfile
from concurrent.futures import ThreadPoolExecutor

HERE = os.path.dirname(os.path.abspath(__file__))
VERIF = os.path.dirname(HERE)
sys.path.insert(0, HERE)
import runner  # noqa
import weave as weave_mod  # noqa
from weavelib import WeaveError  # noqa

OPS = [
    (r"(?<= )<=(?= )", "<"), (r"(?<= )<(?= )", "<="), (r"(?<= )>=(?= )", ">"), (r"(?<= )>(?= )", ">="),
    (r"(?<= )==(?= )", "!="), (r"(?<= )!=(?= )", "=="), (r"(?<= )&&(?= )", "||"), (r"(?<=[\w\)] )\|\|(?= )", "&&"),
    (r"\+ 1\b", "+ 2"), (r" \+ 1\b", ""), (r"- 1\b", "- 2"), (r" - 1\b", ""),
    (r"\btrue\b", "false"), (r"\bfalse\b", "true"), (r"\.is_some\(\)", ".is_none()"), (r"\.is_none\(\)", ".is_some()"),
    (r"Visibility::Public", "Visibility::Private"), (r"Visibility::Private", "Visibility::Public"),
    (r"\bcontinue;", "break;"), (r"checked_add", "checked_sub"), (r"checked_sub", "checked_add"), (r"checked_mul", "checked_add"),
    (r"(?<![\w.])0(?![\w.])", "1"), (r"(?<![\w.])1(?![\w.])", "0"), (r"Argument::ConstSelf", "Argument::MutSelf"),
    (r"\.max\(", ".min("), (r"CallingConvention::Thiscall", "CallingConvention::System"), (r"(?<= )%(?= )", "/"),
    (r"(?<= )\+=(?= )", "-="), (r"(?<= )\+(?= )", "-"), (r"(?<= )\*(?= [a-z])", "+"),
    (r"\.is_empty\(\)", ".len() == 1"),
    # --- statement-level "simplifications" (index 35..): a dropped check, a dropped update
    (r"\bif (?!let\b)(?=[^{]*\{\s*$)", "if false && "), (r"\bif (?!let\b)(?=[^{]*\{\s*$)", "if true || "),
    (r"^\s*[A-Za-z_][\w.]*\.(?:push|insert|push_str|extend)\(.*\);\s*$", ""),
    (r"^\s*[A-Za-z_][\w.]* (?:\+=|-=|=) [^=].*;\s*$", ""),
    (r"\?;\s*$", ".ok();"),
]


OPS_FROM = [0]


def candidates(meta, only_files=None):
    out = []
    for u in meta["units"].values():
        if u["mode"] != "V" or u.get("segment_of") is None and False:
            continue
        if u["mode"] != "V":
            continue
        rel = u["file"]
        if only_files and rel not in only_files:
            continue
        src = open(os.path.join("/repo/src", rel), "rb").read()
        a, b = u["span"]
        text = src[a:b].decode("utf8")
        # code lines only: skip comments and string literals (error messages)
        off = 0
        for line in text.split("\n"):
            code = line.split("//")[0]
            masked = re.sub(r'"(?:[^"\\]|\\.)*"', lambda m: " " * len(m.group(0)), code)
            for k, (rx, rep) in enumerate(OPS):
                if k < OPS_FROM[0]:
                    continue
                for m in re.finditer(rx, masked):
                    pos = a + len(text[:off].encode("utf8")) + len(line[:m.start()].encode("utf8"))
                    orig = line[m.start():m.end()]
                    out.append({"unit": u["unit"], "file": rel, "pos": pos, "len": len(orig.encode("utf8")), "old": orig, "new": rep,
                                "line": src[:pos].count(b"\n") + 1, "tags": u["tags"], "context": line.strip()[:120]})
            off += len(line) + 1
    return out


def run_one(c, idx):
    d = tempfile.mkdtemp(prefix="am-")
    try:
        shutil.copytree("/repo/src", os.path.join(d, "src"))
        for f in ("Cargo.toml", "Cargo.lock"):
            shutil.copy(os.path.join("/repo", f), d)
        p = os.path.join(d, "src", c["file"])
        b = open(p, "rb").read()
        assert b[c["pos"]:c["pos"] + c["len"]].decode() == c["old"], (b[c["pos"]:c["pos"] + c["len"]], c["old"])
        open(p, "wb").write(b[:c["pos"]] + c["new"].encode() + b[c["pos"] + c["len"]:])
        woven = os.path.join(d, "woven")
        os.environ["VERIF_NO_DEGRADE"] = "1"
        try:
            meta = weave_mod.weave(d, woven)
        except WeaveError as e:
            return dict(c, verdict="undecided", why="weave: %s" % str(e)[:100])
        cmd, out, so, se, wall = runner.run_verus(woven, ["--num-threads", "4", "--multiple-errors", "3", "--rlimit", "60"])
        if se == "TIMEOUT":
            return dict(c, verdict="undecided", why="timeout")
        diags, raw = runner.parse_diags(se)
        sm = runner.SegMap(meta, d)
        failures, undecided = runner.classify(diags, raw, sm, os.path.join(woven, "src"))
        if failures:
            f = failures[0]
            return dict(c, verdict="killed", why="%s %s %s" % (f["unit"].split("::")[-1], f["kind"], (f.get("clause_name") or f.get("clause") or "").split("::")[-1]))
        if undecided:
            return dict(c, verdict="undecided", why=undecided[0]["reason"] + " " + undecided[0].get("message", "")[:80].replace("\n", " "))
        vres = (out or {}).get("verification-results", {})
        if not vres.get("success"):
            return dict(c, verdict="undecided", why="no result")
        # survived the proofs: does the suite notice?  does the bounded check?
        env = dict(os.environ, CARGO_NET_OFFLINE="true", CARGO_TARGET_DIR=os.path.join(VERIF, "work", "am-target-%d" % (idx % 4)))
        t = subprocess.run(["cargo", "test", "--offline", "--lib", "-q"], cwd=d, env=env, capture_output=True, text=True)
        suite = "suite-pass" if t.returncode == 0 else "suite-FAILS"
        bounded = []
        if t.returncode == 0:
            for p_ in [x for x in c["tags"] if x != "C12"][:6] + ["C12"]:
                ws = runner.witness_search(p_, d, d, 0, quick=True)
                if ws.get("failures"):
                    bounded.append(p_)
                    break
        return dict(c, verdict="survived", suite=suite, bounded=bounded)
    finally:
        shutil.rmtree(d, ignore_errors=True)


def main():
    ap = argparse.ArgumentParser()
    ap.add_argument("--max", type=int, default=120)
    ap.add_argument("--jobs", type=int, default=4)
    ap.add_argument("--files")
    ap.add_argument("--seed", type=int, default=1)
    ap.add_argument("--json")
    ap.add_argument("--ops-from", type=int, default=0, help="use only the operators from this index of OPS on")
    a = ap.parse_args()
    OPS_FROM[0] = a.ops_from
    runner.ensure_setup()
    meta = weave_mod.weave("/repo", os.path.join(VERIF, "work", "woven"))
    cs = candidates(meta, set(a.files.split(",")) if a.files else None)
    random.Random(a.seed).shuffle(cs)
    cs = cs[:a.max]
    print("%d candidate mutations, running %d" % (len(candidates(meta)), len(cs)))
    res = []
    with ThreadPoolExecutor(a.jobs) as ex:
        for r in ex.map(lambda ic: run_one(ic[1], ic[0]), enumerate(cs)):
            res.append(r)
            if r["verdict"] == "survived":
                print("SURVIVED %s:%d %s `%s`->`%s` | %s | %s bounded=%s" % (r["file"], r["line"], r["unit"].split("::")[-1], r["old"], r["new"], r["context"], r.get("suite"), r.get("bounded")))
            sys.stdout.flush()
    k = sum(1 for r in res if r["verdict"] == "killed")
    u = sum(1 for r in res if r["verdict"] == "undecided")
    s = [r for r in res if r["verdict"] == "survived"]
    print("killed=%d undecided=%d survived=%d (of which suite-FAILS=%d, bounded-killed=%d)" % (k, u, len(s), sum(1 for r in s if r.get("suite") == "suite-FAILS"), sum(1 for r in s if r.get("bounded"))))
    if a.json:
        json.dump(res, open(a.json, "w"), indent=1)


if __name__ == "__main__":
    main()
