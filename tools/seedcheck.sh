#!/bin/bash
# usage: seedcheck.sh <dir with patch.diff + demo.rs> <prop> [more props]
# Confirms a seeded change in a scratch worktree (tests pass, demo passes clean / fails patched),
# then runs the given checks against the patched scratch tree. Nothing is applied to /repo.
set -u
V=$(cd "$(dirname "$0")/.." && pwd)
D=$(realpath "$1"); shift
W=$(mktemp -d /tmp/sc-XXXXXX); rmdir "$W"
git -C /repo worktree add -q "$W" HEAD || exit 3
export CARGO_TARGET_DIR=$W/target CARGO_NET_OFFLINE=true
cd "$W"
mkdir -p tests; cp "$D/demo.rs" tests/seed_demo.rs
if cargo test --offline --test seed_demo >"$W/clean_demo.log" 2>&1; then echo "demo on clean tree: PASS"; else echo "demo on clean tree: FAIL (unexpected)"; tail -5 "$W/clean_demo.log"; fi
if git apply "$D/patch.diff"; then echo "patch applied"; else echo "PATCH DOES NOT APPLY"; fi
if cargo test --offline --lib >"$W/suite.log" 2>&1; then echo "suite with patch: PASS ($(grep -E '^test result' "$W/suite.log" | head -1))"; else echo "suite with patch: FAIL"; tail -5 "$W/suite.log"; fi
if cargo test --offline --test seed_demo >"$W/patched_demo.log" 2>&1; then echo "demo with patch: PASS (unexpected)"; else echo "demo with patch: FAIL (as intended)"; fi
rm -f tests/seed_demo.rs; rmdir tests 2>/dev/null
for p in "$@"; do
  (cd "$V" && VERIF_STRICT=1 python3 tools/runner.py "$p" quick --repo "$W" | grep -E "^(VIOLATION|UNDECIDED|OK|FAILED-OBLIGATION|BOUNDED-CHECK|BOUNDED-ONLY|KNOWN)" | cut -c1-260; echo "  -> $p exit=${PIPESTATUS[0]}")
done
cd /; git -C /repo worktree remove --force "$W"
