#!/usr/bin/env python3
"""weave.py: /repo/src (current working tree) -> woven crate under <out>.

usage: weave.py --repo /repo --out /verif/work/woven

Writes <out>/src/** (the woven crate), <out>/meta.json (units, clauses, segment maps, edit log).
Exit 0 = woven; exit 2 = anchor lost / rule not applicable (UNDECIDED, never an alarm).
"""
import argparse, importlib.util, json, os, shutil, subprocess, sys, glob

HERE = os.path.dirname(os.path.abspath(__file__))
VERIF = os.path.dirname(HERE)
sys.path.insert(0, HERE)
from weavelib import Weave, WeaveError  # noqa
import rules  # noqa

SPANMAP = os.path.join(VERIF, "work", "spanmap-target", "release", "spanmap")


def load_contracts():
    mods = []
    for p in sorted(glob.glob(os.path.join(VERIF, "specs", "contracts", "*.py"))):
        spec = importlib.util.spec_from_file_location("contracts_" + os.path.basename(p)[:-3], p)
        m = importlib.util.module_from_spec(spec)
        spec.loader.exec_module(m)
        mods.append(m)
    return mods


def concat_rs(paths):
    out = []
    for p in paths:
        out.append("// ---- %s\n" % os.path.relpath(p, VERIF))
        out.append(open(p).read())
        out.append("\n")
    return "".join(out)


LOCK = os.path.join(VERIF, "specs", "contracts.lock.json")


class RecipeError(Exception):
    def __init__(self, recipe, reason):
        Exception.__init__(self, reason)
        self.recipe, self.reason = recipe, reason


def weave(repo, out, write_lock=False, force_degraded=None):
    """weave; when the anchors of a contract recipe are gone on this tree, retry with that recipe degraded to
    trusted contracts (W11) - as long as the committed lock file knows the recipe's contracts.
    `force_degraded` {recipe: reason}: recipes the caller found unusable on this tree (the woven text of one of
    their units does not compile / is outside Verus' subset)"""
    degraded = dict(force_degraded or {})
    lock = json.load(open(LOCK)) if os.path.exists(LOCK) else {}
    while True:
        try:
            return weave_once(repo, out, degraded, lock, write_lock)
        except RecipeError as e:
            if e.recipe in degraded or e.recipe not in lock or e.recipe.startswith("a00") or os.environ.get("VERIF_NO_DEGRADE") == "1":
                raise WeaveError(e.reason)
            degraded[e.recipe] = e.reason


def weave_once(repo, out, degraded, lock, write_lock):
    src = os.path.join(repo, "src")
    sm = subprocess.run([SPANMAP, src], capture_output=True, text=True)
    if sm.returncode != 0:
        raise WeaveError("spanmap failed: " + sm.stderr[-2000:])
    spanmap = json.loads(sm.stdout)
    # W0: test modules are not part of the verified text
    spanmap = {k: v for k, v in spanmap.items() if not (k.startswith("semantic/tests/") or k == "parser/tests.rs")}
    W = Weave(src, spanmap)
    ctx = rules.Ctx(W)
    for fw in W.files.values():
        rules.drop_test_mods(fw)
    for m in load_contracts():
        name = m.__name__.replace("contracts_", "")
        ctx.current_recipe = name
        if name in degraded:
            try:
                rules.apply_fallback(ctx, W, name, lock[name], degraded[name])
            except (WeaveError, IndexError, KeyError, TypeError, AttributeError) as e:
                raise WeaveError("%s; and the trusted-contract fallback of recipe %s failed too: %s" % (degraded[name], name, e))
            for u in ctx.units.values():
                u.setdefault("recipe", name)
            continue
        try:
            m.apply(ctx, W)
        except WeaveError as e:
            raise RecipeError(name, str(e))
        except (IndexError, KeyError, TypeError, AttributeError) as e:
            raise RecipeError(name, "recipe %s: anchor lookup failed (%s: %s)" % (name, type(e).__name__, e))
        finally:
            for u in ctx.units.values():
                u.setdefault("recipe", name)
    if write_lock and not degraded:
        by = {}
        for sp in ctx.specs:
            by.setdefault(sp["recipe"], []).append(sp)
        with open(LOCK, "w") as f:
            json.dump(by, f, indent=1, sort_keys=True)
    # W1: crate plumbing
    lib = W.file("lib.rs")
    first = min(n["span"][0] for n in lib.nodes if n["parent"] == -1)
    # allocator_api: only to *name* the allocator parameter of std's HashMap in an assume_specification (get_mut)
    lib.insert(first, "#![feature(allocator_api)]\n#![allow(unused_imports, unused_variables, dead_code, unused_mut, unused_braces, unused_parens, non_snake_case, unused_assignments)]\n"
                      "#[allow(unused_imports)] use vstd::prelude::*;\npub mod verif_prelude;\npub mod verif_specs;\n", rule="W1")
    W.add_file("verif_prelude.rs", open(os.path.join(VERIF, "specs", "prelude.rs")).read())
    vocab = sorted(glob.glob(os.path.join(VERIF, "specs", "vocab", "*.rs")))
    names = [os.path.basename(p)[:-3] for p in vocab]
    W.add_file("verif_specs.rs", "//! specification vocabulary (pure ghost code), one submodule per file of /verif/specs/vocab\n"
               + "".join("pub mod %s;\n#[allow(unused_imports)] pub use %s::*;\n" % (n, n) for n in names))
    for p, n in zip(vocab, names):
        W.add_file("verif_specs/%s.rs" % n, open(p).read())
    if os.path.isdir(out):
        shutil.rmtree(out)
    os.makedirs(os.path.join(out, "src"))
    segmaps = W.write(os.path.join(out, "src"))
    meta = {"units": ctx.units, "clauses": ctx.clauses, "types": ctx.types, "segmaps": segmaps, "edits": W.edit_log(), "lost": ctx.lost,
            "files": {rel: {"len": len(fw.src)} for rel, fw in W.files.items()}}
    with open(os.path.join(out, "meta.json"), "w") as f:
        json.dump(meta, f)
    return meta


def main():
    ap = argparse.ArgumentParser()
    ap.add_argument("--repo", default="/repo")
    ap.add_argument("--out", default=os.path.join(VERIF, "work", "woven"))
    ap.add_argument("--write-lock", action="store_true", help="record every unit's contract as data in specs/contracts.lock.json (run on the good tree)")
    a = ap.parse_args()
    try:
        meta = weave(a.repo, a.out, write_lock=a.write_lock)
    except WeaveError as e:
        print("WEAVE-UNDECIDED: %s" % e)
        sys.exit(2)
    for r, l in meta.get("lost", {}).items():
        print("DEGRADED recipe=%s reason=%s units=%d tags=%s" % (r, l["reason"], len(l["units"]), ",".join(l["tags"])))
    print("woven: %d units, %d clauses, %d edits" % (len(meta["units"]), len(meta["clauses"]), len(meta["edits"])))


if __name__ == "__main__":
    main()
