//! spanmap: dump byte spans of the syntactic structure of Rust source files as JSON.
//!
//! usage: spanmap <src-root> > spanmap.json
//!
//! Every `.rs` file under <src-root> is parsed with syn; a flat, pre-order list of nodes is written
//! per file. Each node carries `id`, `parent`, `fn` (id of the innermost enclosing fn node, or -1),
//! `kind`, `span` = [start, end) in bytes of that file, and kind specific fields. The weaver
//! (tools/weaver.py) resolves its structural anchors against this map; no source text is re-printed.
use proc_macro2::Span;
use std::fmt::Write as _;
use syn::spanned::Spanned;
use syn::visit::{self, Visit};

fn esc(s: &str) -> String {
    let mut o = String::with_capacity(s.len() + 2);
    o.push('"');
    for c in s.chars() {
        match c {
            '"' => o.push_str("\\\""),
            '\\' => o.push_str("\\\\"),
            '\n' => o.push_str("\\n"),
            '\r' => o.push_str("\\r"),
            '\t' => o.push_str("\\t"),
            c if (c as u32) < 0x20 => {
                let _ = write!(o, "\\u{:04x}", c as u32);
            }
            c => o.push(c),
        }
    }
    o.push('"');
    o
}

fn sp(s: Span) -> String {
    let r = s.byte_range();
    format!("[{},{}]", r.start, r.end)
}
fn osp<T: Spanned>(o: Option<&T>) -> String {
    match o {
        Some(t) => sp(t.span()),
        None => "null".to_string(),
    }
}

struct V {
    out: Vec<String>,
    next: i64,
    parents: Vec<i64>,
    fns: Vec<i64>,
}

impl V {
    fn node(&mut self, kind: &str, span: Span, extra: String) -> i64 {
        let id = self.next;
        self.next += 1;
        let parent = *self.parents.last().unwrap_or(&-1);
        let f = *self.fns.last().unwrap_or(&-1);
        let mut s = format!(
            "{{\"id\":{},\"parent\":{},\"fn\":{},\"kind\":{},\"span\":{}",
            id,
            parent,
            f,
            esc(kind),
            sp(span)
        );
        if !extra.is_empty() {
            s.push(',');
            s.push_str(&extra);
        }
        s.push('}');
        self.out.push(s);
        id
    }
    fn attrs(attrs: &[syn::Attribute]) -> String {
        let mut v = vec![];
        for a in attrs {
            let path = a
                .path()
                .segments
                .iter()
                .map(|s| s.ident.to_string())
                .collect::<Vec<_>>()
                .join("::");
            let toks = match &a.meta {
                syn::Meta::List(l) => l.tokens.to_string(),
                syn::Meta::NameValue(_) => "=".to_string(),
                syn::Meta::Path(_) => String::new(),
            };
            v.push(format!(
                "{{\"span\":{},\"path\":{},\"tokens\":{}}}",
                sp(a.span()),
                esc(&path),
                esc(&toks)
            ));
        }
        format!("\"attrs\":[{}]", v.join(","))
    }
    fn sig(sig: &syn::Signature, block: &syn::Block, vis: Option<&syn::Visibility>) -> String {
        let recv = sig.receiver().map(|r| {
            let mut s = String::new();
            if r.reference.is_some() {
                s.push('&');
            }
            if r.mutability.is_some() {
                s.push_str("mut ");
            }
            s.push_str("self");
            s
        });
        let out = match &sig.output {
            syn::ReturnType::Default => "null".to_string(),
            syn::ReturnType::Type(_, t) => sp(t.span()),
        };
        let arrow = match &sig.output {
            syn::ReturnType::Default => "null".to_string(),
            syn::ReturnType::Type(a, _) => sp(a.span()),
        };
        let inputs: Vec<String> = sig
            .inputs
            .iter()
            .map(|a| match a {
                syn::FnArg::Receiver(r) => format!("{{\"span\":{},\"name\":\"self\"}}", sp(r.span())),
                syn::FnArg::Typed(t) => {
                    let name = match &*t.pat {
                        syn::Pat::Ident(i) => i.ident.to_string(),
                        _ => String::new(),
                    };
                    format!(
                        "{{\"span\":{},\"name\":{},\"pat_span\":{},\"ty_span\":{}}}",
                        sp(t.span()),
                        esc(&name),
                        sp(t.pat.span()),
                        sp(t.ty.span())
                    )
                }
            })
            .collect();
        format!(
            "\"ident\":{},\"sig_span\":{},\"fn_token\":{},\"paren_span\":{},\"output_span\":{},\"arrow_span\":{},\"where_span\":{},\"block_span\":{},\"receiver\":{},\"vis_span\":{},\"inputs\":[{}],\"generics_span\":{}",
            esc(&sig.ident.to_string()),
            sp(sig.span()),
            sp(sig.fn_token.span()),
            sp(sig.paren_token.span.join()),
            out,
            arrow,
            osp(sig.generics.where_clause.as_ref()),
            sp(block.span()),
            match recv {
                Some(r) => esc(&r),
                None => "null".into(),
            },
            match vis {
                Some(syn::Visibility::Inherited) | None => "null".to_string(),
                Some(v) => sp(v.span()),
            },
            inputs.join(","),
            if sig.generics.params.is_empty() { "null".to_string() } else { sp(sig.generics.span()) },
        )
    }
    fn fields(fields: &syn::Fields) -> String {
        let mut v = vec![];
        for f in fields.iter() {
            v.push(format!(
                "{{\"span\":{},\"ident\":{},\"vis_span\":{},\"ty_span\":{},\"start\":{}}}",
                sp(f.span()),
                match &f.ident {
                    Some(i) => esc(&i.to_string()),
                    None => "null".into(),
                },
                match &f.vis {
                    syn::Visibility::Inherited => "null".to_string(),
                    v => sp(v.span()),
                },
                sp(f.ty.span()),
                // position where a visibility keyword would go (after attributes)
                match (&f.vis, &f.ident) {
                    (syn::Visibility::Inherited, Some(i)) => i.span().byte_range().start,
                    (syn::Visibility::Inherited, None) => f.ty.span().byte_range().start,
                    (v, _) => v.span().byte_range().start,
                }
            ));
        }
        format!("[{}]", v.join(","))
    }
    fn pat_names(p: &syn::Pat, out: &mut Vec<String>) {
        match p {
            syn::Pat::Ident(i) => {
                out.push(i.ident.to_string());
                if let Some((_, sub)) = &i.subpat {
                    Self::pat_names(sub, out);
                }
            }
            syn::Pat::Tuple(t) => t.elems.iter().for_each(|e| Self::pat_names(e, out)),
            syn::Pat::TupleStruct(t) => t.elems.iter().for_each(|e| Self::pat_names(e, out)),
            syn::Pat::Struct(s) => s.fields.iter().for_each(|f| Self::pat_names(&f.pat, out)),
            syn::Pat::Reference(r) => Self::pat_names(&r.pat, out),
            syn::Pat::Type(t) => Self::pat_names(&t.pat, out),
            syn::Pat::Slice(s) => s.elems.iter().for_each(|e| Self::pat_names(e, out)),
            syn::Pat::Paren(p) => Self::pat_names(&p.pat, out),
            syn::Pat::Or(o) => o.cases.iter().for_each(|e| Self::pat_names(e, out)),
            _ => {}
        }
    }
    fn names_json(names: &[String]) -> String {
        format!(
            "[{}]",
            names.iter().map(|n| esc(n)).collect::<Vec<_>>().join(",")
        )
    }
}

impl<'ast> Visit<'ast> for V {
    fn visit_item(&mut self, i: &'ast syn::Item) {
        match i {
            syn::Item::Fn(f) => {
                let extra = format!(
                    "{},{}",
                    Self::sig(&f.sig, &f.block, Some(&f.vis)),
                    Self::attrs(&f.attrs)
                );
                let id = self.node("fn", f.span(), extra);
                self.parents.push(id);
                self.fns.push(id);
                visit::visit_block(self, &f.block);
                self.fns.pop();
                self.parents.pop();
            }
            syn::Item::Struct(s) => {
                let extra = format!(
                    "\"ident\":{},\"fields\":{},{},\"ident_span\":{},\"vis_span\":{}",
                    esc(&s.ident.to_string()),
                    Self::fields(&s.fields),
                    Self::attrs(&s.attrs),
                    sp(s.ident.span()),
                    match &s.vis { syn::Visibility::Inherited => "null".to_string(), v => sp(v.span()) },
                );
                self.node("struct", s.span(), extra);
            }
            syn::Item::Enum(e) => {
                let vars: Vec<String> = e
                    .variants
                    .iter()
                    .map(|v| {
                        format!(
                            "{{\"ident\":{},\"span\":{},\"fields\":{}}}",
                            esc(&v.ident.to_string()),
                            sp(v.span()),
                            Self::fields(&v.fields)
                        )
                    })
                    .collect();
                let extra = format!(
                    "\"ident\":{},\"variants\":[{}],{},\"ident_span\":{}",
                    esc(&e.ident.to_string()),
                    vars.join(","),
                    Self::attrs(&e.attrs),
                    sp(e.ident.span()),
                );
                self.node("enum", e.span(), extra);
            }
            syn::Item::Impl(im) => {
                use quote::ToTokens;
                let self_ty = im.self_ty.to_token_stream().to_string().replace(' ', "");
                let tr = im
                    .trait_
                    .as_ref()
                    .map(|(_, p, _)| p.to_token_stream().to_string().replace(' ', ""));
                let extra = format!(
                    "\"self_ty\":{},\"trait\":{},\"brace_open\":{},\"brace_close\":{},\"header_span\":[{},{}],{}",
                    esc(&self_ty),
                    match &tr {
                        Some(t) => esc(t),
                        None => "null".into(),
                    },
                    sp(im.brace_token.span.open()),
                    sp(im.brace_token.span.close()),
                    im.span().byte_range().start,
                    im.brace_token.span.open().byte_range().start,
                    Self::attrs(&im.attrs),
                );
                let id = self.node("impl", im.span(), extra);
                self.parents.push(id);
                for it in &im.items {
                    self.visit_impl_item(it);
                }
                self.parents.pop();
            }
            syn::Item::Mod(m) => {
                let extra = format!(
                    "\"ident\":{},\"inline\":{},{}",
                    esc(&m.ident.to_string()),
                    m.content.is_some(),
                    Self::attrs(&m.attrs)
                );
                let id = self.node("mod", m.span(), extra);
                if let Some((_, items)) = &m.content {
                    self.parents.push(id);
                    for it in items {
                        self.visit_item(it);
                    }
                    self.parents.pop();
                }
            }
            syn::Item::Use(u) => {
                self.node("use", u.span(), String::new());
            }
            other => {
                self.node("item_other", other.span(), String::new());
            }
        }
    }
    fn visit_impl_item(&mut self, i: &'ast syn::ImplItem) {
        match i {
            syn::ImplItem::Fn(f) => {
                let extra = format!(
                    "{},{}",
                    Self::sig(&f.sig, &f.block, Some(&f.vis)),
                    Self::attrs(&f.attrs)
                );
                let id = self.node("fn", f.span(), extra);
                self.parents.push(id);
                self.fns.push(id);
                visit::visit_block(self, &f.block);
                self.fns.pop();
                self.parents.pop();
            }
            other => {
                self.node("impl_item_other", other.span(), String::new());
            }
        }
    }
    fn visit_block(&mut self, b: &'ast syn::Block) {
        let id = self.node("block", b.span(), format!("\"nstmts\":{}", b.stmts.len()));
        self.parents.push(id);
        for s in &b.stmts {
            self.visit_stmt(s);
        }
        self.parents.pop();
    }
    fn visit_stmt(&mut self, s: &'ast syn::Stmt) {
        match s {
            syn::Stmt::Local(l) => {
                let mut names = vec![];
                Self::pat_names(&l.pat, &mut names);
                let (init, els) = match &l.init {
                    Some(i) => (
                        sp(i.expr.span()),
                        match &i.diverge {
                            Some((_, e)) => sp(e.span()),
                            None => "null".into(),
                        },
                    ),
                    None => ("null".into(), "null".into()),
                };
                let typed = matches!(&l.pat, syn::Pat::Type(_));
                let extra = format!(
                    "\"names\":{},\"pat_span\":{},\"init_span\":{},\"else_span\":{},\"typed\":{}",
                    Self::names_json(&names),
                    sp(l.pat.span()),
                    init,
                    els,
                    typed
                );
                let id = self.node("let", l.span(), extra);
                self.parents.push(id);
                if let Some(i) = &l.init {
                    self.visit_expr(&i.expr);
                    if let Some((_, e)) = &i.diverge {
                        self.visit_expr(e);
                    }
                }
                self.visit_pat(&l.pat);
                self.parents.pop();
            }
            syn::Stmt::Item(it) => {
                self.visit_item(it);
            }
            syn::Stmt::Expr(e, semi) => {
                let id = self.node(
                    "stmt_expr",
                    s.span(),
                    format!("\"semi\":{}", semi.is_some()),
                );
                self.parents.push(id);
                self.visit_expr(e);
                self.parents.pop();
            }
            syn::Stmt::Macro(m) => {
                use quote::ToTokens;
                let path = m.mac.path.to_token_stream().to_string().replace(' ', "");
                self.node(
                    "stmt_macro",
                    s.span(),
                    format!("\"path\":{}", esc(&path)),
                );
            }
        }
    }
    fn visit_expr(&mut self, e: &'ast syn::Expr) {
        use quote::ToTokens;
        match e {
            syn::Expr::ForLoop(f) => {
                let mut names = vec![];
                Self::pat_names(&f.pat, &mut names);
                let extra = format!(
                    "\"label\":{},\"pat_span\":{},\"expr_span\":{},\"body_span\":{},\"names\":{},\"for_token\":{}",
                    match &f.label {
                        Some(l) => esc(&l.name.ident.to_string()),
                        None => "null".into(),
                    },
                    sp(f.pat.span()),
                    sp(f.expr.span()),
                    sp(f.body.span()),
                    Self::names_json(&names),
                    sp(f.for_token.span()),
                );
                let id = self.node("for", f.span(), extra);
                self.parents.push(id);
                self.visit_pat(&f.pat);
                self.visit_expr(&f.expr);
                self.visit_block(&f.body);
                self.parents.pop();
            }
            syn::Expr::While(w) => {
                let extra = format!(
                    "\"cond_span\":{},\"body_span\":{}",
                    sp(w.cond.span()),
                    sp(w.body.span())
                );
                let id = self.node("while", w.span(), extra);
                self.parents.push(id);
                self.visit_expr(&w.cond);
                self.visit_block(&w.body);
                self.parents.pop();
            }
            syn::Expr::Loop(l) => {
                let extra = format!("\"body_span\":{},\"loop_token\":{}", sp(l.body.span()), sp(l.loop_token.span()));
                let id = self.node("loop", l.span(), extra);
                self.parents.push(id);
                self.visit_block(&l.body);
                self.parents.pop();
            }
            syn::Expr::Closure(c) => {
                let inputs: Vec<String> = c
                    .inputs
                    .iter()
                    .map(|p| {
                        let mut names = vec![];
                        Self::pat_names(p, &mut names);
                        format!(
                            "{{\"span\":{},\"typed\":{},\"wild\":{},\"tuple\":{},\"names\":{}}}",
                            sp(p.span()),
                            matches!(p, syn::Pat::Type(_)),
                            matches!(p, syn::Pat::Wild(_)),
                            matches!(p, syn::Pat::Tuple(_)),
                            Self::names_json(&names)
                        )
                    })
                    .collect();
                let extra = format!(
                    "\"inputs\":[{}],\"or1\":{},\"or2\":{},\"output_span\":{},\"body_span\":{},\"body_is_block\":{}",
                    inputs.join(","),
                    sp(c.or1_token.span()),
                    sp(c.or2_token.span()),
                    match &c.output {
                        syn::ReturnType::Default => "null".to_string(),
                        syn::ReturnType::Type(_, t) => sp(t.span()),
                    },
                    sp(c.body.span()),
                    matches!(&*c.body, syn::Expr::Block(_)),
                );
                let id = self.node("closure", c.span(), extra);
                self.parents.push(id);
                self.visit_expr(&c.body);
                self.parents.pop();
            }
            syn::Expr::MethodCall(m) => {
                let args: Vec<String> = m
                    .args
                    .iter()
                    .map(|a| {
                        format!(
                            "{{\"span\":{},\"is_path\":{},\"is_closure\":{}}}",
                            sp(a.span()),
                            matches!(a, syn::Expr::Path(_)),
                            matches!(a, syn::Expr::Closure(_))
                        )
                    })
                    .collect();
                let extra = format!(
                    "\"method\":{},\"receiver_span\":{},\"method_span\":{},\"dot_span\":{},\"paren_span\":{},\"turbofish_span\":{},\"args\":[{}]",
                    esc(&m.method.to_string()),
                    sp(m.receiver.span()),
                    sp(m.method.span()),
                    sp(m.dot_token.span()),
                    sp(m.paren_token.span.join()),
                    osp(m.turbofish.as_ref()),
                    args.join(",")
                );
                let id = self.node("method_call", m.span(), extra);
                self.parents.push(id);
                self.visit_expr(&m.receiver);
                for a in &m.args {
                    self.visit_expr(a);
                }
                self.parents.pop();
            }
            syn::Expr::Call(c) => {
                let args: Vec<String> = c
                    .args
                    .iter()
                    .map(|a| {
                        format!(
                            "{{\"span\":{},\"is_path\":{}}}",
                            sp(a.span()),
                            matches!(a, syn::Expr::Path(_))
                        )
                    })
                    .collect();
                let extra = format!(
                    "\"func\":{},\"func_span\":{},\"paren_span\":{},\"args\":[{}]",
                    esc(&c.func.to_token_stream().to_string().replace(' ', "")),
                    sp(c.func.span()),
                    sp(c.paren_token.span.join()),
                    args.join(",")
                );
                let id = self.node("call", c.span(), extra);
                self.parents.push(id);
                self.visit_expr(&c.func);
                for a in &c.args {
                    self.visit_expr(a);
                }
                self.parents.pop();
            }
            syn::Expr::Macro(m) => {
                let path = m.mac.path.to_token_stream().to_string().replace(' ', "");
                self.node("macro", m.span(), format!("\"path\":{}", esc(&path)));
            }
            syn::Expr::Continue(c) => {
                self.node("continue", c.span(), String::new());
            }
            syn::Expr::Break(b) => {
                let id = self.node("break", b.span(), String::new());
                self.parents.push(id);
                if let Some(e) = &b.expr {
                    self.visit_expr(e);
                }
                self.parents.pop();
            }
            syn::Expr::Return(r) => {
                let id = self.node("return", r.span(), String::new());
                self.parents.push(id);
                if let Some(e) = &r.expr {
                    self.visit_expr(e);
                }
                self.parents.pop();
            }
            syn::Expr::Match(m) => {
                let arms: Vec<String> = m
                    .arms
                    .iter()
                    .map(|a| {
                        format!(
                            "{{\"span\":{},\"pat_span\":{},\"guard_span\":{},\"body_span\":{}}}",
                            sp(a.span()),
                            sp(a.pat.span()),
                            match &a.guard {
                                Some((_, g)) => sp(g.span()),
                                None => "null".into(),
                            },
                            sp(a.body.span())
                        )
                    })
                    .collect();
                let extra = format!(
                    "\"scrutinee_span\":{},\"arms\":[{}]",
                    sp(m.expr.span()),
                    arms.join(",")
                );
                let id = self.node("match", m.span(), extra);
                self.parents.push(id);
                self.visit_expr(&m.expr);
                for a in &m.arms {
                    self.visit_pat(&a.pat);
                    if let Some((_, g)) = &a.guard {
                        self.visit_expr(g);
                    }
                    self.visit_expr(&a.body);
                }
                self.parents.pop();
            }
            syn::Expr::If(i) => {
                let extra = format!(
                    "\"cond_span\":{},\"then_span\":{},\"else_span\":{}",
                    sp(i.cond.span()),
                    sp(i.then_branch.span()),
                    match &i.else_branch {
                        Some((_, e)) => sp(e.span()),
                        None => "null".into(),
                    }
                );
                let id = self.node("if", i.span(), extra);
                self.parents.push(id);
                self.visit_expr(&i.cond);
                self.visit_block(&i.then_branch);
                if let Some((_, e)) = &i.else_branch {
                    self.visit_expr(e);
                }
                self.parents.pop();
            }
            syn::Expr::Let(l) => {
                let mut names = vec![];
                Self::pat_names(&l.pat, &mut names);
                let extra = format!(
                    "\"pat_span\":{},\"expr_span\":{},\"names\":{}",
                    sp(l.pat.span()),
                    sp(l.expr.span()),
                    Self::names_json(&names)
                );
                let id = self.node("expr_let", l.span(), extra);
                self.parents.push(id);
                self.visit_pat(&l.pat);
                self.visit_expr(&l.expr);
                self.parents.pop();
            }
            syn::Expr::Cast(c) => {
                let extra = format!(
                    "\"expr_span\":{},\"ty\":{}",
                    sp(c.expr.span()),
                    esc(&c.ty.to_token_stream().to_string().replace(' ', ""))
                );
                let id = self.node("cast", c.span(), extra);
                self.parents.push(id);
                self.visit_expr(&c.expr);
                self.parents.pop();
            }
            syn::Expr::Binary(b) => {
                let extra = format!(
                    "\"op\":{},\"op_span\":{},\"left_span\":{},\"right_span\":{}",
                    esc(&b.op.to_token_stream().to_string()),
                    sp(b.op.span()),
                    sp(b.left.span()),
                    sp(b.right.span())
                );
                let id = self.node("binary", b.span(), extra);
                self.parents.push(id);
                self.visit_expr(&b.left);
                self.visit_expr(&b.right);
                self.parents.pop();
            }
            syn::Expr::Try(t) => {
                let id = self.node("try", t.span(), format!("\"expr_span\":{}", sp(t.expr.span())));
                self.parents.push(id);
                self.visit_expr(&t.expr);
                self.parents.pop();
            }
            syn::Expr::Struct(s) => {
                let extra = format!(
                    "\"path\":{}",
                    esc(&s.path.to_token_stream().to_string().replace(' ', ""))
                );
                let id = self.node("struct_lit", s.span(), extra);
                self.parents.push(id);
                visit::visit_expr_struct(self, s);
                self.parents.pop();
            }
            syn::Expr::Path(p) => {
                self.node(
                    "path",
                    p.span(),
                    format!(
                        "\"text\":{}",
                        esc(&p.to_token_stream().to_string().replace(' ', ""))
                    ),
                );
            }
            syn::Expr::Block(b) => {
                self.visit_block(&b.block);
            }
            other => visit::visit_expr(self, other),
        }
    }
    fn visit_pat(&mut self, p: &'ast syn::Pat) {
        if let syn::Pat::Slice(s) = p {
            let elems: Vec<String> = s.elems.iter().map(|e| sp(e.span())).collect();
            self.node(
                "pat_slice",
                s.span(),
                format!("\"elems\":[{}]", elems.join(",")),
            );
        }
        visit::visit_pat(self, p);
    }
}

fn walk(dir: &std::path::Path, out: &mut Vec<std::path::PathBuf>) {
    let mut entries: Vec<_> = std::fs::read_dir(dir)
        .unwrap()
        .filter_map(|e| e.ok())
        .map(|e| e.path())
        .collect();
    entries.sort();
    for p in entries {
        if p.is_dir() {
            walk(&p, out);
        } else if p.extension().map(|e| e == "rs").unwrap_or(false) {
            out.push(p);
        }
    }
}

fn main() {
    let root = std::env::args().nth(1).expect("usage: spanmap <src-root>");
    let root = std::path::PathBuf::from(root);
    let mut files = vec![];
    walk(&root, &mut files);
    let mut parts = vec![];
    for f in files {
        let rel = f.strip_prefix(&root).unwrap().to_string_lossy().to_string();
        let text = std::fs::read_to_string(&f).unwrap();
        match syn::parse_file(&text) {
            Ok(ast) => {
                let mut v = V {
                    out: vec![],
                    next: 0,
                    parents: vec![],
                    fns: vec![],
                };
                for it in &ast.items {
                    v.visit_item(it);
                }
                parts.push(format!(
                    "{}:{{\"len\":{},\"ok\":true,\"nodes\":[\n{}\n]}}",
                    esc(&rel),
                    text.len(),
                    v.out.join(",\n")
                ));
            }
            Err(e) => {
                parts.push(format!(
                    "{}:{{\"len\":{},\"ok\":false,\"error\":{},\"nodes\":[]}}",
                    esc(&rel),
                    text.len(),
                    esc(&e.to_string())
                ));
            }
        }
    }
    println!("{{{}}}", parts.join(",\n"));
}
