#!/bin/bash
# run every stored seed against the check of its property (scratch worktrees; nothing applied to /repo)
cd "$(dirname "$0")/.."
for d in seeded/C*/; do
  s=$(basename $d); p=${s%-*}
  out=$(timeout 900 tools/seedcheck.sh $d $p 2>&1)
  ex=$(echo "$out" | grep -oE "exit=[0-9]+" | tail -1)
  how=$(echo "$out" | grep -E "^(FAILED-OBLIGATION|BOUNDED-CHECK|UNDECIDED)" | head -1 | cut -c1-150)
  conf=$(echo "$out" | grep -cE "demo on clean tree: PASS|suite with patch: PASS|demo with patch: FAIL")
  echo "$s $ex confirmed=$conf/3 :: $how"
done
