//! scope family (C11, C19, C10): every combination of by-name imports, module imports, a local definition and
//! nested module paths over a fixed universe of provider modules that all define the same short names with
//! different sizes.  The expected binding is computed from the precedence list of the property statement:
//!   1. the LAST `use path::Name` whose path is a registered type with that last segment,
//!   2. (a built-in: never the case for the names used here),
//!   3. the type of that name in the observed module itself,
//!   4. the type of that name in a module imported with `use path`, earlier imports first;
//!      a `use` path that names a registered type is a by-name import only.
//! none of them -> the input set is rejected.  Sizes identify the definition (every definition of the same
//! short name has a different size), and the resolved reference must be the full path of that definition.
//! C19: the same observed module is built again (a) with the provider modules it neither imports nor
//! references removed and (b) with them changed; its output file must be byte-identical.
use crate::{build_modules, emit_checked, join_sources, scratch_dir, Fail, Outcome};
use pyxis::grammar::ItemPath;

const PROVIDERS: &[(&str, &[(&str, usize)])] = &[
    ("a", &[("T", 1), ("B", 3)]),
    ("b", &[("T", 2), ("B", 9)]),
    ("a::B", &[("T", 5)]), // a MODULE whose path is also the path of the type a::B
    ("a::inner", &[("T", 6)]),
    ("d", &[("T", 7), ("B", 10)]),
    ("d::T", &[("B", 11)]), // the same the other way round
    // modules nested BELOW the observed modules, never imported: a lookup from `c` must see the direct children of `c` only
    ("c::sub", &[("T", 12), ("B", 13)]),
    ("x::c::sub", &[("T", 14), ("B", 15)]),
];
const USES: &[&str] = &["a", "b", "d", "a::T", "b::T", "d::T", "a::B", "b::B", "a::B::T", "a::inner", "a::inner::T", "d::T::B", "nope", "a::Nope"];

fn provider_src(defs: &[(&str, usize)], bump: usize) -> String {
    defs.iter().map(|(n, s)| format!("pub type {n} {{ pub x: [u8; {}] }}\n", s + bump)).collect()
}
fn parent(p: &str) -> &str { p.rfind("::").map(|i| &p[..i]).unwrap_or("") }
fn last(p: &str) -> &str { p.rfind("::").map(|i| &p[i + 2..]).unwrap_or(p) }

/// the definition `name` denotes inside module `own` with imports `uses` (property statement, C11)
fn model(types: &std::collections::BTreeMap<String, usize>, own: &str, uses: &[&str], name: &str) -> Option<String> {
    if let Some(p) = uses.iter().rev().find(|p| types.contains_key(**p) && last(p) == name) { return Some(p.to_string()); }
    let local = format!("{own}::{name}");
    if types.contains_key(&local) { return Some(local); }
    for p in uses {
        if types.contains_key(*p) { continue; }
        let q = format!("{p}::{name}");
        if types.contains_key(&q) { return Some(q); }
    }
    None
}

pub fn scope_family(prop: &str, quick: bool, out: &mut Vec<Fail>) -> usize {
    let mut n = 0;
    let maxlen = if quick { 2 } else { 3 };
    let mut seqs: Vec<Vec<&str>> = vec![vec![]];
    let mut frontier: Vec<Vec<&str>> = vec![vec![]];
    for _ in 0..maxlen {
        let mut next = vec![];
        for s in &frontier { for u in USES { let mut t = s.clone(); t.push(*u); next.push(t); } }
        seqs.extend(next.iter().cloned());
        frontier = next;
    }
    let dir = scratch_dir().join("scope");
    let mut k = 0usize;
    for own in ["c", "x::c"] {
        for local in [false, true] {
            for name in ["T", "B"] {
                for uses in &seqs {
                    k += 1;
                    if crate::shard_skip(k / 2) { continue; }
                    let ptr = if k % 2 == 0 { 4 } else { 8 };
                    let mut types = std::collections::BTreeMap::new();
                    for (m, defs) in PROVIDERS { for (t, s) in *defs { types.insert(format!("{m}::{t}"), *s); } }
                    if local { types.insert(format!("{own}::T"), 4); }
                    types.insert(format!("{own}::U"), 0);
                    let mut src: String = uses.iter().map(|u| format!("use {u};\n")).collect();
                    if local { src.push_str("pub type T { pub x: [u8; 4] }\n"); }
                    src.push_str(&format!("pub type U {{ pub t: {name} }}\npub type P {{ pub p: *const {name} }}\n"));
                    let want = model(&types, own, uses, name);
                    let full: Vec<(&str, String)> = PROVIDERS.iter().map(|(m, d)| (*m, provider_src(d, 0))).chain(std::iter::once((own, src.clone()))).collect();
                    let o = build_modules(&full, ptr);
                    n += 1;
                    let input = join_sources(&full);
                    match (&o, &want) {
                        (Outcome::Panic(m), _) => { out.push(Fail { family: "scope", input, ptr, expected: "no panic".into(), actual: format!("PANIC({m})") }); continue; }
                        (Outcome::Err(_), None) => continue,
                        (Outcome::Err(_), Some(p)) => { out.push(Fail { family: "scope", input, ptr, expected: format!("accepted; `{name}` in `{own}` denotes {p}"), actual: o.tag() }); continue; }
                        (Outcome::Ok(_), None) => { out.push(Fail { family: "scope", input, ptr, expected: format!("rejected: `{name}` is not visible in `{own}`"), actual: "OK".into() }); continue; }
                        (Outcome::Ok(st), Some(p)) => {
                            let u = st.type_registry().get(&ItemPath::from(format!("{own}::U").as_str()));
                            let td = u.and_then(|d| d.resolved()).and_then(|r| r.inner.as_type());
                            let mut refs: Vec<String> = td.map(|td| td.regions.iter().map(|r| format!("{}", r.type_ref)).collect()).unwrap_or_default();
                            let pt = st.type_registry().get(&ItemPath::from(format!("{own}::P").as_str())).and_then(|d| d.resolved()).and_then(|r| r.inner.as_type());
                            refs.extend(pt.map(|td| td.regions.iter().map(|r| format!("{}", r.type_ref)).collect::<Vec<_>>()).unwrap_or_default());
                            let sz = u.and_then(|d| d.size());
                            let s0 = types[p];
                            let want_sz = s0;
                            let want_refs = [p.clone(), format!("*const {p}")];
                            let got_refs: Vec<String> = refs.iter().filter(|r| !r.starts_with("[u8")).cloned().collect();
                            if got_refs != want_refs || sz != Some(want_sz) {
                                out.push(Fail { family: "scope", input: input.clone(), ptr, expected: format!("`{name}` in `{own}` denotes {p} (size {s0}): fields {want_refs:?}, size of U {want_sz}"), actual: format!("fields {got_refs:?}, size of U {sz:?}") });
                                if out.len() > 8 { return n; }
                                continue;
                            }
                            if prop != "C19" { continue; }
                            // ---- C19: modules the observed one neither imports nor references
                            let reach: std::collections::BTreeSet<&str> = uses.iter().map(|u| if types.contains_key(*u) { parent(u) } else { *u }).collect();
                            let reduced: Vec<(&str, String)> = full.iter().filter(|(m, _)| *m == own || reach.contains(m)).cloned().collect();
                            let changed: Vec<(&str, String)> = PROVIDERS.iter().map(|(m, d)| (*m, provider_src(d, if reach.contains(m) { 0 } else { 20 }))).chain(std::iter::once((own, src.clone()))).collect();
                            let e0 = emit_checked(ptr, st, &full, &dir);
                            for (what, other) in [("removed", &reduced), ("changed", &changed)] {
                                n += 1;
                                match build_modules(other, ptr) {
                                    Outcome::Ok(s2) => {
                                        let e1 = emit_checked(ptr, &s2, other, &dir);
                                        if e0.files.get(own) != e1.files.get(own) || e0.files.get(own).is_none() {
                                            out.push(Fail { family: "scope", input: format!("{input}\n// ==== the modules `{own}` neither imports nor references {what}\n{}", join_sources(other)), ptr,
                                                expected: format!("output of module `{own}` byte-identical"), actual: crate::first_diff(e0.files.get(own), e1.files.get(own)) });
                                        }
                                    }
                                    o2 => out.push(Fail { family: "scope", input: format!("{input}\n// ==== the modules `{own}` neither imports nor references {what}\n{}", join_sources(other)), ptr,
                                        expected: "still accepted (nothing the observed module can see changed)".into(), actual: o2.tag() }),
                                }
                            }
                            if out.len() > 8 { return n; }
                        }
                    }
                }
            }
        }
    }
    n
}
