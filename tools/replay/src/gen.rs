//! gen: random multi-module programs that the layout rules accept by construction (explicit padding and
//! alignment attributes are computed while generating), to give the bounded backend stand-in (emit.rs)
//! shapes nobody wrote down: nested module paths, by-name and by-module imports, types named alike in
//! different modules, packed / aligned / sized types, bases at any position, vftables with indices and
//! conventions, functions with and without receivers, enums with scattered values, raw identifiers,
//! doc comments with empty lines, extern values, prologues.  Deterministic in (seed, index).

pub struct Rng(pub u64);
impl Rng {
    pub fn next(&mut self) -> u64 {
        self.0 ^= self.0 << 13;
        self.0 ^= self.0 >> 7;
        self.0 ^= self.0 << 17;
        self.0
    }
    pub fn below(&mut self, n: usize) -> usize {
        (self.next() % (n.max(1) as u64)) as usize
    }
    pub fn chance(&mut self, num: usize, den: usize) -> bool {
        self.below(den) < num
    }
    pub fn pick<'a, T>(&mut self, v: &'a [T]) -> &'a T {
        &v[self.below(v.len())]
    }
}

#[derive(Clone)]
struct Known {
    module: usize,
    name: String,
    size: u128,
    align: u128,
    is_struct: bool,
    has_vftable: bool,
    /// the lines of the type's vftable block (own or inherited): a derived type may repeat them and add more
    vft_decl: Option<String>,
}

const MODULE_SETS: &[&[&str]] = &[
    &["m"],
    &["m", "n"],
    &["gfx", "gfx::detail"],
    &["a::b", "a::b::c", "z"],
    &["lib::types", "app", "app::ui"],
    &["x::y::z", "x"],
];
const CONVENTIONS: &[&str] = &["C", "cdecl", "stdcall", "fastcall", "thiscall", "vectorcall", "system"];
const INT_BASES: &[(&str, u128)] = &[("u8", 1), ("u16", 2), ("u32", 4), ("u64", 8), ("i8", 1), ("i16", 2), ("i32", 4), ("i64", 8)];

fn doc(r: &mut Rng, indent: &str) -> String {
    match r.below(8) {
        0 => format!("{indent}/// one line\n"),
        1 => format!("{indent}/// first\n{indent}///\n{indent}/// third\n"),
        2 => format!("{indent}///\n{indent}/// after an empty line\n"),
        3 => format!("{indent}/// before an empty line\n{indent}///\n"),
        _ => String::new(),
    }
}
fn vis(r: &mut Rng) -> &'static str {
    if r.chance(2, 3) { "pub " } else { "" }
}

/// (type text, size, align) of a field type; `known` are the types that may be referred to from module `m`
fn field_type(r: &mut Rng, ptr: u128, known: &[Known], m: usize, uses: &mut Vec<String>, mods: &[&str], depth: usize) -> (String, u128, u128) {
    let prims: [(&str, u128, u128); 9] = [("u8", 1, 1), ("u16", 2, 2), ("u32", 4, 4), ("u64", 8, 8), ("i32", 4, 4), ("f32", 4, 4), ("f64", 8, 8), ("bool", 1, 1), ("u128", 16, 16)];
    let usable: Vec<&Known> = known.iter().filter(|k| k.size > 0).collect();
    match r.below(10) {
        0 | 1 | 2 => {
            let p = r.pick(&prims);
            (p.0.to_string(), p.1, p.2)
        }
        3 | 4 => {
            // pointer to anything (a pointer does not need the pointee resolved first, but it must exist)
            let target = if !known.is_empty() && r.chance(2, 3) {
                let k = r.pick(known).clone();
                refer(&k, m, uses, mods, r)
            } else {
                r.pick(&["u8", "void", "u32"]).to_string()
            };
            (format!("*{} {}", if r.chance(1, 2) { "const" } else { "mut" }, target), ptr, ptr)
        }
        5 if depth < 2 => {
            let (t, s, a) = field_type(r, ptr, known, m, uses, mods, depth + 1);
            let n = 1 + r.below(4) as u128;
            (format!("[{t}; {n}]"), s * n, a)
        }
        6 | 7 if !usable.is_empty() => {
            let k = (*r.pick(&usable)).clone();
            (refer(&k, m, uses, mods, r), k.size, k.align)
        }
        _ => {
            let n = 1 + r.below(12) as u128;
            (format!("unknown<{n}>"), n, 1)
        }
    }
}
/// how module `m` names type `k`: directly (same module), or through a by-name or by-module import
fn refer(k: &Known, m: usize, uses: &mut Vec<String>, mods: &[&str], r: &mut Rng) -> String {
    if k.name == "void" {
        // the built-in wins over the same module and over module imports; only `use path::void;` selects the user type
        let by_name = format!("use {}::void;", mods[k.module]);
        if !uses.contains(&by_name) { uses.push(by_name); }
        return k.name.clone();
    }
    if k.module != m {
        let by_name = format!("use {}::{};", mods[k.module], k.name);
        let by_mod = format!("use {};", mods[k.module]);
        if !uses.contains(&by_name) && !uses.contains(&by_mod) {
            uses.push(if r.chance(1, 2) { by_name } else { by_mod });
        }
    }
    k.name.clone()
}

/// what the generator knows about its program: every item with the size and alignment it was laid out for
pub struct Expect {
    pub items: Vec<(String, u128, u128)>,
}
pub fn program(seed: u64, index: u64, ptr: usize) -> Vec<(&'static str, String)> {
    program_with_expectation(seed, index, ptr).0
}
pub fn program_with_expectation(seed: u64, index: u64, ptr: usize) -> (Vec<(&'static str, String)>, Expect) {
    let mut r = Rng(0x9E3779B97F4A7C15 ^ seed.wrapping_mul(0xA24BAED4963EE407) ^ index.wrapping_mul(0x9FB21C651E98DF25) | 1);
    for _ in 0..4 { r.next(); }
    let p = ptr as u128;
    let mods: &[&str] = MODULE_SETS[r.below(MODULE_SETS.len())];
    let mut known: Vec<Known> = vec![];
    let mut bodies: Vec<String> = vec![String::new(); mods.len()];
    let mut uses: Vec<Vec<String>> = vec![vec![]; mods.len()];
    let mut counter = 0usize;
    let n_items = 2 + r.below(6);
    for _ in 0..n_items {
        let m = r.below(mods.len());
        counter += 1;
        // names: mostly unique, sometimes the same name in another module, sometimes raw
        let name = match r.below(14) {
            1 => "r#type".to_string(),
            2 => "void".to_string(),   // a user type named like a built-in: only reachable through a by-name import
            _ => format!("T{counter}"),
        };
        // every name is unique in the whole program (so that what a name binds to does not depend on the import
        // lists - binding precedence has its own family); `r#type` and `void` therefore occur at most once
        if known.iter().any(|k| k.name == name) {
            continue;
        }
        // a by-name import of `Shared` from elsewhere would capture the name: keep such modules apart
        if name == "Shared" && uses[m].iter().any(|u| u.ends_with("::Shared;")) {
            continue;
        }
        let mut out = String::new();
        if r.chance(1, 4) {
            // ---- enum
            let (base, size) = *r.pick(INT_BASES);
            let nv = 1 + r.below(4);
            let defaultable = r.chance(1, 3);
            let default_at = r.below(nv);
            let mut attrs = vec![];
            if r.chance(1, 3) { attrs.push("copyable".to_string()); }
            if r.chance(1, 4) { attrs.push("cloneable".to_string()); }
            if defaultable { attrs.push("defaultable".to_string()); }
            if r.chance(1, 5) { attrs.push(format!("singleton(0x{:X})", 0x1000 + r.below(0x100000) * 8 + if r.chance(1, 3) { 0x1_4000_0000 } else { 0 })); }
            out.push_str(&doc(&mut r, ""));
            if !attrs.is_empty() { out.push_str(&format!("#[{}]\n", attrs.join(", "))); }
            out.push_str(&format!("{}enum {}: {} {{\n", vis(&mut r), name, base));
            let signed = base.starts_with('i');
            for v in 0..nv {
                if defaultable && v == default_at { out.push_str("    #[default]\n"); }
                let val = match r.below(4) {
                    0 => String::new(),
                    1 => format!(" = {}", r.below(100)),
                    2 if signed => format!(" = -{}", 1 + r.below(50)),
                    _ => format!(" = 0x{:X}", r.below(120)),
                };
                out.push_str(&format!("    V{v}{val},\n"));
            }
            out.push_str("}\n");
            known.push(Known { module: m, name: name.clone(), size, align: size, is_struct: false, has_vftable: false, vft_decl: None });
        } else {
            // ---- struct
            let packed = r.chance(1, 6);
            let mut fields = String::new();
            let mut off: u128 = 0;
            let mut max_align: u128 = 1;
            let own_vftable = r.chance(1, 3);
            let mut first_base_has_vftable = false;
            let mut first_base_vft: Option<String> = None;
            let mut my_vft: Option<String> = None;
            let mut has_vft = false;
            let mut vfuncs: Vec<String> = vec![];
            let mut base_vfuncs: Option<String> = None;
            let nf = r.below(5);
            let mut specs: Vec<(String, u128, u128, bool)> = vec![]; // (decl text without padding, size, align, is_base)
            let mut nbases = 0;
            for f in 0..nf {
                let bases: Vec<Known> = known.iter().filter(|k| k.is_struct && k.size > 0).cloned().collect();
                if !bases.is_empty() && r.chance(1, 3) && nbases < 2 {
                    let k = r.pick(&bases).clone();
                    // a second base with a vftable is fine; the first base decides sharing
                    if nbases == 0 { first_base_has_vftable = k.has_vftable; first_base_vft = k.vft_decl.clone(); }
                    // the derived type's own block would have to repeat the base slots: keep it simple, no own block then
                    let t = refer(&k, m, &mut uses[m], mods, &mut r);
                    specs.push((format!("    #[base]\n    {}b{f}: {t},\n", vis(&mut r)), k.size, k.align, true));
                    nbases += 1;
                    if nbases == 1 && k.has_vftable { base_vfuncs = Some(String::new()); }
                } else {
                    let (t, s, a) = field_type(&mut r, p, &known, m, &mut uses[m], mods, 0);
                    if s == 0 { continue; }
                    let fname = if r.chance(1, 10) { "r#match".to_string() } else { format!("f{f}") };
                    if specs.iter().any(|x| x.0.contains(&format!(" {fname}:"))) { continue; }
                    let d = doc(&mut r, "    ");
                    specs.push((format!("{d}    {}{fname}: {t},\n", vis(&mut r)), s, a, false));
                }
            }
            let _ = base_vfuncs;
            // the first #[base] field must come first when it has a vftable?  No: any position is legal.
            if own_vftable && !first_base_has_vftable {
                has_vft = true;
                let nvf = 1 + r.below(3);
                let mut block = String::from("    vftable {\n");
                let mut slot = 0usize;
                for v in 0..nvf {
                    let mut attrs = vec![];
                    if r.chance(1, 4) { slot += r.below(3); attrs.push(format!("index({slot})")); }
                    if r.chance(1, 3) { attrs.push(format!("calling_convention(\"{}\")", r.pick(CONVENTIONS))); }
                    block.push_str(&doc(&mut r, "        "));
                    if !attrs.is_empty() { block.push_str(&format!("        #[{}]\n", attrs.join(", "))); }
                    let recv = if r.chance(1, 2) { "&self" } else { "&mut self" };
                    let args = if r.chance(1, 2) { ", a: u32".to_string() } else if r.chance(1, 2) { ", f: u64, this: *const u8".to_string() } else { String::new() };
                    let ret = if r.chance(1, 2) { " -> u32" } else { "" };
                    block.push_str(&format!("        {}fn vf{v}({recv}{args}){ret};\n", vis(&mut r)));
                    vfuncs.push(format!("vf{v}"));
                    slot += 1;
                }
                my_vft = Some(block["    vftable {\n".len()..].to_string());
                block.push_str("    },\n");
                fields.push_str(&block);
                off = p;
                max_align = max_align.max(p);
            } else if first_base_has_vftable {
                has_vft = true;
                my_vft = first_base_vft.clone();
                // now and then the derived type spells the inherited table out (every base slot repeated, in place)
                // and appends slots of its own
                if let (Some(base_lines), true) = (&first_base_vft, r.chance(1, 2)) {
                    let mut block = format!("    vftable {{\n{base_lines}");
                    for v in 0..r.below(3) {
                        block.push_str(&format!("        {}fn dv{counter}_{v}(&self, a: u16);\n", vis(&mut r)));
                    }
                    my_vft = Some(block["    vftable {\n".len()..].to_string());
                    block.push_str("    },\n");
                    fields.push_str(&block);
                }
            }
            for (decl, s, a, _is_base) in &specs {
                let a_eff = if packed { 1 } else { *a };
                if a_eff > 0 && off % a_eff != 0 {
                    let pad = a_eff - off % a_eff;
                    fields.push_str(&format!("    _: unknown<{pad}>,\n"));
                    off += pad;
                }
                fields.push_str(decl);
                off += s;
                max_align = max_align.max(*a);
            }
            let mut attrs = vec![];
            let align = if packed {
                attrs.push("packed".to_string());
                1
            } else {
                let a = if r.chance(1, 5) { max_align * 2 } else { max_align };
                attrs.push(format!("align({a})"));
                a
            };
            if off % align != 0 {
                let pad = align - off % align;
                fields.push_str(&format!("    _: unknown<{pad}>,\n"));
                off += pad;
            }
            if r.chance(1, 4) {
                let extra = align * r.below(3) as u128;
                attrs.push(format!("size({})", off + extra));
                off += extra;
            }
            if r.chance(1, 4) { attrs.push("copyable".to_string()); }
            if r.chance(1, 5) { attrs.push("cloneable".to_string()); }
            if r.chance(1, 6) && off > 0 { attrs.push(format!("singleton(0x{:X})", 0x2000 + r.below(0x100000) * 8 + if r.chance(1, 3) { 0x7FF0_0000_0000 } else { 0 })); }
            out.push_str(&doc(&mut r, ""));
            out.push_str(&format!("#[{}]\n", attrs.join(", ")));
            out.push_str(&format!("{}type {} {{\n{}}}\n", vis(&mut r), name, fields));
            // ---- impl block
            if r.chance(1, 2) {
                let nfn = 1 + r.below(3);
                out.push_str(&format!("impl {name} {{\n"));
                for k in 0..nfn {
                    let mut attrs = vec![format!("address(0x{:X})", 0x40_0000 + r.below(0x1000) * 16 + if r.chance(1, 5) { 0x1_0000_0000 } else { 0 })];
                    if r.chance(1, 3) { attrs.push(format!("calling_convention(\"{}\")", r.pick(CONVENTIONS))); }
                    out.push_str(&doc(&mut r, "    "));
                    out.push_str(&format!("    #[{}]\n", attrs.join(", ")));
                    let recv = match r.below(3) { 0 => "", 1 => "&self", _ => "&mut self" };
                    let mut args: Vec<String> = vec![];
                    if !recv.is_empty() { args.push(recv.to_string()); }
                    for a in 0..r.below(3) {
                        let (t, _, _) = field_type(&mut r, p, &known, m, &mut uses[m], mods, 1);
                        if t.starts_with("unknown") { continue; }
                        args.push(format!("{}: {t}", ["a", "f", "this", "value"][(a + k) % 4]));
                    }
                    let ret = if r.chance(1, 2) { " -> *mut u8" } else if r.chance(1, 2) { " -> u64" } else { "" };
                    // mostly unique names; now and then a name a base may already have (re-exposed functions get renamed
                    // or the build is rejected - both are legitimate outcomes)
                    // unique names: a program of this generator is accepted by construction (a rejection is a finding)
                    let fname = format!("{}{counter}_{k}", ["m", "get_x", "r#fn", "call"][k % 4]);
                    out.push_str(&format!("    {}fn {fname}({}){ret};\n", vis(&mut r), args.join(", ")));
                }
                out.push_str("}\n");
            }
            known.push(Known { module: m, name: name.clone(), size: off, align, is_struct: true, has_vftable: has_vft, vft_decl: my_vft });
        }
        bodies[m].push_str(&out);
        // extern value now and then
        if r.chance(1, 6) {
            bodies[m].push_str(&format!("#[address(0x{:X})]\n{}extern ev{counter}: *mut u8;\n", 0x9000 + counter * 8 + if r.chance(1, 3) { 0x2_0000_0000 } else { 0 }, vis(&mut r)));
        }
    }
    let mut res = vec![];
    for (i, path) in mods.iter().enumerate() {
        let mut text = String::new();
        if r.chance(1, 4) { text.push_str("//! module docs\n//!\n"); }
        for u in &uses[i] { text.push_str(u); text.push('\n'); }
        // now and then an import is repeated (by-name imports: the last one wins, so the repeated first line changes nothing
        // only if no competing import of the same name follows it - repeat the LAST line, which never changes the binding)
        if let (Some(last), true) = (uses[i].last(), r.chance(1, 6)) { if let Some(first) = uses[i].first() { if first != last || uses[i].len() == 1 { text.push_str(last); text.push('\n'); } } }
        if r.chance(1, 5) { text.push_str(&format!("backend rust prologue r#\"\n    const PRO_{i}: u32 = {i}; // c\n\"#;\nbackend other epilogue r#\"\n    const FOREIGN_{i}: u32 = 0;\n\"#;\n")); }
        if r.chance(1, 6) { text.push_str(&format!("backend rust {{\n    prologue r#\"const PRO2_{i}: u32 = 2; // second block\"#;\n    epilogue r#\"const EPI_{i}: u32 = 3;\n// end\"#;\n}}\nbackend rust epilogue r#\"\n    const EPI2_{i}: u32 = 4;\n\"#;\n")); }
        text.push_str(&bodies[i]);
        res.push((*path, text));
    }
    let items = known.iter().map(|k| (format!("{}::{}", mods[k.module], k.name), k.size, k.align)).collect();
    (res, Expect { items })
}
