//! gen: random multi-module programs that the layout rules accept by construction (explicit padding and
//! alignment attributes are computed while generating), to give the bounded backend stand-in (emit.rs)
//! shapes nobody wrote down: nested module paths, by-name and by-module imports, types named alike in
//! different modules, packed / aligned / sized types, bases at any position, vftables with indices and
//! conventions, functions with and without receivers, enums with scattered values, raw identifiers,
//! doc comments with empty lines, extern values, prologues.  Deterministic in (seed, index).

pub struct Rng(pub u64);
impl Rng {
    pub fn next(&mut self) -> u64 {
        self.0 ^= self.0 << 13;
        self.0 ^= self.0 >> 7;
        self.0 ^= self.0 << 17;
        self.0
    }
    pub fn below(&mut self, n: usize) -> usize {
        (self.next() % (n.max(1) as u64)) as usize
    }
    pub fn chance(&mut self, num: usize, den: usize) -> bool {
        self.below(den) < num
    }
    pub fn pick<'a, T>(&mut self, v: &'a [T]) -> &'a T {
        &v[self.below(v.len())]
    }
}

#[derive(Clone, Debug, PartialEq)]
pub enum BodyExp { Address(u128), Vftable(String), Field(String, String) }
/// what the generator knows about one function of a type
#[derive(Clone, Debug)]
pub struct FnExp { pub name: String, pub public: bool, pub cc: String, pub has_recv: bool, pub body: BodyExp }
#[derive(Clone)]
struct Known {
    module: usize,
    name: String,
    size: u128,
    align: u128,
    is_struct: bool,
    has_vftable: bool,
    /// the lines of the type's vftable block (own or inherited): a derived type may repeat them and add more
    vft_decl: Option<String>,
    /// the type's associated functions (re-exposed base members first, then its own impl functions), and the named
    /// functions of its vftable (own or inherited)
    assoc: Vec<FnExp>,
    vfs: Vec<FnExp>,
}

const MODULE_SETS: &[&[&str]] = &[
    &["m"],
    &["m", "n"],
    &["gfx", "gfx::detail"],
    &["a::b", "a::b::c", "z"],
    &["lib::types", "app", "app::ui"],
    &["x::y::z", "x"],
];
const CONVENTIONS: &[&str] = &["C", "cdecl", "stdcall", "fastcall", "thiscall", "vectorcall", "system"];
const INT_BASES: &[(&str, u128)] = &[("u8", 1), ("u16", 2), ("u32", 4), ("u64", 8), ("i8", 1), ("i16", 2), ("i32", 4), ("i64", 8)];

/// a doc comment (source text) and the doc string it stands for ("line for line and in order")
fn doc2(r: &mut Rng, indent: &str) -> (String, Option<String>) {
    match r.below(8) {
        0 => (format!("{indent}/// one line\n"), Some(" one line".into())),
        1 => (format!("{indent}/// first\n{indent}///\n{indent}/// third\n"), Some(" first\n\n third".into())),
        2 => (format!("{indent}///\n{indent}/// after an empty line\n"), Some("\n after an empty line".into())),
        3 => (format!("{indent}/// before an empty line\n{indent}///\n"), Some(" before an empty line\n".into())),
        _ => (String::new(), None),
    }
}
fn doc(r: &mut Rng, indent: &str) -> String { doc2(r, indent).0 }
/// item-level expectation (C17 / C15): visibility, marker flags, singleton address, doc string
#[derive(Clone, Debug)]
pub struct ItemExp { pub path: String, pub public: bool, pub copyable: bool, pub cloneable: bool, pub defaultable: bool, pub packed: bool, pub singleton: Option<u128>, pub doc: Option<String>, #[allow(dead_code)] pub is_enum: bool }
fn vis(r: &mut Rng) -> &'static str {
    if r.chance(2, 3) { "pub " } else { "" }
}

/// (type text, size, align) of a field type; `known` are the types that may be referred to from module `m`
fn field_type(r: &mut Rng, ptr: u128, known: &[Known], m: usize, uses: &mut Vec<String>, mods: &[&str], depth: usize) -> (String, u128, u128) {
    let prims: [(&str, u128, u128); 9] = [("u8", 1, 1), ("u16", 2, 2), ("u32", 4, 4), ("u64", 8, 8), ("i32", 4, 4), ("f32", 4, 4), ("f64", 8, 8), ("bool", 1, 1), ("u128", 16, 16)];
    let usable: Vec<&Known> = known.iter().filter(|k| k.size > 0).collect();
    match r.below(10) {
        0 | 1 | 2 => {
            let p = r.pick(&prims);
            (p.0.to_string(), p.1, p.2)
        }
        3 | 4 => {
            // pointer to anything (a pointer does not need the pointee resolved first, but it must exist)
            let target = if !known.is_empty() && r.chance(2, 3) {
                let k = r.pick(known).clone();
                refer(&k, m, uses, mods, r)
            } else {
                r.pick(&["u8", "void", "u32"]).to_string()
            };
            (format!("*{} {}", if r.chance(1, 2) { "const" } else { "mut" }, target), ptr, ptr)
        }
        5 if depth < 2 => {
            let (t, s, a) = field_type(r, ptr, known, m, uses, mods, depth + 1);
            let n = 1 + r.below(4) as u128;
            (format!("[{t}; {n}]"), s * n, a)
        }
        6 | 7 if !usable.is_empty() => {
            let k = (*r.pick(&usable)).clone();
            (refer(&k, m, uses, mods, r), k.size, k.align)
        }
        _ => {
            let n = 1 + r.below(12) as u128;
            (format!("unknown<{n}>"), n, 1)
        }
    }
}
/// how module `m` names type `k`: directly (same module), or through a by-name or by-module import
fn refer(k: &Known, m: usize, uses: &mut Vec<String>, mods: &[&str], r: &mut Rng) -> String {
    if k.name == "void" {
        // the built-in wins over the same module and over module imports; only `use path::void;` selects the user type
        let by_name = format!("use {}::void;", mods[k.module]);
        if !uses.contains(&by_name) { uses.push(by_name); }
        return k.name.clone();
    }
    if k.module != m {
        let by_name = format!("use {}::{};", mods[k.module], k.name);
        let by_mod = format!("use {};", mods[k.module]);
        if !uses.contains(&by_name) && !uses.contains(&by_mod) {
            uses.push(if r.chance(1, 2) { by_name } else { by_mod });
        }
    }
    k.name.clone()
}

/// what the generator knows about its program: every item with the size and alignment it was laid out for
pub struct Expect {
    pub items: Vec<(String, u128, u128)>,
    /// (type path, field name, byte offset)
    pub fields: Vec<(String, String, u128)>,
    /// (type path, associated functions in order, named vftable functions in order)
    pub fns: Vec<(String, Vec<FnExp>, Vec<FnExp>)>,
    /// (enum path, (variant, value) in order, default index)
    pub enums: Vec<(String, Vec<(String, i128)>, Option<usize>)>,
    pub item_attrs: Vec<ItemExp>,
    /// (type path, field name, public, doc)
    pub field_attrs: Vec<(String, String, bool, Option<String>)>,
    /// set when a re-exposed function would have to be renamed to `<field>_<name>` and that name is taken as well: two
    /// functions of one name are not callable (C07), so the program must be rejected (F26)
    pub reject_name_clash: Option<String>,
}
fn unraw(s: &str) -> &str { s.strip_prefix("r#").unwrap_or(s) }
pub fn program(seed: u64, index: u64, ptr: usize) -> Vec<(&'static str, String)> {
    program_with_expectation(seed, index, ptr).0
}
pub fn program_with_expectation(seed: u64, index: u64, ptr: usize) -> (Vec<(&'static str, String)>, Expect) {
    let mut r = Rng(0x9E3779B97F4A7C15 ^ seed.wrapping_mul(0xA24BAED4963EE407) ^ index.wrapping_mul(0x9FB21C651E98DF25) | 1);
    for _ in 0..4 { r.next(); }
    let p = ptr as u128;
    let mods: &[&str] = MODULE_SETS[r.below(MODULE_SETS.len())];
    let mut known: Vec<Known> = vec![];
    let mut bodies: Vec<String> = vec![String::new(); mods.len()];
    let mut uses: Vec<Vec<String>> = vec![vec![]; mods.len()];
    let mut counter = 0usize;
    let mut exp_fields: Vec<(String, String, u128)> = vec![];
    let mut exp_enums: Vec<(String, Vec<(String, i128)>, Option<usize>)> = vec![];
    let mut exp_items: Vec<ItemExp> = vec![];
    let mut exp_field_attrs: Vec<(String, String, bool, Option<String>)> = vec![];
    let mut name_clash: Option<String> = None;
    let n_items = 2 + r.below(6);
    for _ in 0..n_items {
        let m = r.below(mods.len());
        counter += 1;
        // names: mostly unique, sometimes the same name in another module, sometimes raw
        let name = match r.below(14) {
            1 => "r#type".to_string(),
            2 => "void".to_string(),   // a user type named like a built-in: only reachable through a by-name import
            _ => format!("T{counter}"),
        };
        // every name is unique in the whole program (so that what a name binds to does not depend on the import
        // lists - binding precedence has its own family); `r#type` and `void` therefore occur at most once
        if known.iter().any(|k| k.name == name) {
            continue;
        }
        // a by-name import of `Shared` from elsewhere would capture the name: keep such modules apart
        if name == "Shared" && uses[m].iter().any(|u| u.ends_with("::Shared;")) {
            continue;
        }
        let mut out = String::new();
        if r.chance(1, 4) {
            // ---- enum
            let (base, size) = *r.pick(INT_BASES);
            let nv = 1 + r.below(4);
            let defaultable = r.chance(1, 3);
            let default_at = r.below(nv);
            let mut attrs = vec![];
            let (e_copy, e_clone) = (r.chance(1, 3), r.chance(1, 4));
            if e_copy { attrs.push("copyable".to_string()); }
            if e_clone { attrs.push("cloneable".to_string()); }
            if defaultable { attrs.push("defaultable".to_string()); }
            let mut e_single: Option<u128> = None;
            if r.chance(1, 5) { let a: u128 = 0x1000 + (r.below(0x100000) as u128) * 8 + if r.chance(1, 3) { 0x1_4000_0000 } else { 0 }; e_single = Some(a); attrs.push(format!("singleton(0x{:X})", a)); }
            let (e_doc_text, e_doc) = doc2(&mut r, "");
            out.push_str(&e_doc_text);
            if !attrs.is_empty() { out.push_str(&format!("#[{}]\n", attrs.join(", "))); }
            let e_vis = vis(&mut r);
            out.push_str(&format!("{e_vis}enum {}: {} {{\n", name, base));
            exp_items.push(ItemExp { path: format!("{}::{}", mods[m], name), public: !e_vis.is_empty(), copyable: e_copy, cloneable: e_copy || e_clone, defaultable, packed: false, singleton: e_single, doc: e_doc, is_enum: true });
            let signed = base.starts_with('i');
            let mut vals: Vec<(String, i128)> = vec![];
            let mut next: i128 = 0;
            for v in 0..nv {
                if defaultable && v == default_at { out.push_str("    #[default]\n"); }
                let (val, n) = match r.below(4) {
                    0 => (String::new(), next),
                    1 => { let x = r.below(100) as i128; (format!(" = {x}"), x) }
                    2 if signed => { let x = -(1 + r.below(50) as i128); (format!(" = {x}"), x) }
                    _ => { let x = r.below(120) as i128; (format!(" = 0x{x:X}"), x) }
                };
                vals.push((format!("V{v}"), n));
                next = n + 1;
                out.push_str(&format!("    V{v}{val},\n"));
            }
            out.push_str("}\n");
            exp_enums.push((format!("{}::{}", mods[m], name), vals, if defaultable { Some(default_at) } else { None }));
            known.push(Known { module: m, name: name.clone(), size, align: size, is_struct: false, has_vftable: false, vft_decl: None, assoc: vec![], vfs: vec![] });
        } else {
            // ---- struct
            let packed = r.chance(1, 6);
            let mut fields = String::new();
            let mut off: u128 = 0;
            let mut max_align: u128 = 1;
            let own_vftable = r.chance(1, 3);
            let mut first_base_has_vftable = false;
            let mut first_base_vft: Option<String> = None;
            let mut my_vft: Option<String> = None;
            let mut has_vft = false;
            let mut vfuncs: Vec<String> = vec![];
            let mut base_vfuncs: Option<String> = None;
            let nf = r.below(5);
            let mut specs: Vec<(String, u128, u128, bool)> = vec![]; // (decl text without padding, size, align, is_base)
            let mut spec_names: Vec<String> = vec![];
            let mut bases_used: Vec<(String, Known)> = vec![];
            let mut my_vfs: Vec<FnExp> = vec![];
            let mut nbases = 0;
            for f in 0..nf {
                let bases: Vec<Known> = known.iter().filter(|k| k.is_struct && k.size > 0).cloned().collect();
                if !bases.is_empty() && r.chance(1, 3) && nbases < 2 {
                    let k = r.pick(&bases).clone();
                    // a second base with a vftable is fine; the first base decides sharing
                    if nbases == 0 { first_base_has_vftable = k.has_vftable; first_base_vft = k.vft_decl.clone(); }
                    // the derived type's own block would have to repeat the base slots: keep it simple, no own block then
                    let t = refer(&k, m, &mut uses[m], mods, &mut r);
                    specs.push((format!("    #[base]\n    {}b{f}: {t},\n", vis(&mut r)), k.size, k.align, true));
                    spec_names.push(format!("b{f}"));
                    bases_used.push((format!("b{f}"), k.clone()));
                    nbases += 1;
                    if nbases == 1 && k.has_vftable { base_vfuncs = Some(String::new()); }
                } else {
                    let (t, s, a) = field_type(&mut r, p, &known, m, &mut uses[m], mods, 0);
                    if s == 0 { continue; }
                    let fname = if r.chance(1, 10) { "r#match".to_string() } else { format!("f{f}") };
                    if specs.iter().any(|x| x.0.contains(&format!(" {fname}:"))) { continue; }
                    let (d, d_exp) = doc2(&mut r, "    ");
                    let f_vis = vis(&mut r);
                    specs.push((format!("{d}    {f_vis}{fname}: {t},\n"), s, a, false));
                    spec_names.push(fname.clone());
                    exp_field_attrs.push((format!("{}::{}", mods[m], name), fname.clone(), !f_vis.is_empty(), d_exp));
                }
            }
            let _ = base_vfuncs;
            // the first #[base] field must come first when it has a vftable?  No: any position is legal.
            if own_vftable && !first_base_has_vftable {
                has_vft = true;
                let nvf = 1 + r.below(3);
                let mut block = String::from("    vftable {\n");
                let mut slot = 0usize;
                for v in 0..nvf {
                    let mut attrs = vec![];
                    if r.chance(1, 4) { slot += r.below(3); attrs.push(format!("index({slot})")); }
                    let mut vcc = "thiscall".to_string();
                    if r.chance(1, 3) { vcc = r.pick(CONVENTIONS).to_string(); attrs.push(format!("calling_convention(\"{vcc}\")")); }
                    block.push_str(&doc(&mut r, "        "));
                    if !attrs.is_empty() { block.push_str(&format!("        #[{}]\n", attrs.join(", "))); }
                    let recv = if r.chance(1, 2) { "&self" } else { "&mut self" };
                    let args = if r.chance(1, 2) { ", a: u32".to_string() } else if r.chance(1, 2) { ", f: u64, this: *const u8".to_string() } else { String::new() };
                    let ret = if r.chance(1, 2) { " -> u32" } else { "" };
                    let vv = vis(&mut r);
                    block.push_str(&format!("        {vv}fn vf{v}({recv}{args}){ret};\n"));
                    my_vfs.push(FnExp { name: format!("vf{v}"), public: !vv.is_empty(), cc: vcc, has_recv: true, body: BodyExp::Vftable(format!("vf{v}")) });
                    vfuncs.push(format!("vf{v}"));
                    slot += 1;
                }
                my_vft = Some(block["    vftable {\n".len()..].to_string());
                block.push_str("    },\n");
                fields.push_str(&block);
                off = p;
                max_align = max_align.max(p);
            } else if first_base_has_vftable {
                has_vft = true;
                my_vft = first_base_vft.clone();
                my_vfs = bases_used[0].1.vfs.clone();
                // now and then the derived type spells the inherited table out (every base slot repeated, in place)
                // and appends slots of its own
                if let (Some(base_lines), true) = (&first_base_vft, r.chance(1, 2)) {
                    let mut block = format!("    vftable {{\n{base_lines}");
                    for v in 0..r.below(3) {
                        let vv = vis(&mut r);
                        block.push_str(&format!("        {vv}fn dv{counter}_{v}(&self, a: u16);\n"));
                        my_vfs.push(FnExp { name: format!("dv{counter}_{v}"), public: !vv.is_empty(), cc: "thiscall".into(), has_recv: true, body: BodyExp::Vftable(format!("dv{counter}_{v}")) });
                    }
                    my_vft = Some(block["    vftable {\n".len()..].to_string());
                    block.push_str("    },\n");
                    fields.push_str(&block);
                }
            }
            for (si, (decl, s, a, _is_base)) in specs.iter().enumerate() {
                let a_eff = if packed { 1 } else { *a };
                if a_eff > 0 && off % a_eff != 0 {
                    let pad = a_eff - off % a_eff;
                    // the gap is either spelled as padding or as an explicit address on the field (equivalent, C20)
                    if r.chance(1, 2) {
                        fields.push_str(&format!("    _: unknown<{pad}>,\n"));
                    } else {
                        fields.push_str(&format!("    #[address({})]\n", off + pad));
                    }
                    off += pad;
                } else if r.chance(1, 6) {
                    fields.push_str(&format!("    #[address(0x{:X})]\n", off));
                }
                fields.push_str(decl);
                exp_fields.push((format!("{}::{}", mods[m], name), spec_names[si].clone(), off));
                off += s;
                max_align = max_align.max(*a);
            }
            let mut attrs = vec![];
            let align = if packed {
                attrs.push("packed".to_string());
                1
            } else {
                let a = if r.chance(1, 5) { max_align * 2 } else { max_align };
                attrs.push(format!("align({a})"));
                a
            };
            if off % align != 0 {
                let pad = align - off % align;
                fields.push_str(&format!("    _: unknown<{pad}>,\n"));
                off += pad;
            }
            if r.chance(1, 4) {
                let extra = align * r.below(3) as u128;
                attrs.push(format!("size({})", off + extra));
                off += extra;
            }
            let (t_copy, t_clone) = (r.chance(1, 4), r.chance(1, 5));
            if t_copy { attrs.push("copyable".to_string()); }
            if t_clone { attrs.push("cloneable".to_string()); }
            let mut t_single: Option<u128> = None;
            if r.chance(1, 6) && off > 0 { let a: u128 = 0x2000 + (r.below(0x100000) as u128) * 8 + if r.chance(1, 3) { 0x7FF0_0000_0000 } else { 0 }; t_single = Some(a); attrs.push(format!("singleton(0x{:X})", a)); }
            let (t_doc_text, t_doc) = doc2(&mut r, "");
            out.push_str(&t_doc_text);
            // now and then an attribute line comes BEFORE the doc lines (docs are collected wherever they stand)
            if t_doc.is_some() && r.chance(1, 4) {
                out.truncate(out.len() - t_doc_text.len());
                out.push_str(&format!("#[{}]\n", attrs.join(", ")));
                out.push_str(&t_doc_text);
            } else {
                out.push_str(&format!("#[{}]\n", attrs.join(", ")));
            }
            let t_vis = vis(&mut r);
            out.push_str(&format!("{t_vis}type {} {{\n{}}}\n", name, fields));
            exp_items.push(ItemExp { path: format!("{}::{}", mods[m], name), public: !t_vis.is_empty(), copyable: t_copy, cloneable: t_copy || t_clone, defaultable: false, packed, singleton: t_single, doc: t_doc, is_enum: false });
            // ---- what the bases re-expose (C07): public associated functions of every base, public virtual functions of
            // every base but the first; a taken name becomes <field>_<name>; a function without a receiver keeps its body
            let mut my_assoc: Vec<FnExp> = vec![];
            let mut used: Vec<String> = my_vfs.iter().map(|f| f.name.clone()).collect();
            for (bi, (field, bk)) in bases_used.iter().enumerate() {
                let mut srcs: Vec<FnExp> = bk.assoc.iter().filter(|f| f.public).cloned().collect();
                if bi > 0 { srcs.extend(bk.vfs.iter().filter(|f| f.public).cloned()); }
                for f in srcs {
                    let nm = if used.contains(&f.name) { format!("{field}_{}", unraw(&f.name)) } else { f.name.clone() };
                    if used.contains(&nm) && name_clash.is_none() { name_clash = Some(format!("`{}::{}`: `{}` of base `{field}` - both `{}` and `{nm}` are taken", mods[m], name, f.name, f.name)); }
                    let body = if f.has_recv { BodyExp::Field(field.clone(), f.name.clone()) } else { f.body.clone() };
                    used.push(nm.clone());
                    my_assoc.push(FnExp { name: nm, public: true, cc: f.cc.clone(), has_recv: f.has_recv, body });
                }
            }
            // ---- impl block
            if r.chance(1, 2) {
                let nfn = 1 + r.below(3);
                out.push_str(&format!("impl {name} {{\n"));
                for k in 0..nfn {
                    let faddr: u128 = 0x40_0000 + (r.below(0x1000) as u128) * 16 + if r.chance(1, 5) { 0x1_0000_0000 } else { 0 };
                    let mut attrs = vec![format!("address(0x{:X})", faddr)];
                    let mut fcc: Option<String> = None;
                    if r.chance(1, 3) { let c = r.pick(CONVENTIONS).to_string(); attrs.push(format!("calling_convention(\"{c}\")")); fcc = Some(c); }
                    out.push_str(&doc(&mut r, "    "));
                    out.push_str(&format!("    #[{}]\n", attrs.join(", ")));
                    let recv = match r.below(3) { 0 => "", 1 => "&self", _ => "&mut self" };
                    let mut args: Vec<String> = vec![];
                    if !recv.is_empty() { args.push(recv.to_string()); }
                    for a in 0..r.below(3) {
                        let (t, _, _) = field_type(&mut r, p, &known, m, &mut uses[m], mods, 1);
                        if t.starts_with("unknown") { continue; }
                        args.push(format!("{}: {t}", ["a", "f", "this", "value"][(a + k) % 4]));
                    }
                    let ret = if r.chance(1, 2) { " -> *mut u8" } else if r.chance(1, 2) { " -> u64" } else { "" };
                    // mostly unique names; now and then a name a base may already have (re-exposed functions get renamed
                    // or the build is rejected - both are legitimate outcomes)
                    // unique names: a program of this generator is accepted by construction (a rejection is a finding)
                    let fname = format!("{}{counter}_{k}", ["m", "get_x", "r#fn", "call"][k % 4]);
                    let fv = vis(&mut r);
                    out.push_str(&format!("    {fv}fn {fname}({}){ret};\n", args.join(", ")));
                    let cc = fcc.unwrap_or_else(|| if recv.is_empty() { "system".to_string() } else { "thiscall".to_string() });
                    my_assoc.push(FnExp { name: fname, public: !fv.is_empty(), cc, has_recv: !recv.is_empty(), body: BodyExp::Address(faddr) });
                }
                out.push_str("}\n");
            }
            known.push(Known { module: m, name: name.clone(), size: off, align, is_struct: true, has_vftable: has_vft, vft_decl: my_vft, assoc: my_assoc, vfs: my_vfs });
        }
        bodies[m].push_str(&out);
        // extern value now and then
        if r.chance(1, 6) {
            bodies[m].push_str(&format!("#[address(0x{:X})]\n{}extern ev{counter}: *mut u8;\n", 0x9000 + counter * 8 + if r.chance(1, 3) { 0x2_0000_0000 } else { 0 }, vis(&mut r)));
        }
    }
    let mut res = vec![];
    for (i, path) in mods.iter().enumerate() {
        let mut text = String::new();
        if r.chance(1, 4) { text.push_str("//! module docs\n//!\n"); }
        for u in &uses[i] { text.push_str(u); text.push('\n'); }
        // now and then an import is repeated (by-name imports: the last one wins, so the repeated first line changes nothing
        // only if no competing import of the same name follows it - repeat the LAST line, which never changes the binding)
        if let (Some(last), true) = (uses[i].last(), r.chance(1, 6)) { if let Some(first) = uses[i].first() { if first != last || uses[i].len() == 1 { text.push_str(last); text.push('\n'); } } }
        if r.chance(1, 5) { text.push_str(&format!("backend rust prologue r#\"\n    const PRO_{i}: u32 = {i}; // c\n\"#;\nbackend other epilogue r#\"\n    const FOREIGN_{i}: u32 = 0;\n\"#;\n")); }
        if r.chance(1, 6) { text.push_str(&format!("backend rust {{\n    prologue r#\"const PRO2_{i}: u32 = 2; // second block\"#;\n    epilogue r#\"const EPI_{i}: u32 = 3;\n// end\"#;\n}}\nbackend rust epilogue r#\"\n    const EPI2_{i}: u32 = 4;\n\"#;\n")); }
        text.push_str(&bodies[i]);
        res.push((*path, text));
    }
    let items = known.iter().map(|k| (format!("{}::{}", mods[k.module], k.name), k.size, k.align)).collect();
    let fns = known.iter().filter(|k| k.is_struct).map(|k| (format!("{}::{}", mods[k.module], k.name), k.assoc.clone(), k.vfs.clone())).collect();
    (res, Expect { items, fields: exp_fields, fns, enums: exp_enums, item_attrs: exp_items, field_attrs: exp_field_attrs, reject_name_clash: name_clash })
}
