//! replay: run .pyxis inputs through the *real* pyxis crate (linked by path from the tree under check) and
//! compare with executable restatements of the properties ("witness search").  This is a bounded
//! differential check: it is never part of a proof, it (a) turns a failed Verus obligation into a concrete
//! failing input where one exists in the family and (b) stands in, labelled bounded, when the woven crate
//! cannot be decided (anchor lost / outside Verus' subset).
//!
//! usage: replay witness <Cxx> [seed]     prints one JSON object per line: {"prop","family","input","ptr","expected","actual"}
//!        replay run <file.pyxis> <ptr>   prints the outcome of one input
//!        replay count <Cxx>              number of cases in the family
mod emit;
mod emit_corpus;
mod gen;
mod scope;
use pyxis::grammar::ItemPath;
use pyxis::semantic::types::*;
use pyxis::semantic::{ResolvedSemanticState, SemanticState};
use std::panic::{catch_unwind, AssertUnwindSafe};

pub enum Outcome {
    Ok(ResolvedSemanticState),
    Err(String),
    Panic(String),
}
impl Outcome {
    fn tag(&self) -> String {
        match self {
            Outcome::Ok(_) => "OK".into(),
            Outcome::Err(e) => format!("ERR({})", e.lines().next().unwrap_or("")),
            Outcome::Panic(e) => format!("PANIC({})", e),
        }
    }
}

thread_local! {
    /// distinct inputs (hash of module texts + pointer size) this run has built, and how many of them parsed
    static DISTINCT: std::cell::RefCell<(std::collections::HashSet<u64>, usize, Vec<String>)> = std::cell::RefCell::new((std::collections::HashSet::new(), 0, vec![]));
}
pub fn build_modules(mods: &[(&str, String)], ptr: usize) -> Outcome {
    {
        use std::hash::{Hash, Hasher};
        let mut h = std::collections::hash_map::DefaultHasher::new();
        ptr.hash(&mut h);
        for (k, s) in mods { k.hash(&mut h); s.hash(&mut h); }
        // "parses" is approximated by the module texts being balanced and non-empty (the real parse happens
        // below; re-parsing every case here doubled the run time)
        let parsed = mods.iter().all(|(_, s)| !s.trim().is_empty() && s.matches('{').count() == s.matches('}').count());
        DISTINCT.with(|d| { let mut d = d.borrow_mut(); if d.0.insert(h.finish()) { if parsed { d.1 += 1; } if d.2.len() < 3 && parsed && d.0.len() % 977 == 1 { d.2.push(format!("ptr={ptr}: {}", mods[0].1.replace('\n', " ").chars().take(300).collect::<String>())); } } });
    }
    let r = catch_unwind(AssertUnwindSafe(|| -> anyhow::Result<ResolvedSemanticState> {
        let mut st = SemanticState::new(ptr);
        for (path, src) in mods {
            let m = pyxis::parser::parse_str(src).map_err(|e| anyhow::anyhow!("parse error: {e}"))?;
            st.add_module(&m, &ItemPath::from(*path))?;
        }
        st.build()
    }));
    match r {
        Ok(Ok(s)) => {
            sample_emit(mods, ptr, &s);
            Outcome::Ok(s)
        }
        Ok(Err(e)) => Outcome::Err(format!("{e:#}")),
        Err(p) => Outcome::Panic(
            p.downcast_ref::<String>().cloned().or_else(|| p.downcast_ref::<&str>().map(|s| s.to_string())).unwrap_or_else(|| "?".into()),
        ),
    }
}
// ---- sharding: VERIF_SHARD=i/n splits the work of one witness search over n processes (the runner merges the results).
// Whole families are dealt out round robin; the two big families (layout, scope) are split case by case.
pub fn shard() -> (usize, usize) {
    std::env::var("VERIF_SHARD").ok().and_then(|v| { let (a, b) = v.split_once('/')?; Some((a.parse().ok()?, b.parse().ok()?)) }).filter(|(i, n)| *n > 0 && i < n).unwrap_or((0, 1))
}
/// true when case `idx` of a split family belongs to another shard
pub fn shard_skip(idx: usize) -> bool { let (i, n) = shard(); n > 1 && idx % n != i }
/// true when whole family number `fam` belongs to this shard
fn shard_family(fam: usize) -> bool { let (i, n) = shard(); n <= 1 || fam % n == i }

// ---- bounded backend check on a sample of the inputs every family accepts (emit.rs)
thread_local! {
    /// (stride, counter, violations found): stride 0 = off
    static EMIT_SAMPLE: std::cell::RefCell<(usize, usize, Vec<(String, usize, emit::Viol)>)> = std::cell::RefCell::new((0, 0, vec![]));
}
pub fn scratch_dir() -> std::path::PathBuf {
    let base = std::env::var_os("VERIF_EMIT_DIR").map(std::path::PathBuf::from).unwrap_or_else(std::env::temp_dir);
    base.join(format!("pyxis-emit-{}", std::process::id()))
}
fn emit_checked(ptr: usize, st: &ResolvedSemanticState, mods: &[(&str, String)], dir: &std::path::Path) -> emit::Emitted {
    emit::POINTER_SIZE.with(|p| p.set(Some(ptr)));
    emit::emit_and_check(st, mods, dir)
}
fn join_sources(mods: &[(&str, String)]) -> String {
    if mods.len() == 1 { return mods[0].1.clone(); }
    mods.iter().map(|(k, s)| format!("// ---- module {k}\n{s}")).collect::<Vec<_>>().join("\n")
}
fn sample_emit(mods: &[(&str, String)], ptr: usize, st: &ResolvedSemanticState) {
    let due = EMIT_SAMPLE.with(|c| {
        let mut c = c.borrow_mut();
        if c.0 == 0 { return false; }
        c.1 += 1;
        c.1 % c.0 == 0 && c.2.len() < 200
    });
    if !due { return; }
    let e = emit_checked(ptr, st, mods, &scratch_dir());
    EMIT_SAMPLE.with(|c| {
        let mut c = c.borrow_mut();
        for x in e.viols { c.2.push((join_sources(mods), ptr, x)); }
    });
}

/// an input that is accepted although the reference rejects it is always run through the backend check (the emitted struct,
/// laid out by the rules of the Rust reference, must still have the resolved offsets, size and alignment - C01 / C02)
fn force_emit(mods: &[(&str, String)], ptr: usize, st: &ResolvedSemanticState) {
    if EMIT_SAMPLE.with(|c| { let c = c.borrow(); c.0 == 0 || c.2.len() >= 200 }) { return; }
    let e = emit_checked(ptr, st, mods, &scratch_dir());
    EMIT_SAMPLE.with(|c| {
        let mut c = c.borrow_mut();
        for x in e.viols { c.2.push((join_sources(mods), ptr, x)); }
    });
}

pub fn build_one(src: &str, ptr: usize) -> Outcome {
    build_modules(&[("m", src.to_string())], ptr)
}

fn type_size(t: &Type, st: &ResolvedSemanticState, ptr: usize) -> Option<u128> {
    match t {
        Type::Unresolved(_) => None,
        Type::Raw(p) => st.type_registry().get(p).and_then(|d| d.size()).map(|s| s as u128),
        Type::ConstPointer(_) | Type::MutPointer(_) | Type::Function(..) => Some(ptr as u128),
        Type::Array(t, n) => type_size(t, st, ptr).map(|s| s * (*n as u128)),
    }
}
fn get_type<'a>(st: &'a ResolvedSemanticState, path: &str) -> Option<(&'a ItemStateResolved, &'a TypeDefinition)> {
    let d = st.type_registry().get(&ItemPath::from(path))?;
    let r = d.resolved()?;
    Some((r, r.inner.as_type()?))
}
fn offsets(td: &TypeDefinition, st: &ResolvedSemanticState, ptr: usize) -> Vec<(String, u128, u128)> {
    let mut off = 0u128;
    let mut v = vec![];
    for r in &td.regions {
        let s = type_size(&r.type_ref, st, ptr).unwrap_or(0);
        v.push((r.name.clone().unwrap_or_default(), off, s));
        off += s;
    }
    v
}

pub struct Fail {
    pub family: &'static str,
    pub input: String,
    pub ptr: usize,
    pub expected: String,
    pub actual: String,
}
fn esc(s: &str) -> String {
    let mut o = String::new();
    for c in s.chars() {
        match c {
            '"' => o.push_str("\\\""),
            '\\' => o.push_str("\\\\"),
            '\n' => o.push_str("\\n"),
            '\t' => o.push_str("\\t"),
            c if (c as u32) < 0x20 => o.push(' '),
            c => o.push(c),
        }
    }
    o
}

// ------------------------------------------------------------------------------------------------ layout (C01 C02 C03)
#[derive(Clone, Copy)]
struct Ty { txt: &'static str, size: fn(usize) -> u128, align: fn(usize) -> u128, arrayish: bool }
const TYS: &[Ty] = &[
    Ty { txt: "u8", size: |_| 1, align: |_| 1, arrayish: false },
    Ty { txt: "u16", size: |_| 2, align: |_| 2, arrayish: false },
    Ty { txt: "u32", size: |_| 4, align: |_| 4, arrayish: false },
    Ty { txt: "u64", size: |_| 8, align: |_| 8, arrayish: false },
    Ty { txt: "u128", size: |_| 16, align: |_| 16, arrayish: false },
    Ty { txt: "*const u8", size: |p| p as u128, align: |p| p as u128, arrayish: false },
    Ty { txt: "[u16; 3]", size: |_| 6, align: |_| 2, arrayish: true },
    Ty { txt: "[u32; 0]", size: |_| 0, align: |_| 4, arrayish: true },
    Ty { txt: "unknown<5>", size: |_| 5, align: |_| 1, arrayish: true },
    Ty { txt: "void", size: |_| 0, align: |_| 1, arrayish: false },
    // an extern type whose alignment is not a power of two, and an empty struct (zero-sized, pointer-aligned, not an array):
    // both were the triggers of seeded changes (C03-5, C01-5) that the families could not show an input for
    Ty { txt: "Odd", size: |_| 6, align: |_| 3, arrayish: false },
    Ty { txt: "Marker", size: |_| 0, align: |p| p as u128, arrayish: false },
];
#[derive(Clone)]
struct LayoutCase { fields: Vec<(usize, Option<u128>)>, size: Option<u128>, align: Option<u128>, packed: bool, vftable: bool }
struct LayoutExp { offs: Vec<Option<u128>>, size: u128, align: u128 }
fn layout_src(c: &LayoutCase) -> String {
    let mut s = String::new();
    let mut attrs = vec![];
    if let Some(x) = c.size { attrs.push(format!("size({x})")); }
    if let Some(x) = c.align { attrs.push(format!("align({x})")); }
    if c.packed { attrs.push("packed".into()); }
    if c.fields.iter().any(|(t, _)| TYS[*t].txt == "Odd") { s.push_str("#[size(6), align(3)]\nextern type Odd;\n"); }
    if c.fields.iter().any(|(t, _)| TYS[*t].txt == "Marker") { s.push_str("pub type Marker {}\n"); }
    if !attrs.is_empty() { s.push_str(&format!("#[{}]\n", attrs.join(", "))); }
    s.push_str("pub type T {\n");
    if c.vftable { s.push_str("    vftable { pub fn vf(&self); },\n"); }
    for (i, (t, a)) in c.fields.iter().enumerate() {
        if let Some(a) = a { s.push_str(&format!("    #[address({a})]\n")); }
        s.push_str(&format!("    pub f{i}: {},\n", TYS[*t].txt));
    }
    s.push_str("}\n");
    s
}
/// reference layout, written from the statements of C01/C02/C03 (not from the code)
fn layout_ref(c: &LayoutCase, ptr: usize) -> Option<LayoutExp> {
    let p = ptr as u128;
    let mut regions: Vec<(u128, u128, u128)> = vec![]; // (offset, size, align)
    let mut end = 0u128;
    if c.vftable { regions.push((0, p, p)); end = p; }
    let mut offs = vec![];
    for (t, a) in &c.fields {
        let ty = TYS[*t];
        let off = match a { Some(a) => { if *a < end { return None; } *a } None => end };
        if off > end { regions.push((end, off - end, 1)); }
        let sz = (ty.size)(ptr);
        if sz == 0 && ty.arrayish { offs.push(None); end = off; continue; }
        regions.push((off, sz, (ty.align)(ptr)));
        offs.push(Some(off));
        end = off + sz;
    }
    if let Some(s) = c.size {
        if end > s { return None; }
        if end < s { regions.push((end, s - end, 1)); end = s; }
    }
    let align = if c.packed {
        if c.align.is_some() { return None; }
        1
    } else {
        if let Some(a) = c.align { if a == 0 || (a & (a - 1)) != 0 { return None; } }
        let eff = c.align.unwrap_or(if regions.len() == 1 { regions[0].2 } else { p });
        if eff == 0 { return None; }
        for (o, _, al) in &regions { if *al > eff { return None; } if o % al != 0 { return None; } }
        if end % eff != 0 { return None; }
        eff
    };
    Some(LayoutExp { offs, size: end, align })
}
fn layout_check(c: &LayoutCase, ptr: usize, props: &str, out: &mut Vec<Fail>) {
    let src = layout_src(c);
    let exp = layout_ref(c, ptr);
    let o = build_one(&src, ptr);
    let fail = |e: String, a: String, out: &mut Vec<Fail>| out.push(Fail { family: "layout", input: src.clone(), ptr, expected: e, actual: a });
    match (&o, &exp) {
        (Outcome::Panic(m), _) => { if props.contains("C12") || props.contains("C03") { fail("no panic".into(), format!("PANIC({m})"), out) } }
        // a field type whose alignment is not a power of two (only an extern type can claim one) has no Rust counterpart:
        // the code asks for an effective alignment that is a common multiple of the field alignments, the property says
        // "not smaller than any"; the two agree on powers of two (lemma_alignment_accepts_iff_realisable) and nothing is
        // expected about *rejections* outside that domain.  Acceptance is still held against the reference.
        (Outcome::Err(_), Some(_)) if c.fields.iter().any(|(t, _)| { let a = (TYS[*t].align)(ptr); a & (a - 1) != 0 }) => {}
        (Outcome::Err(m), Some(e)) => { if props.contains("C03") { fail(format!("accepted (size {}, align {})", e.size, e.align), format!("ERR({m})"), out) } }
        (Outcome::Ok(st), None) => {
            if props.contains("C03") { fail("rejected".into(), "accepted".into(), out) }
            if props.contains("C01") || props.contains("C02") { force_emit(&[("m", src.clone())], ptr, st); }
            // C01 speaks about every *accepted* description, whether or not it should have been accepted:
            // a field with an explicit address sits at that offset, a field without one starts where its
            // predecessor ends
            if props.contains("C01") {
                if let Some((_, td)) = get_type(st, "m::T") {
                    let offs = offsets(td, st, ptr);
                    let mut prev_end: Option<u128> = Some(if c.vftable { ptr as u128 } else { 0 });
                    for (i, (t, a)) in c.fields.iter().enumerate() {
                        let name = format!("f{i}");
                        let got = offs.iter().find(|(n, _, _)| *n == name).map(|x| (x.1, x.2));
                        let ty = TYS[*t];
                        if (ty.size)(ptr) == 0 && ty.arrayish { continue; }
                        let want = match a { Some(a) => Some(*a), None => prev_end };
                        match (got, want) {
                            (Some((g, sz)), Some(w)) => {
                                if g != w { fail(format!("field {name} at offset {w}"), format!("field {name} at {g}; regions {offs:?}"), out); }
                                prev_end = Some(g + sz);
                            }
                            (Some((g, sz)), None) => prev_end = Some(g + sz),
                            (None, _) => { fail(format!("field {name} present"), format!("regions {offs:?}"), out); prev_end = None; }
                        }
                    }
                }
            }
        }
        (Outcome::Err(_), None) => {}
        (Outcome::Ok(st), Some(e)) => {
            let Some((isr, td)) = get_type(st, "m::T") else { fail("type m::T resolved".into(), "missing".into(), out); return; };
            let offs = offsets(td, st, ptr);
            if props.contains("C01") {
                for (i, eo) in e.offs.iter().enumerate() {
                    let name = format!("f{i}");
                    let got = offs.iter().find(|(n, _, _)| *n == name).map(|x| x.1);
                    if let Some(eo) = eo {
                        if got != Some(*eo) { fail(format!("field {name} at offset {eo}"), format!("field {name} at {got:?}; regions {offs:?}"), out); }
                    }
                }
                if c.vftable && (offs.first().map(|x| (x.0.as_str(), x.1)) != Some(("vftable", 0))) {
                    fail("vftable pointer at offset 0".into(), format!("regions {offs:?}"), out);
                }
            }
            if props.contains("C02") {
                let total: u128 = offs.iter().map(|x| x.2).sum();
                if isr.size as u128 != e.size || total != e.size { fail(format!("size {}", e.size), format!("resolved size {} (regions sum {total})", isr.size), out); }
                if isr.alignment as u128 != e.align { fail(format!("alignment {}", e.align), format!("alignment {}", isr.alignment), out); }
            }
        }
    }
}
fn layout_family(seed: u64, quick: bool, props: &str, out: &mut Vec<Fail>) -> usize {
    let addrs: [Option<u128>; 8] = [None, Some(0), Some(2), Some(4), Some(6), Some(8), Some(16), Some(24)];
    let sizes = [None, Some(8), Some(16), Some(24), Some(32)];
    let aligns = [None, Some(1), Some(2), Some(3), Some(4), Some(8), Some(16)];
    let mut n = 0;
    // exhaustive core: up to 2 fields
    for ptr in [4usize, 8] {
        for nf in 0..=2usize {
            let combos = (TYS.len() * addrs.len()).pow(nf as u32);
            for k in 0..combos {
                if shard_skip(k) { continue; }
                let mut fields = vec![];
                let mut kk = k;
                for _ in 0..nf { let t = kk % TYS.len(); kk /= TYS.len(); let a = kk % addrs.len(); kk /= addrs.len(); fields.push((t, addrs[a])); }
                for (si, s) in sizes.iter().enumerate() {
                    for (ai, a) in aligns.iter().enumerate() {
                        // thin out the attribute product deterministically for two-field types
                        if nf == 2 && (k + si * 7 + ai * 3) % 5 != 0 { continue; }
                        // quick tier: one slice in twelve of the two-field product, chosen by the seed
                        if quick && nf == 2 && ((k / 5 + si + ai) as u64 + seed) % 12 != 0 { continue; }
                        for packed in [false, true] {
                            if packed && a.is_some() && (k % 7 != 0) { continue; }
                            for vft in [false, true] {
                                if vft && (k + si + ai) % 3 != 0 { continue; }
                                let c = LayoutCase { fields: fields.clone(), size: *s, align: *a, packed, vftable: vft };
                                layout_check(&c, ptr, props, out);
                                n += 1;
                                if out.len() > 40 { return n; }
                            }
                        }
                    }
                }
            }
        }
    }
    // always run (both tiers): shapes that were the triggers of seeded changes and that the thinned product may skip -
    // a zero-sized, pointer-aligned field (empty struct) or an oddly aligned extern type after a small field, with the
    // size made up by a declared size or a trailing field
    let ix = |txt: &str| TYS.iter().position(|t| t.txt == txt).unwrap();
    for ptr in [4usize, 8] {
        if shard().0 != 0 { break; }
        for first in ["u8", "u16", "u32"] {
            for second in ["Marker", "Odd", "void", "[u32; 0]"] {
                for (third, size) in [(None, Some(8u128)), (None, Some(16)), (Some("unknown<5>"), None), (Some("[u16; 3]"), None), (Some("u8"), Some(8)), (None, None)] {
                    for a2 in [None, Some(1u128), Some(2), Some(4)] {
                        let mut fields = vec![(ix(first), None), (ix(second), a2)];
                        if let Some(t) = third { fields.push((ix(t), None)); }
                        let c = LayoutCase { fields, size, align: None, packed: false, vftable: false };
                        layout_check(&c, ptr, props, out);
                        n += 1;
                        if out.len() > 40 { return n; }
                    }
                }
            }
        }
    }
    // pseudo-random 3-4 field types
    let mut x = seed.wrapping_mul(6364136223846793005).wrapping_add(1442695040888963407) | 1;
    let mut rnd = |m: usize| { x ^= x << 13; x ^= x >> 7; x ^= x << 17; (x % m as u64) as usize };
    for it in 0..(if quick { 800 } else { 6000 }) {
        let skip = shard_skip(it);
        let nf = 3 + rnd(2);
        let mut fields = vec![]; let mut end = 0u128;
        for _ in 0..nf {
            let t = rnd(TYS.len());
            let a = match rnd(4) { 0 => Some(end + [0, 1, 2, 4, 8][rnd(5)] as u128), 1 => Some([0u128, 4, 8, 12, 16, 32][rnd(6)]), _ => None };
            end = a.unwrap_or(end) + (TYS[t].size)(8);
            fields.push((t, a));
        }
        let c = LayoutCase { fields, size: if rnd(3) == 0 { Some(((end + 7) / 8 * 8) + [0u128, 8][rnd(2)]) } else { None }, align: aligns[rnd(aligns.len())], packed: rnd(8) == 0, vftable: rnd(4) == 0 };
        let p_ = [4usize, 8][rnd(2)];
        if skip { continue; }
        layout_check(&c, p_, props, out);
        n += 1;
        if out.len() > 40 { return n; }
    }
    n
}

// ------------------------------------------------------------------------------------------------ vftable slots (C04 C16 C02)
fn vft_family(props: &str, out: &mut Vec<Fail>) -> usize {
    let idx: [Option<i64>; 7] = [None, Some(0), Some(1), Some(2), Some(3), Some(5), Some(-1)];
    let sizes: [Option<i64>; 7] = [None, Some(0), Some(1), Some(2), Some(4), Some(6), Some(-1)];
    let mut n = 0;
    for ptr in [4usize, 8] {
        for nf in 0..=3usize {
            for k in 0..idx.len().pow(nf as u32) {
                let mut is = vec![]; let mut kk = k;
                for _ in 0..nf { is.push(idx[kk % idx.len()]); kk /= idx.len(); }
                for s in sizes { for recvless in [false, true] {
                    if recvless && (nf == 0 || k % 3 != 0) { continue; }
                    let mut src = String::from("pub type T {\n");
                    if let Some(s) = s { src.push_str(&format!("    #[size({s})]\n")); }
                    src.push_str("    vftable {\n");
                    for (i, ix) in is.iter().enumerate() {
                        if let Some(ix) = ix { src.push_str(&format!("        #[index({ix})]\n")); }
                        if recvless && i == 0 { src.push_str("        pub fn v0(a: u32) -> u32;\n"); } else { src.push_str(&format!("        pub fn v{i}(&self, a: u32) -> u32;\n")); }
                    }
                    src.push_str("    },\n}\n");
                    // reference slot table
                    let mut exp: Option<Vec<String>> = Some(vec![]);
                    for (i, ix) in is.iter().enumerate() {
                        let Some(t) = exp.as_mut() else { break };
                        match ix {
                            Some(ix) => { if *ix < 0 || (*ix as usize) < t.len() { exp = None; break; } while t.len() < *ix as usize { let k = t.len(); t.push(format!("_vfunc_{k}")); } t.push(format!("v{i}")); }
                            None => t.push(format!("v{i}")),
                        }
                    }
                    if let (Some(t), Some(s)) = (exp.as_mut(), s) {
                        if s < 0 || (s as usize) < t.len() { exp = None; } else { while t.len() < s as usize { let k = t.len(); t.push(format!("_vfunc_{k}")); } }
                    }
                    let o = build_one(&src, ptr);
                    n += 1;
                    let mut fail = |e: String, a: String| out.push(Fail { family: "vftable", input: src.clone(), ptr, expected: e, actual: a });
                    match (&o, &exp) {
                        (Outcome::Panic(m), _) => fail("no panic".into(), format!("PANIC({m})")),
                        (Outcome::Err(m), Some(e)) => { if props.contains("C04") { fail(format!("accepted with slots {e:?}"), format!("ERR({m})")) } }
                        (Outcome::Ok(_), None) => { if props.contains("C04") { fail("rejected (contradicting index/size)".into(), "accepted".into()) } }
                        (Outcome::Err(_), None) => {}
                        (Outcome::Ok(st), Some(e)) => {
                            let Some((_, td)) = get_type(st, "m::T") else { fail("m::T".into(), "missing".into()); continue };
                            let Some(v) = &td.vftable else { fail("vftable".into(), "none".into()); continue };
                            let names: Vec<String> = v.functions.iter().map(|f| f.name.clone()).collect();
                            if props.contains("C04") && &names != e { fail(format!("slots {e:?}"), format!("slots {names:?}")); }
                            if props.contains("C16") || props.contains("C04") {
                                for f in &v.functions {
                                    let want = if recvless && f.name == "v0" { CallingConvention::System } else { CallingConvention::Thiscall };
                                    if f.calling_convention != want { fail(format!("slot {} {:?}", f.name, want), format!("{:?}", f.calling_convention)); }
                                    if f.name.starts_with("_vfunc_") && (f.visibility != Visibility::Private || f.arguments != vec![Argument::MutSelf] || f.return_type.is_some()) {
                                        fail(format!("placeholder {} private fn(&mut self)", f.name), format!("{f}"));
                                    }
                                }
                            }
                            if let Some((visr, vtd)) = get_type(st, "m::TVftable") {
                                let rn: Vec<String> = vtd.regions.iter().map(|r| r.name.clone().unwrap_or_default()).collect();
                                if props.contains("C04") && &rn != e { fail(format!("vftable struct fields {e:?}"), format!("{rn:?}")); }
                                if props.contains("C02") && (visr.size != e.len() * ptr || visr.alignment != ptr) { fail(format!("TVftable size {} align {ptr}", e.len() * ptr), format!("size {} align {}", visr.size, visr.alignment)); }
                            } else if props.contains("C04") || props.contains("C14") { fail("generated m::TVftable registered".into(), "missing".into()); }
                            if props.contains("C06") || props.contains("C01") {
                                if td.regions.first().map(|r| r.name.as_deref()) != Some(Some("vftable")) { fail("vftable pointer is region 0".into(), format!("{:?}", td.regions.first().map(|r| &r.name))); }
                            }
                        }
                    }
                    if out.len() > 40 { return n; }
                } }
            }
        }
    }
    n
}

// ------------------------------------------------------------------------------------------------ enums (C08 C02 C15 C17)
fn enum_family(seed: u64, quick: bool, props: &str, out: &mut Vec<Fail>) -> usize {
    let bases = [("u8", 1usize), ("i8", 1), ("u16", 2), ("u32", 4), ("i32", 4), ("u64", 8)];
    let vals: [Option<i64>; 8] = [None, Some(-129), Some(-2), Some(0), Some(1), Some(127), Some(255), Some(256)];
    let mut n = 0;
    for (b, bsz) in bases {
        for nv in 1..=3usize {
            for k in 0..vals.len().pow(nv as u32) {
                let mut vs = vec![]; let mut kk = k;
                for _ in 0..nv { vs.push(vals[kk % vals.len()]); kk /= vals.len(); }
                if quick && nv == 3 && (k as u64 + seed) % 6 != 0 { continue; }
                for def in 0..=nv {            // position of #[default]; nv = none
                    for defaultable in [false, true] {
                        for copyable in [false, true] {
                            if copyable && (k + def) % 4 != 0 { continue; }
                            for sing in [None, Some(0x1234i64), Some(-1)] {
                                if sing.is_some() && (k + def) % 5 != 0 { continue; }
                                let mut attrs = vec![];
                                if defaultable { attrs.push("defaultable".to_string()); }
                                if copyable { attrs.push("copyable".to_string()); }
                                if let Some(s) = sing { attrs.push(format!("singleton({s})")); }
                                let mut src = String::new();
                                if !attrs.is_empty() { src.push_str(&format!("#[{}]\n", attrs.join(", "))); }
                                src.push_str(&format!("pub enum E: {b} {{\n"));
                                for (i, v) in vs.iter().enumerate() {
                                    if def == i { src.push_str("    #[default]\n"); }
                                    match v { Some(v) => src.push_str(&format!("    V{i} = {v},\n")), None => src.push_str(&format!("    V{i},\n")) }
                                }
                                src.push_str("}\n");
                                // reference
                                let mut ev = vec![]; let mut next = 0i64;
                                for v in &vs { let x = v.unwrap_or(next); ev.push(x); next = x + 1; }
                                // a value must be representable in the base type: the signed range for a signed base; for an unsigned base
                                // the unsigned range and, below zero, the two's-complement spelling (the suite pins `-2` in a u32 enum)
                                let signed = b.starts_with('i');
                                let (lo, hi): (i128, i128) = match (bsz, signed) { (1, true) => (-0x80, 0x7f), (1, false) => (-0x80, 0xff), (2, true) => (-0x8000, 0x7fff), (2, false) => (-0x8000, 0xffff),
                                    (4, true) => (-0x8000_0000, 0x7fff_ffff), (4, false) => (-0x8000_0000, 0xffff_ffff), _ => (i128::MIN, i128::MAX) };
                                let fits = ev.iter().all(|v| lo <= *v as i128 && *v as i128 <= hi);
                                let accept = (def < nv) == defaultable && sing != Some(-1) && fits;
                                let o = build_one(&src, 8);
                                n += 1;
                                let mut fail = |e: String, a: String| out.push(Fail { family: "enum", input: src.clone(), ptr: 8, expected: e, actual: a });
                                match &o {
                                    Outcome::Panic(m) => fail("no panic".into(), format!("PANIC({m})")),
                                    Outcome::Err(m) => { if accept && (props.contains("C08") || props.contains("C15")) { fail(format!("accepted with values {ev:?}"), format!("ERR({m})")) } }
                                    Outcome::Ok(st) => {
                                        if !accept { if (props.contains("C08") && sing != Some(-1)) || (props.contains("C15") && sing == Some(-1)) { fail("rejected".into(), "accepted".into()) } continue; }
                                        let d = st.type_registry().get(&ItemPath::from("m::E")).and_then(|d| d.resolved());
                                        let Some(isr) = d else { fail("m::E resolved".into(), "missing".into()); continue };
                                        let Some(ed) = isr.inner.as_enum() else { fail("enum".into(), "not an enum".into()); continue };
                                        let got: Vec<i64> = ed.fields.iter().map(|f| f.1 as i64).collect();
                                        let names: Vec<&str> = ed.fields.iter().map(|f| f.0.as_str()).collect();
                                        if props.contains("C08") || props.contains("C20") {
                                            if got != ev || names.iter().enumerate().any(|(i, nm)| *nm != format!("V{i}")) { fail(format!("values {ev:?}"), format!("{:?}", ed.fields)); }
                                            if ed.default_index != (if def < nv { Some(def) } else { None }) || ed.defaultable != defaultable { fail(format!("default index {:?}", if def < nv { Some(def) } else { None }), format!("{:?} defaultable={}", ed.default_index, ed.defaultable)); }
                                        }
                                        if props.contains("C02") && (isr.size != bsz || isr.alignment != bsz) { fail(format!("size/align {bsz}"), format!("{}/{}", isr.size, isr.alignment)); }
                                        if props.contains("C15") && ed.singleton != sing.map(|s| s as usize) { fail(format!("singleton {sing:?}"), format!("{:?}", ed.singleton)); }
                                        if props.contains("C17") && (ed.copyable != copyable || ed.cloneable != copyable) { fail(format!("copyable={copyable} cloneable={copyable}"), format!("copyable={} cloneable={}", ed.copyable, ed.cloneable)); }
                                    }
                                }
                                if out.len() > 40 { return n; }
                            }
                        }
                    }
                }
            }
        }
    }
    n
}

// ------------------------------------------------------------------------------------------------ impl functions (C05 C16 C17 C10)
fn fn_family(props: &str, out: &mut Vec<Fail>) -> usize {
    let addrs: [Option<i64>; 4] = [Some(0x10), Some(0x1_0040_1000), None, Some(-1)];
    let recvs = ["", "&self", "&mut self"];
    let argtys = ["u32", "*const u8", "Missing"];
    let rets = [None, Some("u32"), Some("*mut T"), Some("Missing")];
    let ccs: [Option<&str>; 4] = [None, Some("cdecl"), Some("vectorcall"), Some("bogus")];
    let mut n = 0;
    for a in addrs { for r in recvs { for na in 0..=2usize { for ak in 0..argtys.len().pow(na as u32) { for ret in rets { for cc in ccs { for vis in ["pub ", ""] { for recv_mode in 0..4usize {
        if vis.is_empty() && (ak + na) % 3 != 0 { continue; }
        // receiver placement: 0 = first (or none); 1 = only after the other arguments; 2 = first and once more after the
        // other arguments (the other receiver kind); 3 = two receivers in front.  1..3 must be rejected: the emitted
        // signature would not be the declared one (only tried public, without return type)
        let recv_last = recv_mode != 0;
        if recv_last && (r.is_empty() || vis.is_empty() || ret.is_some()) { continue; }
        if (recv_mode == 1 || recv_mode == 2) && na == 0 { continue; }
        let other = if r == "&self" { "&mut self" } else { "&self" };
        let mut args: Vec<String> = vec![]; if !r.is_empty() && recv_mode != 1 { args.push(r.to_string()); }
        if recv_mode == 3 { args.push(other.to_string()); }
        let mut atys = vec![]; let mut kk = ak;
        for i in 0..na { let t = argtys[kk % argtys.len()]; kk /= argtys.len(); atys.push(t); args.push(format!("a{i}: {t}")); }
        if recv_mode == 1 { args.push(r.to_string()); }
        if recv_mode == 2 { args.push(other.to_string()); }
        let mut attrs = vec![]; if let Some(a) = a { attrs.push(format!("address({a})")); } if let Some(c) = cc { attrs.push(format!("calling_convention(\"{c}\")")); }
        let src = format!("pub type T {{ pub x: u32, }}\nimpl T {{\n    {}{vis}fn f({}){};\n}}\n",
            if attrs.is_empty() { String::new() } else { format!("#[{}]\n    ", attrs.join(", ")) }, args.join(", "), ret.map(|t| format!(" -> {t}")).unwrap_or_default());
        let accept = matches!(a, Some(x) if x >= 0) && !atys.contains(&"Missing") && ret != Some("Missing") && cc != Some("bogus") && !recv_last;
        let o = build_one(&src, 8);
        n += 1;
        let mut fail = |e: String, a: String| out.push(Fail { family: "function", input: src.clone(), ptr: 8, expected: e, actual: a });
        match &o {
            Outcome::Panic(m) => fail("no panic".into(), format!("PANIC({m})")),
            Outcome::Err(m) => { if accept && props.contains("C05") { fail("accepted".into(), format!("ERR({m})")) } }
            Outcome::Ok(st) => {
                if !accept { if props.contains("C05") || (props.contains("C16") && cc == Some("bogus")) || props.contains("C10") { fail("rejected".into(), "accepted".into()) } continue; }
                let Some((_, td)) = get_type(st, "m::T") else { fail("m::T".into(), "missing".into()); continue };
                let Some(f) = td.associated_functions.iter().find(|f| f.name == "f") else { fail("function f attached to T".into(), format!("{:?}", td.associated_functions.iter().map(|f| &f.name).collect::<Vec<_>>())); continue };
                if props.contains("C05") {
                    if f.body != (FunctionBody::Address { address: a.unwrap() as usize }) { fail(format!("body Address {:#x}", a.unwrap()), format!("{:?}", f.body)); }
                    let mut ea = vec![]; match r { "&self" => ea.push(Argument::ConstSelf), "&mut self" => ea.push(Argument::MutSelf), _ => {} }
                    for (i, t) in atys.iter().enumerate() { ea.push(Argument::Field(format!("a{i}"), if *t == "u32" { Type::raw("u32") } else { Type::raw("u8").const_pointer() })); }
                    if f.arguments != ea { fail(format!("arguments {ea:?}"), format!("{:?}", f.arguments)); }
                    let er = match ret { None => None, Some("u32") => Some(Type::raw("u32")), Some(_) => Some(Type::raw("m::T").mut_pointer()) };
                    if f.return_type != er { fail(format!("return type {er:?}"), format!("{:?}", f.return_type)); }
                }
                if props.contains("C16") {
                    let ecc = match cc { Some("cdecl") => CallingConvention::Cdecl, Some("vectorcall") => CallingConvention::Vectorcall, _ => if r.is_empty() { CallingConvention::System } else { CallingConvention::Thiscall } };
                    if f.calling_convention != ecc { fail(format!("convention {ecc:?}"), format!("{:?}", f.calling_convention)); }
                }
                if props.contains("C17") && (f.visibility == Visibility::Public) != !vis.is_empty() { fail(format!("public={}", !vis.is_empty()), format!("{:?}", f.visibility)); }
            }
        }
        if out.len() > 40 { return n; }
    } } } } } } } }
    n
}

// ------------------------------------------------------------------------------------------------ inheritance (C06)
fn inherit_family(props: &str, out: &mut Vec<Fail>) -> usize {
    let base_vf = "        pub fn f(&self, a: u32) -> u32;\n        pub fn g(&mut self);\n";
    // (own block of the derived type, compatible?)
    let owns: Vec<(Option<String>, bool)> = vec![
        (None, true),
        (Some(base_vf.to_string()), true),
        (Some(format!("{base_vf}        pub fn h(&self);\n")), true),
        (Some("        pub fn f(&self, a: u32) -> u32;\n".into()), false),
        (Some("        pub fn f(&self, a: u32) -> u32;\n        pub fn g2(&mut self);\n".into()), false),
        (Some("        pub fn f(&self, a: u64) -> u32;\n        pub fn g(&mut self);\n".into()), false),
        (Some("        pub fn f(&self, a: u32) -> u64;\n        pub fn g(&mut self);\n".into()), false),
        (Some("        pub fn f(&mut self, a: u32) -> u32;\n        pub fn g(&mut self);\n".into()), false),
        (Some("        pub fn f(&self, a: u32, b: u32) -> u32;\n        pub fn g(&mut self);\n".into()), false),
        (Some("        pub fn f(&self) -> u32;\n        pub fn g(&mut self);\n".into()), false),
        (Some("        #[calling_convention(\"cdecl\")]\n        pub fn f(&self, a: u32) -> u32;\n        pub fn g(&mut self);\n".into()), false),
        (Some("        pub fn g(&mut self);\n        pub fn f(&self, a: u32) -> u32;\n".into()), false),
        // a slot re-declared without its receiver: a first parameter `this: *const Derived` with the receiver's convention gives the
        // same function-pointer type, but it is not the same receiver (seed C06-8)
        (Some("        #[calling_convention(\"thiscall\")]\n        pub fn f(this: *const Derived, a: u32) -> u32;\n        pub fn g(&mut self);\n".into()), false),
        (Some("        pub fn f(&self, a: u32) -> u32;\n        #[calling_convention(\"thiscall\")]\n        pub fn g(this: *mut Derived);\n".into()), false),
        // placeholders / internal names over a named base slot do not repeat it
        (Some("        #[index(1)]\n        pub fn g(&mut self);\n".into()), false),
        (Some("        pub fn _f(&self, a: u32) -> u32;\n        pub fn g(&mut self);\n".into()), false),
        (Some("        pub fn f(&self, a: u32) -> u32;\n        pub fn _g(&mut self);\n        pub fn h(&self);\n".into()), false),
    ];
    let mut n = 0;
    for ptr in [4usize, 8] {
        for base_has in [true, false] {
            for (own, compat) in &owns {
                for base_first in [true, false] {
                    let mut src = String::from("pub type Base {\n");
                    if base_has { src.push_str(&format!("    vftable {{\n{base_vf}    }},\n")); }
                    src.push_str("    pub bx: *const u8,\n}\npub type Derived {\n");
                    if let Some(o) = own { src.push_str(&format!("    vftable {{\n{o}    }},\n")); }
                    if base_first { src.push_str("    #[base]\n    pub base: Base,\n    pub tag: *const u8,\n}\n"); }
                    else { src.push_str("    pub tag: *const u8,\n    #[base]\n    pub base: Base,\n}\n"); }
                    let accept = !base_has || own.is_none() || *compat;
                    let o = build_one(&src, ptr);
                    n += 1;
                    let mut fail = |e: String, a: String| out.push(Fail { family: "inheritance", input: src.clone(), ptr, expected: e, actual: a });
                    match &o {
                        Outcome::Panic(m) => fail("no panic".into(), format!("PANIC({m})")),
                        Outcome::Err(m) => { if accept && props.contains("C06") { fail("accepted".into(), format!("ERR({m})")) } }
                        Outcome::Ok(st) => {
                            if !props.contains("C06") { continue; }
                            if !accept { fail("rejected (own vftable block does not repeat the base slots)".into(), "accepted".into()); continue; }
                            let Some((_, td)) = get_type(st, "m::Derived") else { fail("m::Derived".into(), "missing".into()); continue };
                            let rn: Vec<&str> = td.regions.iter().map(|r| r.name.as_deref().unwrap_or("")).collect();
                            match (base_has, own) {
                                (true, _) => {
                                    let Some(v) = &td.vftable else { fail("derived has the base's vftable".into(), "vftable: None".into()); continue };
                                    if v.base_field.as_deref() != Some("base") { fail("base_field = base".into(), format!("{:?}", v.base_field)); }
                                    if rn.contains(&"vftable") { fail("no vftable pointer of its own".into(), format!("regions {rn:?}")); }
                                    let en: Vec<&str> = if own.is_some() && own.as_ref().unwrap().contains("fn h") { vec!["f", "g", "h"] } else { vec!["f", "g"] };
                                    let gn: Vec<&str> = v.functions.iter().map(|f| f.name.as_str()).collect();
                                    if gn != en { fail(format!("slots {en:?}"), format!("{gn:?}")); }
                                }
                                (false, Some(_)) => {
                                    let Some(v) = &td.vftable else { fail("own vftable".into(), "None".into()); continue };
                                    if v.base_field.is_some() || rn.first() != Some(&"vftable") { fail("own vftable pointer at region 0, no base field".into(), format!("base_field {:?} regions {rn:?}", v.base_field)); }
                                }
                                (false, None) => { if td.vftable.is_some() || rn.contains(&"vftable") { fail("no vftable".into(), format!("{:?}", td.vftable.as_ref().map(|v| &v.base_field))); } }
                            }
                        }
                    }
                    if out.len() > 40 { return n; }
                }
            }
        }
    }
    // two bases: the FIRST #[base] field decides which vftable is extended and shared
    for ptr in [4usize, 8] {
        for (own, accept) in [(None, true), (Some("        pub fn a1(&self);\n"), true), (Some("        pub fn b1(&self);\n"), false)] {
            let mut src = String::from("pub type A { vftable { pub fn a1(&self); }, pub ax: *const u8 }\npub type B { vftable { pub fn b1(&self); }, pub bx: *const u8 }\npub type D {\n");
            if let Some(o) = own { src.push_str(&format!("    vftable {{\n{o}    }},\n")); }
            src.push_str("    #[base]\n    pub a: A,\n    #[base]\n    pub b: B,\n}\n");
            let o = build_one(&src, ptr);
            n += 1;
            let mut fail = |e: String, a: String| out.push(Fail { family: "inheritance", input: src.clone(), ptr, expected: e, actual: a });
            match &o {
                Outcome::Panic(m) => fail("no panic".into(), format!("PANIC({m})")),
                Outcome::Err(m) => { if accept && props.contains("C06") { fail("accepted".into(), format!("ERR({m})")) } }
                Outcome::Ok(st) => {
                    if !props.contains("C06") { continue; }
                    if !accept { fail("rejected (own block repeats the second base's slot, not the first's)".into(), "accepted".into()); continue; }
                    let Some((_, td)) = get_type(st, "m::D") else { fail("m::D".into(), "missing".into()); continue };
                    let bf = td.vftable.as_ref().and_then(|v| v.base_field.clone());
                    let names: Vec<String> = td.vftable.as_ref().map(|v| v.functions.iter().map(|f| f.name.clone()).collect()).unwrap_or_default();
                    if bf.as_deref() != Some("a") || names != vec!["a1".to_string()] { fail("vftable shared with the first base `a`, slots [a1]".into(), format!("base_field {bf:?}, slots {names:?}")); }
                }
            }
        }
    }
    n
}

// ------------------------------------------------------------------------------------------------ resolution (C10), scoping (C11), registration (C14), type attrs (C15 C17), equivalences (C20)
fn misc_family(props: &str, out: &mut Vec<Fail>) -> usize {
    let mut n = 0;
    let mut case = |mods: Vec<(&str, String)>, ptr: usize, want: &dyn Fn(&Outcome) -> Option<(String, String)>, out: &mut Vec<Fail>, fam: &'static str| {
        let o = build_modules(&mods, ptr);
        n += 1;
        let input = mods.iter().map(|(p, s)| format!("// module {p}\n{s}")).collect::<Vec<_>>().join("\n");
        if let Outcome::Panic(m) = &o { out.push(Fail { family: fam, input, ptr, expected: "no panic".into(), actual: format!("PANIC({m})") }); return; }
        if let Some((e, a)) = want(&o) { out.push(Fail { family: fam, input, ptr, expected: e, actual: a }); }
    };
    let size_of = |st: &ResolvedSemanticState, p: &str| st.type_registry().get(&ItemPath::from(p)).and_then(|d| d.size());
    let expect_ok = |o: &Outcome| -> Option<(String, String)> { if let Outcome::Ok(_) = o { None } else { Some(("accepted".into(), o.tag())) } };
    let expect_err = |o: &Outcome| -> Option<(String, String)> { if let Outcome::Err(_) = o { None } else { Some(("rejected".into(), o.tag())) } };
    if props.contains("C10") {
        // chains of any depth, in any order
        for depth in 1..=6usize {
            for rev in [false, true] {
                let mut defs: Vec<String> = (0..depth).map(|i| if i + 1 < depth { format!("pub type T{i} {{ pub a: u32, pub n: T{} }}\n", i + 1) } else { format!("pub type T{i} {{ pub a: u32 }}\n") }).collect();
                if rev { defs.reverse(); }
                let d = depth;
                case(vec![("m", defs.concat())], 4, &move |o| match o { Outcome::Ok(st) => { let s = st.type_registry().get(&ItemPath::from("m::T0")).and_then(|d| d.size()); if s == Some(4 * d) { None } else { Some((format!("T0 size {}", 4 * d), format!("{s:?}"))) } } _ => Some(("accepted".into(), o.tag())) }, out, "resolution");
            }
        }
        case(vec![("m", "pub type A { pub b: *mut B } pub type B { pub a: *const A }".into())], 4, &expect_ok, out, "resolution");
        case(vec![("a", "use b::B; pub type A { pub b: *mut B }".into()), ("b", "use a::A; pub type B { pub a: *const A }".into())], 4, &expect_ok, out, "resolution");
        case(vec![("a", "use b::B; pub type A { pub b: *mut B }".into()), ("b", "use c::C; pub type B { pub c: C }".into()), ("c", "use a::A; pub type C { pub a: *const A }".into())], 4, &expect_ok, out, "resolution");
        case(vec![("m", "pub type A { pub a: A }".into())], 4, &expect_err, out, "resolution");
        case(vec![("m", "pub type A { pub b: B } pub type B { pub c: C } pub type C { pub a: A }".into())], 4, &expect_err, out, "resolution");
        case(vec![("m", "pub type A { pub b: [B; 2] } pub type B { pub a: A }".into())], 4, &expect_err, out, "resolution");
        case(vec![("m", "pub type Node { pub tail: [Node; 0] }".into())], 4, &expect_err, out, "resolution");
        case(vec![("m", "pub type A { pub bs: [B; 0] } pub type B { pub c: C } pub type C { pub a: A }".into())], 4, &expect_err, out, "resolution");
        case(vec![("m", "pub type A { #[base] pub b: B } pub type B { #[base] pub a: A }".into())], 4, &expect_err, out, "resolution");
        case(vec![("m", "pub type A { pub x: Missing }".into())], 4, &expect_err, out, "resolution");
        case(vec![("m", "pub type A { pub x: *const Missing }".into())], 4, &expect_err, out, "resolution");
        case(vec![("m", "pub enum E: Missing { A }".into())], 4, &expect_err, out, "resolution");
        case(vec![("m", "pub type A { pub x: u32 } impl A { #[address(1)] pub fn f(&self, p: Missing); }".into())], 4, &expect_err, out, "resolution");
        case(vec![("m", "pub type A { pub x: u32 } impl A { #[address(1)] pub fn f(&self) -> Missing; }".into())], 4, &expect_err, out, "resolution");
        case(vec![("m", "#[address(16)] pub extern v: Missing;".into())], 4, &expect_err, out, "resolution");
        case(vec![("m", "pub type A { pub x: u32 } #[address(16)] pub extern v: *mut A;".into())], 4, &expect_ok, out, "resolution");
    }
    if props.contains("C11") || props.contains("C19") {
        let a = ("a", "pub type T { pub x: u8 }".to_string());
        let b = ("b", "pub type T { pub x: u16 }".to_string());
        let d = ("d", "pub type T { pub x: u64 }".to_string());
        let sz = |want: usize| move |o: &Outcome| -> Option<(String, String)> { match o { Outcome::Ok(st) => { let s = st.type_registry().get(&ItemPath::from("c::U")).and_then(|d| d.size()); if s == Some(want) { None } else { Some((format!("c::U has size {want}"), format!("{s:?}"))) } } _ => Some(("accepted".into(), o.tag())) } };
        case(vec![a.clone(), b.clone(), ("c", "use a; pub type T { pub x: u32 } pub type U { pub t: T }".into())], 4, &sz(4), out, "scoping");          // own module before imported modules
        case(vec![a.clone(), b.clone(), ("c", "use a::T; pub type T { pub x: u32 } pub type U { pub t: T }".into())], 4, &sz(1), out, "scoping");       // type import before own module
        case(vec![a.clone(), b.clone(), ("c", "use a::T; use b::T; pub type U { pub t: T }".into())], 4, &sz(2), out, "scoping");                        // last type import wins
        case(vec![a.clone(), b.clone(), ("c", "use b::T; use a::T; pub type U { pub t: T }".into())], 4, &sz(1), out, "scoping");
        // repeated imports: still the LAST by-name import wins, the FIRST module import
        case(vec![a.clone(), b.clone(), ("c", "use a::T; use b::T; use a::T; pub type U { pub t: T }".into())], 4, &sz(1), out, "scoping");
        case(vec![a.clone(), b.clone(), ("c", "use b::T; use a::T; use b::T; pub type U { pub t: T }".into())], 4, &sz(2), out, "scoping");
        case(vec![a.clone(), b.clone(), ("c", "use a::T; use a::T; use b::T; pub type U { pub t: T }".into())], 4, &sz(2), out, "scoping");
        case(vec![a.clone(), b.clone(), ("c", "use a; use b; use a; pub type U { pub t: T }".into())], 4, &sz(1), out, "scoping");
        case(vec![a.clone(), b.clone(), ("c", "use b; use a; use b; pub type U { pub t: T }".into())], 4, &sz(2), out, "scoping");
        case(vec![a.clone(), b.clone(), ("c", "use c; use b; pub type U { pub t: T }".into())], 4, &sz(2), out, "scoping");
        case(vec![a.clone(), b.clone(), ("c", "use a; use b; pub type U { pub t: T }".into())], 4, &sz(1), out, "scoping");                              // earlier module import first
        case(vec![a.clone(), b.clone(), ("c", "use b; use a; pub type U { pub t: T }".into())], 4, &sz(2), out, "scoping");
        case(vec![a.clone(), b.clone(), ("c", "use b; use a::T; pub type U { pub t: T }".into())], 4, &sz(1), out, "scoping");                           // type import before module import
        case(vec![a.clone(), ("c", "use a; pub type u32 { pub x: u8 } pub type U { pub t: u32 }".into())], 4, &sz(4), out, "scoping");                  // built-in before own module
        case(vec![a.clone(), b.clone(), d.clone(), ("c", "use a; pub type U { pub t: T }".into())], 4, &sz(1), out, "scoping");                         // unrelated modules are not searched
        case(vec![("a::inner", "pub type T { pub x: u64 }".into()), a.clone(), ("c", "use a::inner; pub type U { pub t: T }".into())], 4, &sz(8), out, "scoping");
        case(vec![b.clone(), ("c", "pub type U { pub t: T }".into())], 4, &expect_err, out, "scoping");                                                // not imported: not visible
        let _ = size_of;
    }
    if props.contains("C14") {
        case(vec![("m", "pub type T { pub a: u32 } pub type T { pub a: u64 }".into())], 4, &expect_err, out, "registration");
        case(vec![("m", "pub type T { pub a: u32 } #[size(4), align(4)] extern type T;".into())], 4, &expect_err, out, "registration");
        // a declaration named like the vftable struct that is generated for another type (F10): never a silent overwrite
        case(vec![("m", "pub type FooVftable { pub a: u32 } pub type Foo { vftable { pub fn f(&self); }, }".into())], 4, &expect_err, out, "registration");
        case(vec![("m", "pub type Foo { vftable { pub fn f(&self); }, } pub enum FooVftable: u8 { X }".into())], 8, &expect_err, out, "registration");
        case(vec![("m", "pub type Foo { vftable { pub fn f(&self); }, } #[size(4), align(4)] extern type FooVftable;".into())], 8, &expect_err, out, "registration");
        case(vec![("m", "pub type A { pub a: u32 } pub enum E: u8 { X } pub type V { vftable { pub fn f(&self); }, }".into()), ("n", "pub type B { pub a: u8 }".into())], 4,
             &|o| match o { Outcome::Ok(st) => {
                 let m = st.modules().get(&ItemPath::from("m")); let nn = st.modules().get(&ItemPath::from("n"));
                 let mut dm: Vec<String> = m.map(|m| m.definition_paths().iter().map(|p| p.to_string()).collect()).unwrap_or_default(); dm.sort();
                 let mut dn: Vec<String> = nn.map(|m| m.definition_paths().iter().map(|p| p.to_string()).collect()).unwrap_or_default(); dn.sort();
                 if dm == vec!["m::A", "m::E", "m::V", "m::VVftable"] && dn == vec!["n::B"] { None } else { Some(("m: [A, E, V, VVftable], n: [B]".into(), format!("m: {dm:?}, n: {dn:?}"))) } }
                 _ => Some(("accepted".into(), o.tag())) }, out, "registration");
    }
    if props.contains("C14") || props.contains("C19") {
        // a generated vftable struct belongs to the module of its type, also for nested module paths
        case(vec![("gfx", "pub type Plain { pub a: u32 }".into()), ("gfx::scene", "pub type Drawable { vftable { pub fn draw(&self); }, }".into())], 4,
             &|o| match o { Outcome::Ok(st) => {
                 let mut a: Vec<String> = st.modules().get(&ItemPath::from("gfx")).map(|m| m.definition_paths().iter().map(|p| p.to_string()).collect()).unwrap_or_default(); a.sort();
                 let mut b: Vec<String> = st.modules().get(&ItemPath::from("gfx::scene")).map(|m| m.definition_paths().iter().map(|p| p.to_string()).collect()).unwrap_or_default(); b.sort();
                 if a == vec!["gfx::Plain"] && b == vec!["gfx::scene::Drawable", "gfx::scene::DrawableVftable"] { None } else { Some(("gfx: [Plain]; gfx::scene: [Drawable, DrawableVftable]".into(), format!("gfx: {a:?}; gfx::scene: {b:?}"))) } }
                 _ => Some(("accepted".into(), o.tag())) }, out, "registration");
    }
    if props.contains("C19") || props.contains("C11") {
        // two modules that do not import each other define the same short name; each binds its own
        for rounds in 0..6 {
            let _ = rounds;
            case(vec![("audio", "pub type Handle { pub a: u8 } pub type User { pub h: *mut Handle }".into()), ("video", "pub type Handle { pub a: u64 } pub type User { pub h: *mut Handle }".into())], 8,
                 &|o| match o { Outcome::Ok(st) => {
                     let f = |m: &str| get_type(st, &format!("{m}::User")).and_then(|(_, td)| td.regions.first().map(|r| format!("{}", r.type_ref)));
                     let (a, v) = (f("audio"), f("video"));
                     if a.as_deref() == Some("*mut audio::Handle") && v.as_deref() == Some("*mut video::Handle") { None } else { Some(("audio::User.h: *mut audio::Handle, video::User.h: *mut video::Handle".into(), format!("{a:?}, {v:?}"))) } }
                     _ => Some(("accepted".into(), o.tag())) }, out, "scoping");
        }
    }
    if props.contains("C17") || props.contains("C07") || props.contains("C05") {
        // members of bases are re-exposed on the derived type with their docs, signature and convention
        let src = "pub type A { pub x: u32 }\nimpl A {\n    /// doc of foo\n    #[address(0x10)]\n    pub fn foo(&self, a: u32) -> u32;\n    #[address(0x20)]\n    fn hidden(&self);\n}\n\
pub type B { vftable { /// doc of vb\n pub fn vb(&self); }, pub y: u32 }\nimpl B {\n    #[address(0x30)]\n    pub fn foo(&mut self);\n}\n\
pub type D { #[base] pub a: A, #[base] pub b: B }\nimpl D {\n    #[address(0x40)]\n    pub fn own(&self);\n}\n";
        case(vec![("m", src.to_string())], 4, &|o| match o { Outcome::Ok(st) => {
            let Some((_, td)) = get_type(st, "m::D") else { return Some(("m::D".into(), "missing".into())) };
            let got: Vec<String> = td.associated_functions.iter().map(|f| format!("{}|{:?}|{:?}|{}|{:?}", f.name, f.body, f.doc.as_deref().map(|d| d.trim().to_string()), f.arguments.len(), f.visibility)).collect();
            let want = vec![
                "foo|Field { field: \"a\", function_name: \"foo\" }|Some(\"doc of foo\")|2|Public".to_string(),
                "b_foo|Field { field: \"b\", function_name: \"foo\" }|None|1|Public".to_string(),
                "vb|Field { field: \"b\", function_name: \"vb\" }|Some(\"doc of vb\")|1|Public".to_string(),
                "own|Address { address: 64 }|None|1|Public".to_string(),
            ];
            if got == want { None } else { Some((format!("{want:?}"), format!("{got:?}"))) } }
            _ => Some(("accepted".into(), o.tag())) }, out, "inherited-functions");
        case(vec![("m", "pub type T { pub x: u32 }\nimpl T {\n    #[address(1)]\n    pub fn f(&self);\n    #[address(2)]\n    pub fn f(&self);\n}\n".into())], 4, &expect_err, out, "inherited-functions");
        // the types in a function's signature bind by the same scoping rules as field types (own module before `use other;`)
        case(vec![("a", "pub type T { pub x: u8 }".to_string()), ("c", "use a;\npub type T { pub x: u32 }\npub type U { pub y: u32 }\nimpl U {\n    #[address(0x10)]\n    pub fn f(&self, p: *const T) -> *mut T;\n}\n".to_string())], 4, &|o| match o { Outcome::Ok(st) => {
            let Some((_, td)) = get_type(st, "c::U") else { return Some(("c::U".into(), "missing".into())) };
            let Some(f) = td.associated_functions.iter().find(|f| f.name == "f") else { return Some(("function f".into(), "missing".into())) };
            let want_arg = Argument::Field("p".into(), Type::raw("c::T").const_pointer());
            let want_ret = Some(Type::raw("c::T").mut_pointer());
            if f.arguments.get(1) == Some(&want_arg) && f.return_type == want_ret { None } else { Some((format!("p: {want_arg:?} -> {want_ret:?}"), format!("{:?} -> {:?}", f.arguments.get(1), f.return_type))) } }
            _ => Some(("accepted".into(), o.tag())) }, out, "inherited-functions");
        // a renamed function takes its NEW name: a later base function of that very name is renamed in turn, and the
        // derived type's own impl may not define it again
        let chain = "pub type A { pub x: u32 }\nimpl A {\n    #[address(0x10)]\n    pub fn foo(&self);\n}\npub type B { pub y: u32 }\nimpl B {\n    #[address(0x20)]\n    pub fn foo(&self);\n}\npub type C { pub z: u32 }\nimpl C {\n    #[address(0x30)]\n    pub fn b_foo(&self);\n}\n";
        case(vec![("m", format!("{chain}pub type D {{ #[base] pub a: A, #[base] pub b: B, #[base] pub c: C }}\n"))], 4, &|o| match o { Outcome::Ok(st) => {
            let Some((_, td)) = get_type(st, "m::D") else { return Some(("m::D".into(), "missing".into())) };
            let got: Vec<String> = td.associated_functions.iter().map(|f| format!("{}|{:?}", f.name, f.body)).collect();
            let want = vec!["foo|Field { field: \"a\", function_name: \"foo\" }".to_string(), "b_foo|Field { field: \"b\", function_name: \"foo\" }".to_string(), "c_b_foo|Field { field: \"c\", function_name: \"b_foo\" }".to_string()];
            if got == want { None } else { Some((format!("{want:?}"), format!("{got:?}"))) } }
            _ => Some(("accepted".into(), o.tag())) }, out, "inherited-functions");
        case(vec![("m", format!("{chain}pub type D {{ #[base] pub a: A, #[base] pub b: B }}\nimpl D {{\n    #[address(0x40)]\n    pub fn b_foo(&self);\n}}\n"))], 4, &expect_err, out, "inherited-functions");
    }
    if props.contains("C15") || props.contains("C17") {
        // an extern value without an address is rejected even after one that has an address
        case(vec![("m", "#[address(0x2000)] pub extern a: u32; pub extern b: u32;".into())], 4, &expect_err, out, "type-attrs");
        for (attr, ok) in [("singleton(0x1337)", true), ("singleton(-1)", false)] {
            case(vec![("m", format!("#[{attr}] pub type T {{ pub a: u32 }}"))], 4, &|o| match (o, ok) {
                (Outcome::Ok(st), true) => { let s = get_type(st, "m::T").and_then(|(_, td)| td.singleton); if s == Some(0x1337) { None } else { Some(("singleton 0x1337".into(), format!("{s:?}"))) } }
                (Outcome::Err(_), false) => None,
                _ => Some((if ok { "accepted".into() } else { "rejected".into() }, o.tag())) }, out, "type-attrs");
        }
        for (addr, ok) in [(Some("0x2000"), true), (Some("-1"), false), (None, false)] {
            let src = format!("{}pub extern v: u32;", addr.map(|a| format!("#[address({a})] ")).unwrap_or_default());
            case(vec![("m", src)], 4, &|o| match (o, ok) {
                (Outcome::Ok(st), true) => { let dbg = st.modules().get(&ItemPath::from("m")).map(|m| format!("{m:?}")).unwrap_or_default(); if dbg.contains("address: 8192") { None } else { Some(("extern value at 0x2000 (8192)".into(), dbg.chars().take(300).collect())) } }
                (Outcome::Err(_), false) => None,
                _ => Some((if ok { "accepted".into() } else { "rejected".into() }, o.tag())) }, out, "type-attrs");
        }
        for mask in 0..16u32 {
            let names = ["copyable", "cloneable", "defaultable", "packed"];
            let attrs: Vec<&str> = names.iter().enumerate().filter(|(i, _)| mask & (1 << i) != 0).map(|(_, n)| *n).collect();
            let src = format!("{}/// doc line 1\n/// doc line 2\npub type T {{ /// field doc\n pub a: u32, b: u32 }}", if attrs.is_empty() { String::new() } else { format!("#[{}]\n", attrs.join(", ")) });
            case(vec![("m", src)], 4, &|o| match o { Outcome::Ok(st) => {
                let Some((_, td)) = get_type(st, "m::T") else { return Some(("m::T".into(), "missing".into())) };
                let e = (mask & 1 != 0, mask & 3 != 0, mask & 4 != 0, mask & 8 != 0);
                let g = (td.copyable, td.cloneable, td.defaultable, td.packed);
                let vis: Vec<bool> = td.regions.iter().map(|r| r.visibility == Visibility::Public).collect();
                let fdoc = td.regions.first().and_then(|r| r.doc.clone());
                if e != g { Some((format!("flags {e:?}"), format!("{g:?}"))) }
                else if vis != vec![true, false] { Some(("a public, b private".into(), format!("{vis:?}"))) }
                else if td.doc.as_deref().map(|d| d.trim()) != Some("doc line 1\n doc line 2") { Some(("doc \"doc line 1\\n doc line 2\"".into(), format!("{:?}", td.doc))) }
                else if fdoc.as_deref().map(|d| d.trim()) != Some("field doc") { Some(("field doc on a".into(), format!("{fdoc:?}"))) } else { None } }
                _ => Some(("accepted".into(), o.tag())) }, out, "type-attrs");
        }
    }
    if props.contains("C20") {
        let same = |a: &str, b: &str, what: &'static str, out: &mut Vec<Fail>, n: &mut usize| {
            for ptr in [4usize, 8] {
                let oa = build_one(a, ptr); let ob = build_one(b, ptr); *n += 1;
                let key = |o: &Outcome| match o { Outcome::Ok(st) => { let mut v: Vec<String> = st.type_registry().resolved_paths_dbg(); v.sort(); format!("{v:?}") } o => o.tag() };
                let (ka, kb) = (key(&oa), key(&ob));
                if ka != kb { out.push(Fail { family: "equivalence", input: format!("// {what}\n// --- original\n{a}\n// --- rewritten\n{b}"), ptr, expected: ka, actual: kb }); }
            }
        };
        same("pub type T { pub a: u32, pub b: u32 }", "pub type T { #[address(0)] pub a: u32, #[address(4)] pub b: u32 }", "explicit address the field already had", out, &mut n);
        same("pub type T { pub a: u32, _: unknown<12>, pub b: u32 }", "pub type T { pub a: u32, #[address(16)] pub b: u32 }", "unknown<N> gap replaced by an address", out, &mut n);
        same("pub type T { pub a: u32, pub b: u32 }", "#[size(8)] pub type T { pub a: u32, pub b: u32 }", "size attribute equal to the natural size", out, &mut n);
        same("pub type T { vftable { pub fn a(&self); pub fn b(&self); }, }", "pub type T { vftable { #[index(0)] pub fn a(&self); #[index(1)] pub fn b(&self); }, }", "index the function already had", out, &mut n);
        same("pub enum E: u32 { A, B, C = 7, D }", "pub enum E: u32 { A = 0, B = 1, C = 7, D = 8 }", "explicit enum values equal to the implicit ones", out, &mut n);
        same("pub type A { pub x: u32 } pub type B { pub a: A }", "pub type B { pub a: A } pub type A { pub x: u32 }", "reordered definitions", out, &mut n);
    }
    n
}

// ------------------------------------------------------------------------------------------------ absurd inputs (C12): only "no panic" is checked
fn absurd_family(out: &mut Vec<Fail>) -> usize {
    let big = "18446744073709551615";
    let srcs: Vec<String> = vec![
        "pub type T { pub a: [u64; 4611686018427387904] }".into(),
        format!("pub type T {{ pub a: unknown<{big}>, pub b: unknown<{big}> }}"),
        "#[size(4), align(0)] extern type X; pub type T { pub a: X, pub b: X }".into(),
        "#[size(4), align(0)] extern type X; #[align(4)] pub type T { pub a: X }".into(),
        "#[size(4), align(1099511627776)] extern type X; #[size(4), align(2199023255552)] extern type Y; pub type T { pub a: X, pub b: Y }".into(),
        "#[size(4), align(1099511627777)] extern type X; #[size(4), align(2199023255552)] extern type Y; #[size(4), align(4398046511105)] extern type Z; pub type T { pub a: X, pub b: Y, pub c: Z }".into(),
        "pub type T { vftable { #[index(-1)] pub fn f(&self); }, }".into(),
        "pub type T { #[size(-1)] vftable { pub fn f(&self); }, }".into(),
        "pub enum E: i64 { A = 9223372036854775807, B }".into(),
        "#[singleton(-1)] pub enum E: u32 { A }".into(),
        "#[address(-1)] pub extern x: u32;".into(),
        "pub type B { pub a: u32 } pub type D { #[base] _: B }".into(),
        "#[align(0)] pub type T { pub a: u8 }".into(),
        "#[size(-5)] pub type T { pub a: u8 }".into(),
        "pub type T { #[address(-4)] pub a: u8 }".into(),
        format!("pub type T {{ #[address({big})] pub a: u64 }}"),
        format!("#[size({big})] pub type T {{ pub a: u8 }}"),
        "pub type T { pub a: [[u64; 4294967296]; 4294967296] }".into(),
        "pub type Node { vftable { pub fn visit(&mut self); }, pub next: Node }".into(),
        "pub type A { pub a: A }".into(),
        "pub type T { vftable { pub fn f(&self); pub fn g(&self); }, pub p: *const T, pub q: [*mut u8; 3] }".into(),
        "pub type B { vftable { pub fn f(&self); }, } pub type D { #[base] pub b: B, pub x: *const D } impl D { #[address(0x10)] pub fn g(&self, a: *const B) -> *mut D; }".into(),
    ];
    let mut n = 0;
    for src in srcs {
        // the pointer size is an API parameter (`SemanticState::new`): absurd values are part of "any sequence of public API calls"
        for ptr in [0usize, 4, 8, 1usize << 63, usize::MAX] {
            // a worker thread with a deadline: "never hang"
            let s2 = src.clone();
            let (tx, rx) = std::sync::mpsc::channel();
            std::thread::spawn(move || { let o = build_one(&s2, ptr); let _ = tx.send(o.tag()); });
            n += 1;
            match rx.recv_timeout(std::time::Duration::from_secs(10)) {
                Ok(tag) => { if tag.starts_with("PANIC") { out.push(Fail { family: "absurd", input: src.clone(), ptr, expected: "Ok or Err".into(), actual: tag }); } }
                Err(_) => out.push(Fail { family: "absurd", input: src.clone(), ptr, expected: "a result within 10 s".into(), actual: "no result (hang)".into() }),
            }
        }
    }
    n
}

// ------------------------------------------------------------------------------------------------ backend (bounded stand-in, emit.rs)
const EMIT_PROPS: &[&str] = &["C01", "C02", "C03", "C04", "C05", "C06", "C07", "C08", "C10", "C11", "C12", "C14", "C15", "C16", "C17", "C19", "C20"];
fn emit_fail(out: &mut Vec<Fail>, prop: &str, input: String, ptr: usize, x: &emit::Viol) {
    if x.props.contains(&prop) {
        out.push(Fail { family: "emit", input, ptr, expected: "the emitted file carries the resolved item as the property says".into(), actual: x.what.clone() });
    }
}
thread_local! { static GEN_STATS: std::cell::Cell<(usize, usize)> = std::cell::Cell::new((0, 0)); }
fn emit_family(prop: &str, seed: u64, quick: bool, out: &mut Vec<Fail>) -> usize {
    let mut n = 0;
    let dir = scratch_dir();
    let stride = EMIT_SAMPLE.with(|c| std::mem::replace(&mut c.borrow_mut().0, 0));   // no sampling inside this family
    // generated programs (gen.rs): accepted by construction most of the time; only accepted ones are checked
    // the generated programs are split over the shards case by case (600 per pointer size in the quick tier, 2 500 in the
    // thorough tier); the curated corpus and the pairs run in one shard
    let per = if quick { 600 } else { 2500 };
    for ptr in [4usize, 8] {
        for i in 0..per {
            if shard_skip(i) { continue; }
            let (mods, expect) = gen::program_with_expectation(seed, i as u64, ptr);
            n += 1;
            let mods_ref: Vec<(&str, String)> = mods.iter().map(|(k, s)| (*k, s.clone())).collect();
            let o = build_modules(&mods_ref, ptr);
            GEN_STATS.with(|g| { let (a, t) = g.get(); g.set((a + matches!(o, Outcome::Ok(_)) as usize, t + 1)); });
            match o {
                Outcome::Ok(_) if expect.reject_name_clash.is_some() => {
                    // two re-exposed functions would carry the same name: neither is callable (C07, F26)
                    if prop == "C07" { out.push(Fail { family: "gen", input: join_sources(&mods_ref), ptr, expected: format!("rejected: {}", expect.reject_name_clash.clone().unwrap_or_default()), actual: "accepted".into() }); }
                }
                Outcome::Ok(st) => {
                    // the generator laid every item out itself (explicit padding, explicit alignment): the resolved size and
                    // alignment must be the ones it computed (C02; C11 because the sizes of referenced types go in)
                    if ["C02", "C11", "C03"].contains(&prop) {
                        for (path, size, align) in &expect.items {
                            let d = st.type_registry().get(&ItemPath::from(path.as_str()));
                            let got = d.and_then(|d| Some((d.size()? as u128, d.alignment()? as u128)));
                            if got != Some((*size, *align)) {
                                out.push(Fail { family: "gen", input: join_sources(&mods_ref), ptr, expected: format!("`{path}` resolved with size {size} and alignment {align}"), actual: format!("{got:?}") });
                            }
                        }
                    }
                    let mut gfail = |props: &[&str], e: String, a: String| { if props.contains(&prop) { out.push(Fail { family: "gen", input: join_sources(&mods_ref), ptr, expected: e, actual: a }); } };
                    // C01: every field where the generator put it
                    for (tpath, fname, off) in &expect.fields {
                        if let Some((_, td)) = get_type(&st, tpath) {
                            let got = offsets(td, &st, ptr).into_iter().find(|(n, _, _)| n == fname).map(|x| x.1);
                            if got != Some(*off) { gfail(&["C01", "C20"], format!("`{tpath}`.{fname} at offset {off}"), format!("{got:?}")); }
                        }
                    }
                    // C07 / C05 / C16 / C17 / C04: the functions of every type, as the generator derived them from the property text
                    for (tpath, assoc, vfs) in &expect.fns {
                        let Some((_, td)) = get_type(&st, tpath) else { continue };
                        // each property is compared on the aspect its statement is about: which functions there are and what they
                        // call (C05: address-bound, C07: re-exposed from bases), their conventions (C16), their visibility (C17)
                        let body_exp = |b: &gen::BodyExp| match b {
                            gen::BodyExp::Address(a) => format!("Address {{ address: {a} }}"),
                            gen::BodyExp::Vftable(n) => format!("Vftable {{ function_name: {n:?} }}"),
                            gen::BodyExp::Field(fl, n) => format!("Field {{ field: {fl:?}, function_name: {n:?} }}") };
                        let is_field = |b: &gen::BodyExp| matches!(b, gen::BodyExp::Field(..));
                        let want_own: Vec<String> = assoc.iter().filter(|f| !is_field(&f.body)).map(|f| format!("{} {}", f.name, body_exp(&f.body))).collect();
                        let got_own: Vec<String> = td.associated_functions.iter().filter(|f| !matches!(f.body, FunctionBody::Field { .. })).map(|f| format!("{} {:?}", f.name, f.body)).collect();
                        if got_own != want_own { gfail(&["C05"], format!("`{tpath}` functions of its own impl block {want_own:?}"), format!("{got_own:?}")); }
                        let want_base: Vec<String> = assoc.iter().filter(|f| is_field(&f.body)).map(|f| format!("{} {}", f.name, body_exp(&f.body))).collect();
                        let got_base: Vec<String> = td.associated_functions.iter().filter(|f| matches!(f.body, FunctionBody::Field { .. })).map(|f| format!("{} {:?}", f.name, f.body)).collect();
                        if got_base != want_base { gfail(&["C07"], format!("`{tpath}` functions re-exposed from its bases {want_base:?}"), format!("{got_base:?}")); }
                        let want_names: Vec<&str> = assoc.iter().map(|f| f.name.as_str()).collect();
                        let got_names: Vec<&str> = td.associated_functions.iter().map(|f| f.name.as_str()).collect();
                        if got_names != want_names && got_own == want_own && got_base == want_base { gfail(&["C07", "C05"], format!("`{tpath}` associated functions in the order {want_names:?}"), format!("{got_names:?}")); }
                        for w in assoc.iter() {
                            let Some(g) = td.associated_functions.iter().find(|g| g.name == w.name) else { continue };
                            if g.calling_convention.as_str() != w.cc { gfail(&["C16"], format!("`{tpath}`::{} has convention {}", w.name, w.cc), g.calling_convention.as_str().to_string()); }
                            if (g.visibility == Visibility::Public) != w.public { gfail(&["C17"], format!("`{tpath}`::{} is {}", w.name, if w.public { "pub" } else { "private" }), format!("{:?}", g.visibility)); }
                        }
                        let wantv: Vec<&str> = vfs.iter().map(|f| f.name.as_str()).collect();
                        let named: Vec<&Function> = td.vftable.as_ref().map(|v| v.functions.iter().filter(|f| !f.name.starts_with("_vfunc_")).collect()).unwrap_or_default();
                        let gotv: Vec<&str> = named.iter().map(|f| f.name.as_str()).collect();
                        if gotv != wantv { gfail(&["C04", "C06"], format!("`{tpath}` named vftable functions {wantv:?}"), format!("{gotv:?}")); }
                        for w in vfs.iter() {
                            let Some(g) = named.iter().find(|g| g.name == w.name) else { continue };
                            if g.calling_convention.as_str() != w.cc { gfail(&["C16"], format!("`{tpath}` vftable function {} has convention {}", w.name, w.cc), g.calling_convention.as_str().to_string()); }
                            if (g.visibility == Visibility::Public) != w.public { gfail(&["C17"], format!("`{tpath}` vftable function {} is {}", w.name, if w.public { "pub" } else { "private" }), format!("{:?}", g.visibility)); }
                        }
                    }
                    // C17 / C15: visibility, marker flags, singleton address and doc string of every item; visibility and doc of fields
                    for it in &expect.item_attrs {
                        let Some(d) = st.type_registry().get(&ItemPath::from(it.path.as_str())) else { continue };
                        let Some(isr) = d.resolved() else { continue };
                        let (cp, cl, df, pk, sg, dc) = match &isr.inner {
                            ItemDefinitionInner::Type(td) => (td.copyable, td.cloneable, td.defaultable, td.packed, td.singleton, td.doc.clone()),
                            ItemDefinitionInner::Enum(ed) => (ed.copyable, ed.cloneable, ed.defaultable, false, ed.singleton, ed.doc.clone()),
                        };
                        let got = format!("public={} copyable={cp} cloneable={cl} defaultable={df} packed={pk} doc={dc:?}", d.visibility == Visibility::Public);
                        let want = format!("public={} copyable={} cloneable={} defaultable={} packed={} doc={:?}", it.public, it.copyable, it.cloneable, it.defaultable, it.packed, it.doc);
                        if got != want { gfail(&["C17"], format!("`{}` {want}", it.path), got); }
                        if sg.map(|x| x as u128) != it.singleton { gfail(&["C15"], format!("`{}` singleton {:?}", it.path, it.singleton), format!("{sg:?}")); }
                    }
                    for (tpath, fname, public, fdoc) in &expect.field_attrs {
                        let Some((_, td)) = get_type(&st, tpath) else { continue };
                        let Some(rg) = td.regions.iter().find(|r| r.name.as_deref() == Some(fname.as_str())) else { gfail(&["C17", "C01"], format!("`{tpath}` has a field {fname}"), "missing".into()); continue };
                        if (rg.visibility == Visibility::Public) != *public || rg.doc != *fdoc { gfail(&["C17"], format!("`{tpath}`.{fname} public={public} doc={fdoc:?}"), format!("public={} doc={:?}", rg.visibility == Visibility::Public, rg.doc)); }
                    }
                    // C08: enum values and the default variant
                    for (epath, vals, def) in &expect.enums {
                        let Some(ed) = st.type_registry().get(&ItemPath::from(epath.as_str())).and_then(|d| d.resolved()).and_then(|r| r.inner.as_enum()) else { continue };
                        let got: Vec<(String, i128)> = ed.fields.iter().map(|(n, v)| (n.clone(), *v as i128)).collect();
                        if &got != vals || ed.default_index != *def { gfail(&["C08", "C20"], format!("`{epath}` values {vals:?} default {def:?}"), format!("{got:?} default {:?}", ed.default_index)); }
                    }
                    let e = emit_checked(ptr, &st, &mods_ref, &dir);
                    for x in &e.viols { emit_fail(out, prop, join_sources(&mods_ref), ptr, x); }
                }
                Outcome::Panic(m) => { if prop == "C12" { out.push(Fail { family: "gen", input: join_sources(&mods_ref), ptr, expected: "Ok or Err".into(), actual: format!("PANIC({m})") }); } }
                Outcome::Err(_) if expect.reject_name_clash.is_some() => {}
                Outcome::Err(m) => {
                    // a program of this generator is realisable, every name is defined and nothing embeds itself by value
                    if ["C03", "C10", "C11", "C06"].contains(&prop) {
                        out.push(Fail { family: "gen", input: join_sources(&mods_ref), ptr, expected: "accepted (laid out by the generator with explicit padding and alignment; all names defined; acyclic)".into(), actual: format!("ERR({m})") });
                    }
                }
            }
            if out.len() > 30 { break; }
        }
    }
    // VERIF_NO_CORPUS=1: measurement only - how much do the generated programs catch without the curated corpus?
    let no_corpus = std::env::var_os("VERIF_NO_CORPUS").is_some() || !shard_family(3);
    for ptr in [4usize, 8] {
        if !shard_family(3) { break; }
        for (_label, mods) in emit_corpus::corpus() {
            if no_corpus { break; }
            n += 1;
            match build_modules(&mods, ptr) {
                Outcome::Ok(st) => {
                    let e = emit_checked(ptr, &st, &mods, &dir);
                    for x in &e.viols { emit_fail(out, prop, join_sources(&mods), ptr, x); }
                }
                // every corpus program is realisable, fully defined and acyclic at both pointer sizes (the `corpus` mode of this
                // tool lists them): a rejection is a spurious rejection (C03 layout / C10 resolution), never a silent skip
                o => { if ["C03", "C10"].contains(&prop) { out.push(Fail { family: "emit", input: join_sources(&mods), ptr, expected: format!("corpus program `{_label}` accepted"), actual: o.tag() }); } }
            }
        }
        if prop == "C20" {
            for (what, a, b) in emit_corpus::equivalent_pairs() {
                n += 1;
                let (ma, mb) = (vec![("m", a.clone())], vec![("m", b.clone())]);
                if let (Outcome::Ok(sa), Outcome::Ok(sb)) = (build_modules(&ma, ptr), build_modules(&mb, ptr)) {
                    let (ea, eb) = (emit_checked(ptr, &sa, &ma, &dir), emit_checked(ptr, &sb, &mb, &dir));
                    if ea.files != eb.files {
                        out.push(Fail { family: "emit", input: format!("{a}\n// ---- rewritten ({what})\n{b}"), ptr, expected: "byte-identical output".into(), actual: first_diff(ea.files.get("m"), eb.files.get("m")) });
                    }
                }
            }
        }
        if prop == "C19" {
            for (what, key, a, b) in emit_corpus::unrelated_pairs() {
                n += 1;
                // each side is built several times (every build has its own HashMap iteration order, i.e. its own order of writing the
                // modules) and emitted on a fresh thread, so that state the printer keeps between modules or between calls (a memo, a
                // thread-local) shows as a difference instead of being shared by both sides
                for _rep in 0..4 {
                {
                    // build AND emit on the fresh thread: nothing of the built state crosses a thread boundary (a tree under check may
                    // make the state !Sync, e.g. with a RefCell memo - the tool must still build against it)
                    let side = |mods: &Vec<(&'static str, String)>, sub: &str| -> Result<Option<emit::Emitted>, ()> {
                        let d = dir.join(sub);
                        std::thread::scope(|sc| sc.spawn(|| match build_modules(mods, ptr) { Outcome::Ok(st) => Some(emit_checked(ptr, &st, mods, &d)), _ => None }).join()).map_err(|_| ())
                    };
                    let (ea, eb) = match (side(&a, "a"), side(&b, "b")) { (Ok(Some(x)), Ok(Some(y))) => (Ok::<_, ()>(x), Ok::<_, ()>(y)), _ => continue };
                    let (Ok(ea), Ok(eb)) = (ea, eb) else { continue };
                    if ea.files.get(key) != eb.files.get(key) || ea.files.get(key).is_none() {
                        out.push(Fail { family: "emit", input: format!("{}\n// ==== changed input set ({what}); observed module `{key}`\n{}", join_sources(&a), join_sources(&b)), ptr, expected: format!("output of module `{key}` byte-identical"), actual: first_diff(ea.files.get(key), eb.files.get(key)) });
                    }
                }
                if out.len() > 30 { break; }
                }
            }
        }
    }
    EMIT_SAMPLE.with(|c| c.borrow_mut().0 = stride);
    n
}
fn first_diff(a: Option<&String>, b: Option<&String>) -> String {
    match (a, b) {
        (Some(a), Some(b)) => {
            for (i, (x, y)) in a.lines().zip(b.lines()).enumerate() {
                if x != y { return format!("line {}: `{}` vs `{}`", i + 1, x.trim(), y.trim()); }
            }
            format!("{} lines vs {} lines", a.lines().count(), b.lines().count())
        }
        _ => "an output file is missing".into(),
    }
}

// ------------------------------------------------------------------------------------------------ pyxis::build on directory trees (C14, C12; bounded stand-in for lib.rs)
fn fs_family(prop: &str, out: &mut Vec<Fail>) -> usize {
    use std::path::{Path, PathBuf};
    let root = scratch_dir().join("fs");
    let trees: Vec<(&str, Vec<(&str, &str)>)> = vec![
        ("flat", vec![("a.pyxis", "pub type A { pub a: u32 }\n")]),
        ("nested", vec![("a.pyxis", "pub type A { pub a: u32 }\n"), ("sub/b.pyxis", "use a::A;\npub type B { pub a: A }\n"), ("sub/deep/er/c.pyxis", "use sub::b::B;\npub type C { pub b: B }\n")]),
        ("empty-module", vec![("a.pyxis", "pub type A { pub a: u32 }\n"), ("nothing.pyxis", "\n"), ("only/docs.pyxis", "//! just docs\n")]),
        ("not-pyxis", vec![("a.pyxis", "pub type A { pub a: u32 }\n"), ("readme.txt", "hello\n"), ("sub/notes.md", "x\n")]),
        ("same-names", vec![("x/t.pyxis", "pub type T { pub a: u32 }\n"), ("y/t.pyxis", "pub type T { pub a: u64 }\n"), ("t.pyxis", "pub type T { pub a: u8 }\n")]),
        // a module that declares nothing but extern values (no type, no doc, no backend block) still gets its file and its accessors
        ("externs-only", vec![("a.pyxis", "pub type A { pub a: u32 }\n"), ("globals.pyxis", "use a::A;\n#[address(0x1000)]\npub extern counter: u32;\n#[address(0x2000)]\npub extern first: *mut A;\n")]),
    ];
    fn walk(d: &Path, base: &Path, v: &mut Vec<String>) { if let Ok(rd) = std::fs::read_dir(d) { for e in rd.flatten() { let p = e.path(); if p.is_dir() { walk(&p, base, v) } else { v.push(p.strip_prefix(base).unwrap_or(&p).to_string_lossy().replace('\\', "/")) } } } }
    let mut n = 0;
    let cwd = std::env::current_dir().ok();
    for (label, files) in &trees {
        let base = root.join(label);
        let _ = std::fs::remove_dir_all(&base);
        let ind = base.join("types");
        for (rel, txt) in files {
            let p = ind.join(rel);
            let _ = std::fs::create_dir_all(p.parent().unwrap());
            let _ = std::fs::write(&p, txt);
        }
        let mut want: Vec<String> = files.iter().filter(|(r, _)| r.ends_with(".pyxis")).map(|(r, _)| r.replace(".pyxis", ".rs")).collect();
        want.sort();
        // the same directory spelled in several ways (absolute, relative to the cwd, with `.` components)
        let _ = std::env::set_current_dir(&base);
        let spellings: Vec<PathBuf> = vec![ind.clone(), PathBuf::from("types"), PathBuf::from("./types"), PathBuf::from("types/"), PathBuf::from("././types/."), base.join("./types")];
        for (k, sp) in spellings.iter().enumerate() {
            let outd = base.join(format!("out{k}"));
            let _ = std::fs::remove_dir_all(&outd);
            let r = catch_unwind(AssertUnwindSafe(|| pyxis::build(sp, &outd, 8)));
            n += 1;
            let input = format!("in_dir `{}` with files {:?}", sp.display(), files.iter().map(|f| f.0).collect::<Vec<_>>());
            match r {
                Err(_) => { if prop == "C12" { out.push(Fail { family: "fs", input, ptr: 8, expected: "no panic".into(), actual: "PANIC in pyxis::build".into() }); } }
                Ok(Err(e)) => { if prop == "C14" { out.push(Fail { family: "fs", input, ptr: 8, expected: format!("accepted, output files {want:?}"), actual: format!("ERR({e:#})") }); } }
                Ok(Ok(())) => {
                    let mut got = vec![];
                    walk(&outd, &outd, &mut got);
                    got.sort();
                    if prop == "C14" && got != want { out.push(Fail { family: "fs", input: input.clone(), ptr: 8, expected: format!("exactly one output file per input module at the same relative path: {want:?}"), actual: format!("{got:?}") }); }
                    if prop == "C15" && *label == "externs-only" {
                        let text = std::fs::read_to_string(outd.join("globals.rs")).unwrap_or_default();
                        for (acc, addr) in [("get_counter", "0x1000"), ("get_first", "0x2000")] {
                            if !(text.contains(acc) && text.to_lowercase().contains(addr)) {
                                out.push(Fail { family: "fs", input: input.clone(), ptr: 8, expected: format!("globals.rs with the accessor `{acc}` for address {addr}"), actual: if text.is_empty() { "globals.rs was not written".into() } else { text.chars().take(300).collect() } });
                            }
                        }
                    }
                }
            }
        }
        // "parse errors identify the file, line and column": a stray token at a known position
        if *label == "flat" && prop == "C12" {
            let bad = ind.join("broken.pyxis");
            let _ = std::fs::write(&bad, "pub type A {\n    pub a: u32,\n    pub b ! u32,\n}\n");
            let r = catch_unwind(AssertUnwindSafe(|| { let mut st = SemanticState::new(8); st.add_file(&ind, &bad).map(|_| ()) }));
            n += 1;
            let input = "add_file on `pub type A {\\n    pub a: u32,\\n    pub b ! u32,\\n}` (stray `!` at line 3, column 11)".to_string();
            match r {
                Err(_) => out.push(Fail { family: "fs", input, ptr: 8, expected: "an error value".into(), actual: "PANIC".into() }),
                Ok(Ok(())) => out.push(Fail { family: "fs", input, ptr: 8, expected: "a parse error".into(), actual: "accepted".into() }),
                Ok(Err(e)) => {
                    let m = format!("{e:#}");
                    if !(m.contains("broken.pyxis") && m.contains(":3:11")) {
                        out.push(Fail { family: "fs", input, ptr: 8, expected: "an error naming broken.pyxis:3:11".into(), actual: m });
                    }
                }
            }
            let _ = std::fs::remove_file(&bad);
        }
        // a file that is not below the base directory is an error, not a panic
        let outside = base.join("types").join(files[0].0);
        let r = catch_unwind(AssertUnwindSafe(|| { let mut st = SemanticState::new(8); st.add_file(Path::new("/nonexistent-base"), &outside).map(|_| ()) }));
        n += 1;
        if r.is_err() && prop == "C12" { out.push(Fail { family: "fs", input: format!("add_file(\"/nonexistent-base\", {:?})", outside), ptr: 8, expected: "Ok or Err".into(), actual: "PANIC".into() }); }
        if let Some(c) = &cwd { let _ = std::env::set_current_dir(c); }
        let _ = std::fs::remove_dir_all(&base);
    }
    // ---- a second build into an output directory that already holds the result of an earlier one (C05 C14): after an input
    // changed, every output file must be what a build into an empty directory gives - also the files of modules whose own
    // source did not change but which re-expose something of the changed module
    if EMIT_PROPS.contains(&prop) && prop != "C12" {
        let base = root.join("rebuild");
        let _ = std::fs::remove_dir_all(&base);
        let ind = base.join("types");
        let _ = std::fs::create_dir_all(&ind);
        // the edit changes an address (C05 / C07), the size and layout of Base (C01 / C02 of what embeds it), a convention (C16), a doc
        // (C17), an enum value (C08), and it adds a type `Extra` to base.pyxis that shadows the one `derived` got from `other` (C11)
        let base_src = |addr: &str| {
            let second = addr != "0x401000";
            format!("/// {}\n#[align(4)]\npub type Base {{ pub x: u32{} }}\nimpl Base {{\n    #[address({addr})]\n    pub fn make(a: u32) -> u32;\n    #[address(0x500){}]\n    pub fn get(&self) -> u32;\n}}\npub enum Kind: u32 {{ A = {}, B }}\n{}",
                if second { "second edition" } else { "first edition" }, if second { ", pub z: u32" } else { "" }, if second { ", calling_convention(\"cdecl\")" } else { "" },
                if second { 7 } else { 1 }, if second { "pub type Extra { pub e: u64 }\n" } else { "" })
        };
        let _ = std::fs::write(ind.join("base.pyxis"), base_src("0x401000"));
        let _ = std::fs::write(ind.join("other.pyxis"), "pub type Extra { pub e: u32 }\n");
        let _ = std::fs::write(ind.join("derived.pyxis"), "use base;\nuse other;\n#[align(4)]\npub type Derived { #[base] pub base: Base, pub y: u32, pub k: Kind }\npub type UsesExtra { pub p: *const Extra }\n");
        let out1 = base.join("out");
        let fresh = base.join("fresh");
        let r1 = catch_unwind(AssertUnwindSafe(|| pyxis::build(&ind, &out1, 8)));
        // make sure the outputs of the first build are older than the edit and newer than the untouched source
        std::thread::sleep(std::time::Duration::from_millis(1100));
        let _ = std::fs::write(ind.join("base.pyxis"), base_src("0x402000"));
        let r2 = catch_unwind(AssertUnwindSafe(|| pyxis::build(&ind, &out1, 8)));
        let r3 = catch_unwind(AssertUnwindSafe(|| pyxis::build(&ind, &fresh, 8)));
        n += 3;
        let input = "types/base.pyxis (impl Base { #[address(A)] pub fn make(a: u32) -> u32; .. }), types/derived.pyxis (Derived { #[base] base: Base }): build, change A from 0x401000 to 0x402000, build again into the same directory".to_string();
        match (r1, r2, r3) {
            (Ok(Ok(())), Ok(Ok(())), Ok(Ok(()))) => {
                for f in ["base.rs", "derived.rs", "other.rs"] {
                    let a = std::fs::read_to_string(out1.join(f)).ok();
                    let b = std::fs::read_to_string(fresh.join(f)).ok();
                    if a != b || a.is_none() {
                        out.push(Fail { family: "fs", input: input.clone(), ptr: 8, expected: format!("{f} of the second build identical to a build into an empty directory"), actual: first_diff(a.as_ref(), b.as_ref()) });
                    }
                }
            }
            (a, b, c) => { if prop == "C14" { out.push(Fail { family: "fs", input, ptr: 8, expected: "three accepted builds".into(), actual: format!("{:?} {:?} {:?}", a.map(|r| r.map_err(|e| format!("{e:#}"))).map_err(|_| "PANIC"), b.map(|r| r.map_err(|e| format!("{e:#}"))).map_err(|_| "PANIC"), c.map(|r| r.map_err(|e| format!("{e:#}"))).map_err(|_| "PANIC")) }); } }
        }
        let _ = std::fs::remove_dir_all(&base);
    }
    let _ = std::fs::remove_dir_all(&root);
    n
}

// ------------------------------------------------------------------------------------------------ mutated sources (C12): "token soup, grammar-directed mutations of valid files, boundary integers in every numeric position"
fn mutation_family(seed: u64, quick: bool, out: &mut Vec<Fail>) -> usize {
    fn tokens(s: &str) -> Vec<String> {
        let mut v = vec![];
        let mut cur = String::new();
        for c in s.chars() {
            if c.is_alphanumeric() || c == '_' { cur.push(c); continue; }
            if !cur.is_empty() { v.push(std::mem::take(&mut cur)); }
            if !c.is_whitespace() { v.push(c.to_string()); } else if c == '\n' { v.push("\n".into()); }
        }
        if !cur.is_empty() { v.push(cur); }
        v
    }
    let pool: Vec<&str> = vec!["pub", "type", "enum", "impl", "fn", "vftable", "extern", "use", "backend", "prologue", "epilogue", "unknown", "self", "mut", "const", "&", "*", "<", ">", "[", "]", "{", "}", "(", ")", "#", "!", ",", ";", ":", "::", "->", "=", "-",
        // integers: small boundaries, and values the parser itself rejects; nothing in between, because a huge *accepted*
        // vftable size / index legitimately asks for a table of that size (C12 allows memory proportional to it)
        "0", "1", "-1", "255", "256", "65535", "65536", "9223372036854775808", "18446744073709551615", "18446744073709551616", "0x", "0xFFFFFFFFFFFFFFFFF", "1_000", "1e9", "0b101", "0o7",
        "u8", "u64", "u128", "void", "bool", "f32", "T", "Self", "r#type", "\"str\"", "r#\"raw\"#", "'a", "///", "//!", "/*", "*/", "size", "align", "address", "index", "base", "packed", "singleton", "copyable", "defaultable", "default", "calling_convention", "\u{0}", "é", "𝓍"];
    let mut rng = 0x9E3779B97F4A7C15u64 ^ seed.wrapping_mul(0xD1B54A32D192ED03);
    let mut next = move || { rng ^= rng << 13; rng ^= rng >> 7; rng ^= rng << 17; rng };
    let sources: Vec<String> = emit_corpus::corpus().into_iter().flat_map(|(_, m)| m.into_iter().map(|(_, s)| s)).collect();
    let per = if quick { 4 } else { 120 };
    let mut n = 0;
    for src in &sources {
        let toks = tokens(src);
        if toks.is_empty() { continue; }
        for _ in 0..per {
            let mut t = toks.clone();
            for _ in 0..(1 + next() % 3) {
                let i = (next() as usize) % t.len();
                match next() % 5 {
                    0 => { t.remove(i); if t.is_empty() { t.push(";".into()); } }
                    1 => { let x = t[i].clone(); t.insert(i, x); }
                    2 => { if i + 1 < t.len() { t.swap(i, i + 1); } }
                    3 => { t[i] = pool[(next() as usize) % pool.len()].to_string(); }
                    _ => { t.insert(i, pool[(next() as usize) % pool.len()].to_string()); }
                }
            }
            let m = t.join(" ");
            let ptr = if next() % 2 == 0 { 4 } else { 8 };
            let m2 = m.clone();
            let (tx, rx) = std::sync::mpsc::channel();
            std::thread::spawn(move || { let o = build_one(&m2, ptr); let _ = tx.send(o.tag()); });
            n += 1;
            match rx.recv_timeout(std::time::Duration::from_secs(10)) {
                Ok(tag) => { if tag.starts_with("PANIC") { out.push(Fail { family: "mutation", input: m.clone(), ptr, expected: "Ok or Err".into(), actual: tag }); } }
                Err(_) => out.push(Fail { family: "mutation", input: m.clone(), ptr, expected: "a result within 10 s".into(), actual: "no result (hang)".into() }),
            }
            if out.len() > 5 { return n; }
        }
    }
    n
}

// ------------------------------------------------------------------------------------------------ backend blocks that are not Rust (C12)
/// a `backend rust` prologue / epilogue that is not valid Rust makes `write_module` report an error (the text is emitted as it is and
/// the parse error is quoted with its position): an error value, never a panic - also with non-ASCII text and very long lines
fn bad_backend_family(out: &mut Vec<Fail>) -> usize {
    let long_ascii = "x".repeat(300);
    let long_cyr = "Ж".repeat(120);
    let long_jp = "型".repeat(90);
    let blocks: Vec<String> = vec![
        "fn ( {".into(),
        format!("const A: u32 = {long_ascii} {long_ascii} );"),
        format!("const Ж{long_cyr}: = \"{long_cyr}\" ;; }}"),
        format!("// ok\nlet {long_jp} = 「{long_jp}」 {long_jp} ;"),
        format!("/* {long_cyr} */ struct {{ {long_jp} }} {long_ascii}é{long_ascii} )"),
        "\u{1F600} \u{1F600} fn".into(),
    ];
    let mut n = 0;
    let dir = scratch_dir().join("badbackend");
    for b in &blocks {
        for kind in ["prologue", "epilogue"] {
            let src = format!("backend rust {kind} r#\"\n{b}\n\"#;\npub type T {{ pub a: u32 }}\n");
            let mods = vec![("m", src.clone())];
            n += 1;
            match build_modules(&mods, 8) {
                Outcome::Ok(st) => {
                    let _ = std::fs::remove_dir_all(&dir);
                    let _ = std::fs::create_dir_all(&dir);
                    for (key, module) in st.modules() {
                        let r = catch_unwind(AssertUnwindSafe(|| pyxis::backends::rust::write_module(&dir, key, &st, module)));
                        if r.is_err() { out.push(Fail { family: "bad-backend", input: src.clone(), ptr: 8, expected: "write_module returns Ok or Err".into(), actual: "PANIC in write_module".into() }); }
                    }
                }
                Outcome::Panic(m) => out.push(Fail { family: "bad-backend", input: src.clone(), ptr: 8, expected: "Ok or Err".into(), actual: format!("PANIC({m})") }),
                Outcome::Err(_) => {}
            }
        }
    }
    let _ = std::fs::remove_dir_all(&dir);
    n
}

fn run_family(prop: &str, seed: u64, quick: bool, out: &mut Vec<Fail>) -> usize {
    let mut n = 0;
    // hangs and panics first: once a few inputs are known to hang there is no point in paying ten seconds each for more
    if ["C12", "C03"].contains(&prop) && shard_family(0) { n += absurd_family(out); }
    if prop == "C12" && out.len() >= 3 { return n; }
    if (EMIT_PROPS.contains(&prop) || prop == "C12") && shard_family(1) { n += fs_family(prop, out); }
    if prop == "C12" && shard_family(2) { n += mutation_family(seed, quick, out); }
    if prop == "C12" && shard_family(3) { n += bad_backend_family(out); }
    if prop == "C12" && out.len() >= 3 { return n; }
    if EMIT_PROPS.contains(&prop) {
        // the backend check also runs on every k-th input the other families find accepted
        EMIT_SAMPLE.with(|c| { let mut c = c.borrow_mut(); c.0 = if quick { 97 } else { 13 }; c.1 = seed as usize % 7; });
        n += emit_family(prop, seed, quick, out);   // corpus and pairs in one shard, generated programs split case by case
    }
    if ["C01", "C02", "C03", "C12"].contains(&prop) { n += layout_family(seed, quick, prop, out); }   // split case by case
    if ["C04", "C16", "C02", "C12", "C14", "C06", "C20"].contains(&prop) && shard_family(4) { n += vft_family(prop, out); }
    if ["C08", "C02", "C15", "C17", "C12", "C20"].contains(&prop) && shard_family(5) { n += enum_family(seed, quick, prop, out); }
    if ["C05", "C16", "C17", "C10", "C12"].contains(&prop) && shard_family(6) { n += fn_family(prop, out); }
    if ["C06", "C16", "C12"].contains(&prop) && shard_family(7) { n += inherit_family(if prop == "C16" { "C06" } else { prop }, out); }
    if ["C05", "C07", "C10", "C11", "C14", "C15", "C17", "C19", "C20", "C12"].contains(&prop) && shard_family(8) { n += misc_family(prop, out); }
    if ["C11", "C19", "C10"].contains(&prop) { n += scope::scope_family(prop, quick, out); }   // split case by case
    let sampled = EMIT_SAMPLE.with(|c| { let mut c = c.borrow_mut(); c.0 = 0; std::mem::take(&mut c.2) });
    for (input, ptr, x) in &sampled { emit_fail(out, prop, input.clone(), *ptr, x); }
    n
}

trait DbgPaths { fn resolved_paths_dbg(&self) -> Vec<String>; }
impl DbgPaths for pyxis::semantic::TypeRegistry {
    /// debug rendering of every user item (used to compare two builds structurally)
    fn resolved_paths_dbg(&self) -> Vec<String> {
        let mut v = vec![];
        for name in ["T", "TVftable", "E", "A", "B"] {
            if let Some(d) = self.get(&ItemPath::from(format!("m::{name}").as_str())) { v.push(format!("{d:?}")); }
        }
        v
    }
}

fn main() {
    let a: Vec<String> = std::env::args().collect();
    std::panic::set_hook(Box::new(|_| {}));
    match a.get(1).map(|s| s.as_str()) {
        Some("witness") => {
            let prop = a.get(2).expect("prop");
            let seed = a.get(3).and_then(|s| s.parse().ok()).unwrap_or(0u64);
            let quick = a.get(4).map(|s| s == "quick").unwrap_or(false);
            let mut out = vec![];
            let n = run_family(prop, seed, quick, &mut out);
            for f in out.iter().take(25) {
                println!("{{\"prop\":\"{}\",\"family\":\"{}\",\"ptr\":{},\"input\":\"{}\",\"expected\":\"{}\",\"actual\":\"{}\"}}", prop, f.family, f.ptr, esc(&f.input), esc(&f.expected), esc(&f.actual));
            }
            let (distinct, parsed, samples) = DISTINCT.with(|d| { let d = d.borrow(); (d.0.len(), d.1, d.2.clone()) });
            println!("{{\"cases\":{},\"failures\":{},\"emitted_files_checked\":{},\"distinct_inputs\":{},\"distinct_inputs_that_parse\":{},\"samples\":[{}]}}", n, out.len(), emit::EMITTED_FILES.load(std::sync::atomic::Ordering::Relaxed), distinct, parsed,
                samples.iter().map(|x| format!("\"{}\"", esc(x))).collect::<Vec<_>>().join(","));
        }
        Some("run") => {
            let src = std::fs::read_to_string(a.get(2).expect("file")).expect("read");
            let ptr = a.get(3).and_then(|s| s.parse().ok()).unwrap_or(8usize);
            let o = build_one(&src, ptr);
            println!("{}", o.tag());
            if let Outcome::Ok(st) = &o {
                for name in ["T", "TVftable", "E", "Derived", "Base"] {
                    if let Some(d) = st.type_registry().get(&ItemPath::from(format!("m::{name}").as_str())) { println!("{d:#?}"); }
                }
            }
        }
        Some("gen") => {
            // print generated program <index> for <ptr> (and its outcome)
            let idx = a.get(2).and_then(|s| s.parse().ok()).unwrap_or(0u64);
            let ptr = a.get(3).and_then(|s| s.parse().ok()).unwrap_or(8usize);
            let seed = a.get(4).and_then(|s| s.parse().ok()).unwrap_or(0u64);
            let mods = gen::program(seed, idx, ptr);
            println!("{}", join_sources(&mods));
            println!("// outcome: {}", build_modules(&mods, ptr).tag());
        }
        Some("genstats") => {
            let mut acc = 0; let mut errs: std::collections::BTreeMap<String, usize> = Default::default();
            let total = 2000;
            for i in 0..total { let ptr = if i % 2 == 0 { 4 } else { 8 }; match build_modules(&gen::program(0, i as u64, ptr), ptr) { Outcome::Ok(_) => acc += 1, o => { let t = o.tag(); *errs.entry(t.split('`').next().unwrap_or("").chars().take(60).collect()).or_default() += 1; } } }
            println!("accepted {acc} / {total}");
            for (k, v) in errs { println!("  {v:5} {k}"); }
        }
        Some("corpus") => {
            for ptr in [4usize, 8] {
                for (label, mods) in emit_corpus::corpus() {
                    println!("{ptr} {label}: {}", build_modules(&mods, ptr).tag());
                }
                for (what, a, b) in emit_corpus::equivalent_pairs() {
                    println!("{ptr} C20 {what}: {} / {}", build_one(&a, ptr).tag(), build_one(&b, ptr).tag());
                }
                for (what, _, a, b) in emit_corpus::unrelated_pairs() {
                    println!("{ptr} C19 {what}: {} / {}", build_modules(&a, ptr).tag(), build_modules(&b, ptr).tag());
                }
            }
        }
        Some("buildfs") => {
            // pyxis::build on a directory tree: outcome and the files written
            let ind = std::path::PathBuf::from(a.get(2).expect("in_dir"));
            let outd = std::path::PathBuf::from(a.get(3).expect("out_dir"));
            let ptr = a.get(4).and_then(|s| s.parse().ok()).unwrap_or(8usize);
            let r = catch_unwind(AssertUnwindSafe(|| pyxis::build(&ind, &outd, ptr)));
            match r { Ok(Ok(())) => println!("OK"), Ok(Err(e)) => println!("ERR({e:#})"), Err(_) => println!("PANIC") }
            fn walk(d: &std::path::Path, base: &std::path::Path) { if let Ok(rd) = std::fs::read_dir(d) { for e in rd.flatten() { let p = e.path(); if p.is_dir() { walk(&p, base) } else { println!("  {}", p.strip_prefix(base).unwrap_or(&p).display()) } } } }
            walk(&outd, &outd);
        }
        Some("emit") => {
            // run one input through the real backend, print what it wrote and what the backend check says
            let src = std::fs::read_to_string(a.get(2).expect("file")).expect("read");
            let ptr = a.get(3).and_then(|s| s.parse().ok()).unwrap_or(8usize);
            let mods = vec![("m", src)];
            let o = build_modules(&mods, ptr);
            println!("{}", o.tag());
            if let Outcome::Ok(st) = &o {
                let e = emit_checked(ptr, st, &mods, &scratch_dir());
                for (k, t) in &e.files { println!("// ==== {k}.rs\n{t}"); }
                for x in &e.viols { println!("BACKEND-CHECK {:?} {}", x.props, x.what); }
            }
        }
        _ => eprintln!("usage: replay witness <Cxx> [seed] | run <file> <ptr> | emit <file> <ptr>"),
    }
}
