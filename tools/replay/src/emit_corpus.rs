//! inputs of the bounded backend check (emit.rs): every item kind with every visibility, marker attribute,
//! documentation shape (0..n lines, empty lines first / in the middle / last), addresses above 2^32,
//! discriminants that differ from their position, one-region types, packed / aligned types, vftables with
//! indices, sizes and conventions, inheritance with forwarded and renamed functions, a base type occurring
//! twice, nested module paths with imports, prologues / epilogues of several backends.

pub type Mods = Vec<(&'static str, String)>;

pub fn corpus() -> Vec<(&'static str, Mods)> {
    let mut c: Vec<(&'static str, Mods)> = vec![];
    c.push(("kitchen-sink", vec![("m", r##"
//! Module docs line 1
//!
//! line 3
backend rust prologue r#"
    use std::ffi::CString;
    const PRO_A: u32 = 1;
"#;
backend cpp prologue r#"
    const CPP_ONLY: u32 = 9;
"#;
backend rust {
    prologue r#"const PRO_B: u32 = 2;"#;
    epilogue r#"const EPI_A: u32 = 3;"#;
}
backend cpp epilogue r#"
    const CPP_EPI: u32 = 10;
"#;
backend rust epilogue r#"
    const EPI_B: u32 = 4;
    fn epi_fn() {}
"#;

#[size(8), align(4)]
extern type Ext;

#[address(0x1234)]
pub extern counter: u32;
#[address(0x123456789)]
extern hidden: *mut Plain;
#[address(0x20)]
pub extern ext_ptr: *const Ext;

/// Plain docs
///
/// after an empty line
#[copyable, align(8)]
pub type Plain {
    /// field a
    pub a: u32,
    b: u16,
    #[address(8)]
    pub c: u64,
    pub e: Ext,
}

#[cloneable, defaultable]
type Priv {
    a: u8,
}

#[packed]
pub type Packed {
    pub a: u8,
    pub b: u32,
}

#[align(16)]
pub type Aligned {
    pub a: u64,
    _: unknown<8>,
}

#[size(0x20), singleton(0x140001000)]
pub type Single {
    pub p: *mut Plain,
    pub arr: [u16; 4],
}

#[singleton(0x77)]
type PrivSingle {
    v: *const void,
}

pub type OneRegion {
    pub only: u64,
}

type Empty {
}
"##.to_string())]));

    c.push(("docs", vec![("m", r##"
///
/// leading empty line
pub type LeadingEmpty {
    ///
    /// field with leading empty line
    pub a: u32,
}
/// trailing empty line
///
pub type TrailingEmpty {
    /// f
    ///
    pub a: u32,
}
///
pub type OnlyEmpty {
    pub a: u32,
}
/// one
/// two
/// three
pub enum Three: u32 {
    A,
}
///
///
/// two leading empties
enum TwoLeading: u8 {
    A,
}
pub type Undocumented {
    pub a: u32,
}
pub type Fns {
    vftable {
        ///
        /// slot with leading empty
        pub fn v(&self);
        /// slot trailing
        ///
        pub fn w(&self);
    },
}
impl Fns {
    /// wrapper line 1
    ///
    /// wrapper line 3
    #[address(0x10)]
    pub fn f(&self);
    ///
    #[address(0x20)]
    pub fn g(&self);
}
"##.to_string())]));

    c.push(("module-doc-trailing-empty", vec![("m", "//! first\n//!\npub type T { pub a: u32 }\n".to_string())]));
    c.push(("module-doc-only-empty", vec![("m", "//!\npub type T { pub a: u32 }\n".to_string())]));
    c.push(("module-doc-leading-empty", vec![("m", "//!\n//! second\npub type T { pub a: u32 }\n".to_string())]));

    c.push(("functions", vec![("m", r##"
pub type Obj {
    pub x: u32,
}
impl Obj {
    /// does f
    /// second line
    #[address(0x401000)]
    pub fn f(&self, a: u32, b: *const Obj) -> u32;
    #[address(0x100000000)]
    fn g(&mut self);
    #[address(0x7FFFFFFF00000010)]
    pub fn high(&mut self, z: [u8; 4]) -> *mut Obj;
    #[address(0x402000), calling_convention("cdecl")]
    pub fn stat(a: u64, b: u8) -> *mut Obj;
    #[address(0x403000)]
    pub fn _internal(&self);
    #[address(0x404000), calling_convention("fastcall")]
    pub fn fast(&self, first: u8, second: u16, third: u32, fourth: u64);
    #[address(0x405000), calling_convention("vectorcall")]
    fn nothing();
    #[address(0x406000), calling_convention("C")]
    pub fn cfn(p: *const void) -> *mut void;
    #[address(0x407000), calling_convention("stdcall")]
    pub fn sfn(&self) -> bool;
    #[address(0x408000), calling_convention("system")]
    pub fn sysfn(&mut self, a: i8);
    #[address(0x409000), calling_convention("thiscall")]
    pub fn tfn(a: f32) -> f64;
    #[address(0x40a000)]
    pub fn shadow(&self, f: u32, this: u32, address: u64) -> u32;
}
"##.to_string())]));

    c.push(("vftable", vec![("m", r##"
pub type V {
    #[size(7)]
    vftable {
        /// slot doc
        pub fn a(&self, x: u32) -> u32;
        #[index(3)]
        fn b(&mut self, p: *const V);
        #[calling_convention("stdcall")]
        pub fn c(&self) -> *const u8;
        pub fn vshadow(&self, f: u32, this: *const V) -> u32;
    },
    pub data: u32,
    pub data2: u32,
}
type W {
    vftable {
        pub fn only(&mut self, a: u8, b: u16, c: *mut W) -> *mut W;
    },
}
pub type NoFields {
    vftable {
        #[index(1)]
        pub fn late(&self);
    },
}
"##.to_string())]));

    c.push(("enums", vec![("m", r##"
/// E docs
#[copyable, defaultable, singleton(0x5000)]
pub enum E: u16 {
    A = 5,
    B = 1,
    #[default]
    C,
    D = 0x10,
}
enum F: i32 {
    X = -2,
    Y,
    Z,
}
#[cloneable]
pub enum G: u8 {
    Only,
}
pub enum H: u64 {
    Big = 0x1_0000_0000,
    Next,
    Zero = 0,
    One,
}
#[defaultable]
enum D: i8 {
    #[default]
    First = 1,
    Second = 0,
}
#[singleton(0x100000000)]
enum Hid: u32 {
    A = 2,
    B = 1,
    C = 0,
}
"##.to_string())]));

    c.push(("inheritance", vec![("m", r##"
pub type Base {
    vftable {
        /// base slot
        pub fn bf(&self) -> u32;
    },
    pub bx: u32,
    by: u32,
}
impl Base {
    /// helper docs
    #[address(0x1000)]
    pub fn helper(&self, k: u32) -> u32;
    #[address(0x1100)]
    pub fn same(&self);
    #[address(0x1200)]
    fn private_helper(&self);
    #[address(0x1300)]
    pub fn stat(a: u32, b: u64) -> u64;
}
pub type Other {
    vftable {
        /// other slot
        pub fn of(&self, a: u8);
        fn private_slot(&self);
        /// virtual on the second base whose name is taken by Base::helper
        pub fn helper(&self, k: u32) -> u32;
    },
    pub ox: u32,
    pub oy: u32,
}
impl Other {
    #[address(0x2000)]
    pub fn same(&self);
    #[address(0x2100)]
    pub fn other_assoc(&mut self, a: *const Other, b: u16) -> *const Other;
}
pub type Derived {
    #[base]
    pub base: Base,
    #[base]
    pub other: Other,
    pub own: u32,
    own2: u32,
}
impl Derived {
    #[address(0x3000)]
    pub fn derived_fn(&mut self, a: u32) -> u32;
}
#[align(8)]
pub type Deeper {
    #[base]
    pub d: Derived,
    pub tail: u64,
}
pub type DerivedOwn {
    vftable {
        /// base slot
        pub fn bf(&self) -> u32;
        pub fn extra(&mut self, a: u32);
    },
    #[base]
    pub base: Base,
}
"##.to_string())]));

    c.push(("backend-comments", vec![("m", r##"
backend rust prologue r#"
    const P1: u32 = 1; // a trailing line comment
"#;
backend rust prologue r#"
    pub const P2: u32 = 2;
"#;
backend other prologue r#"
    pub const NOT_RUST: u32 = 0;
"#;
backend rust epilogue r#"
    const E1: u32 = 1;
    // end of the first epilogue
"#;
backend rust epilogue r#"
    pub const E2: u32 = 2;
"#;
pub type T {
    pub a: u32,
}
"##.to_string())]));

    c.push(("raw-identifiers", vec![("m", r##"
#[address(0x10)]
pub extern r#static: u32;
pub type r#struct {
    pub r#type: u32,
}
impl r#struct {
    #[address(0x20)]
    pub fn r#fn(&self, r#in: u32) -> u32;
}
#[copyable]
pub enum r#enum: u32 {
    r#match,
    B,
}
pub type r#fn {
    vftable {
        pub fn r#loop(&self);
    },
}
pub type M1 {
    #[base]
    pub r#type: r#struct,
}
pub type M2 {
    #[base]
    pub r#type: r#struct,
}
pub type r#loop {
    #[base]
    pub r#if: M1,
    #[base]
    pub r#else: M2,
}
"##.to_string())]));

    c.push(("deep-diamond", vec![("m", r##"
pub type Root {
    pub r: u32,
}
#[align(4)]
pub type Mid {
    #[base]
    pub root: Root,
    pub m: u32,
}
#[align(4)]
pub type Left {
    #[base]
    pub mid: Mid,
    pub l: u32,
}
#[align(4)]
pub type Right {
    #[base]
    pub mid: Mid,
    pub r: u32,
}
#[align(4)]
pub type Bottom {
    #[base]
    pub left: Left,
    #[base]
    pub right: Right,
}
pub type Core {
    pub c: u32,
}
pub type Inner {
    #[base]
    pub core: Core,
}
pub type Wrapped {
    #[base]
    pub inner: Inner,
}
#[align(4)]
pub type Leaf {
    #[base]
    pub wrapped: Wrapped,
    #[base]
    pub inner: Inner,
}
#[align(4)]
pub type Chain3 {
    #[base]
    pub wrapped: Wrapped,
    pub tail: u32,
}
"##.to_string())]));

    c.push(("base-placement", vec![("m", r##"
pub type Base {
    pub bx: u64,
}
pub type BaseV {
    vftable {
        pub fn bv(&self);
    },
}
#[align(8)]
pub type BaseAfterField {
    pub tag: u64,
    #[base]
    pub base: Base,
    pub tail: u64,
}
#[align(8)]
pub type BasesAtAddresses {
    #[base]
    pub base_a: Base,
    #[base]
    #[address(0x10)]
    pub base_b: Base,
    #[address(0x20)]
    pub last: u64,
}
#[align(8)]
pub type OwnVftableBaseWithout {
    vftable {
        pub fn own(&self);
    },
    #[address(8)]
    #[base]
    pub base: Base,
    pub y: u64,
}
pub type VftableBaseSecond {
    pub tag: *const u8,
    #[base]
    pub base: BaseV,
}
"##.to_string())]));

    c.push(("diamond", vec![("m", r##"
pub type Root {
    pub r: u32,
}
impl Root {
    #[address(0x10)]
    pub fn root_fn(&self);
}
pub type Mid1 {
    #[base]
    pub root: Root,
    pub m1: u32,
}
pub type Mid2 {
    #[base]
    pub root: Root,
    pub m2: u32,
}
pub type Twice {
    #[base]
    pub a: Mid1,
    #[base]
    pub b: Mid2,
}
"##.to_string())]));

    c.push(("modules", vec![
        ("a::types", r##"
//! types of a
pub type T {
    pub v: u32,
}
#[copyable]
pub enum Kind: u8 {
    K0,
    K1,
}
"##.to_string()),
        ("b", r##"
use a::types::T;
use a::types::Kind;
#[address(0x99)]
pub extern the_u: *mut U;
pub type U {
    pub p: *const T,
    pub pp: *mut *const T,
    pub t: T,
    pub arr: [T; 3],
    pub k: Kind,
    _: unknown<7>,
}
impl U {
    #[address(0x500)]
    pub fn take(&self, t: *const T, k: Kind) -> *mut T;
}
"##.to_string()),
        ("c::d::e", r##"
use b::U;
pub type Deep {
    vftable {
        pub fn get_u(&self) -> *const U;
    },
    pub u: U,
}
"##.to_string()),
    ]));

    // a module nested below another one that has items of its own (the child's items belong to the child's file only)
    c.push(("nested-modules", vec![
        ("gfx", "pub type Plain {\n    pub a: u32,\n}\n#[address(0x10)]\npub extern gfx_value: u32;\n".to_string()),
        ("gfx::detail", "pub type Inner {\n    vftable {\n        pub fn f(&self);\n    },\n}\npub enum Kind: u8 {\n    A,\n}\n#[address(0x20)]\npub extern detail_value: u32;\n".to_string()),
        ("gfx::detail::deeper", "use gfx::Plain;\npub type Deep {\n    pub p: Plain,\n}\n".to_string()),
        ("gfx2", "pub type Other {\n    pub a: u8,\n}\n".to_string()),
    ]));
    // a packed type whose fields are all naturally aligned still has alignment 1
    // a module that declares nothing but extern values: it still gets a file with its accessors (C15, C14)
    c.push(("externs-only-module", vec![
        ("a", "pub type A { pub a: u32 }\n".into()),
        ("globals", "use a::A;\n#[address(0x1000)]\npub extern counter: u32;\n#[address(0x100002000)]\npub extern first: *mut A;\n".into()),
    ]));
    // generated padding longer than 32 bytes (not a multiple of 32, above 1024) in defaultable and other types: the padding
    // field has exactly the resolved length, whatever derives are requested (C01, C02)
    c.push(("long-padding", vec![("m", r##"
#[defaultable, align(16), size(0x40)]
pub type Long { pub a: u64, #[address(0x30)] pub b: u64 }
#[defaultable, align(4), size(0x500)]
pub type VeryLong { pub a: u32, #[address(0x42c)] pub b: u32 }
#[copyable, align(2), size(100)]
pub type Tail { pub a: u8, _: unknown<33>, pub b: u16 }
#[align(8)]
pub type Plain { pub a: u64, #[address(0x41)] pub b: u8, #[address(0x90)] pub c: u64 }
"##.into())]));
    // a type that shares the vftable pointer of a first base which is NOT at offset 0 (displaced by a field and an address), also
    // packed, also through an intermediate base that inherits the pointer behind another field (C04, C06)
    c.push(("displaced-first-base", vec![("m", r##"
pub type Root { vftable { pub fn f(&self) -> u32; pub fn g(&mut self, a: u32); }, pub r: u32, _: unknown<4> }
pub type Tagged { pub tag: u32, #[address(8)] #[base] pub base: Root }
pub type Addressed { #[address(0x10)] #[base] pub base: Root }
pub type Mid { pub tag: u32, #[address(8)] #[base] pub root: Root }
#[packed]
pub type Leaf { #[base] pub mid: Mid, pub x: u8 }
pub type PlainLeaf { #[base] pub mid: Mid, pub x: u32, _: unknown<4> }
pub type Own { vftable { pub fn f(&self) -> u32; pub fn g(&mut self, a: u32); pub fn h(&self); }, #[base] pub base: Root }
"##.into())]));
    // parameters named like things the wrappers use themselves (`This`, `this`, `self_`, `vftable`, `f`): the wrapper of a virtual
    // function reads the slot of the table of the object it is called on, whatever its parameters are called (seed C04-7)
    c.push(("parameters-named-like-the-receiver", vec![("m", r##"
pub type IStream {
    vftable {
        pub fn CopyTo(&mut self, This: *mut IStream, count: u64) -> u32;
        pub fn Peek(&self, this: *const IStream, vftable: u32) -> u32;
        #[calling_convention("stdcall")]
        pub fn Seek(&mut self, self_: *mut IStream, f: u32);
    },
    pub pos: u32,
    _: unknown<4>,
}
impl IStream {
    #[address(0x401000)]
    pub fn open(This: *mut IStream, this: u32) -> u32;
    #[address(0x401010)]
    pub fn close(&mut self, This: *mut IStream, vftable: *const IStream);
}
"##.into())]));
    c.push(("packed-aligned", vec![("m", "#[packed]\npub type PackedAligned {\n    pub a: u32,\n    pub b: u32,\n}\n#[packed]\npub type PackedPointer {\n    pub p: *const u8,\n    pub xs: [u16; 4],\n}\npub type Holder {\n    pub tag: u8,\n    pub inner: PackedAligned,\n    _: unknown<7>,\n    pub q: *const u8,\n    pub r: *const u8,\n}\n".to_string())]));
    // a user type named like a built-in, imported by name (the import outranks the built-in)
    c.push(("import-named-like-builtin", vec![
        ("ffi", "#[align(4)]\npub type void {\n    pub raw: [u8; 20],\n}\npub type u32x {\n    pub a: u32,\n}\n".to_string()),
        ("app::win", "use ffi::void;\n#[align(8)]\npub type W {\n    vftable {\n        pub fn get(&self, v: *const void) -> *mut void;\n    },\n    #[address(8)]\n    pub by_value: void,\n    _: unknown<4>,\n    pub ptr: *const void,\n    pub pad: *const void,\n    pub arr: [void; 2],\n}\nimpl W {\n    #[address(0x10)]\n    pub fn take(&self, a: *mut void) -> *const void;\n}\n".to_string()),
        ("app::plain", "pub type P {\n    pub ptr: *const void,\n    pub ptr2: *mut void,\n}\n".to_string()),
    ]));
    // marker-attribute subsets x visibility on a struct and an enum
    for cp in [false, true] {
        for cl in [false, true] {
            for df in [false, true] {
                for vis in ["pub ", ""] {
                    let mut attrs = vec![];
                    if cp { attrs.push("copyable"); }
                    if cl { attrs.push("cloneable"); }
                    if df { attrs.push("defaultable"); }
                    let a = if attrs.is_empty() { String::new() } else { format!("#[{}]\n", attrs.join(", ")) };
                    let d = if df { "#[default]\n    " } else { "" };
                    let src = format!("{a}{vis}type T {{\n    {vis}a: u32,\n    b: u8,\n    _: unknown<3>,\n}}\n{a}{vis}enum E: u32 {{\n    {d}A = 3,\n    B,\n}}\n");
                    c.push(("markers", vec![("m", src)]));
                }
            }
        }
    }
    // packed / align variants
    for (attr, body) in [("#[packed]", "a: u8, b: u64"), ("#[align(8)]", "a: u32, b: u32"), ("", "a: u16"), ("#[align(2)]", "a: u8, b: u8"), ("#[packed, size(9)]", "a: u64, b: u8"), ("#[align(32), size(32)]", "a: u64")] {
        c.push(("packing", vec![("m", format!("{attr}\npub type T {{ {body} }}\n"))]));
    }
    c
}

/// C20: pairs of descriptions that say the same thing; the output must be byte-identical
pub fn equivalent_pairs() -> Vec<(&'static str, String, String)> {
    vec![
        // "reordering the type definitions of a module": also when two names differ only in case (seed C20-7: a case-insensitive sort
        // key in write_module leaves such items in hash order / declaration order)
        ("reordered definitions whose names differ only in case",
         "#[align(4)] pub type RGBA { pub v: u32 }\n#[align(4)] pub type Rgba { pub r: u8, pub g: u8, pub b: u8, pub a: u8 }\n#[align(4)] pub type rgba { pub w: u32, pub x: u32 }\n#[address(0x100)] pub extern HANDLE: u32;\n#[address(0x200)] pub extern Handle: u32;\n#[address(0x300)] pub extern handle: u32;\n".into(),
         "#[address(0x300)] pub extern handle: u32;\n#[address(0x200)] pub extern Handle: u32;\n#[align(4)] pub type rgba { pub w: u32, pub x: u32 }\n#[address(0x100)] pub extern HANDLE: u32;\n#[align(4)] pub type Rgba { pub r: u8, pub g: u8, pub b: u8, pub a: u8 }\n#[align(4)] pub type RGBA { pub v: u32 }\n".into()),
        ("explicit address the field already had",
         "#[align(8)] pub type T { pub a: u64, pub b: u64 }".into(), "#[align(8)] pub type T { pub a: u64, #[address(8)] pub b: u64 }".into()),
        ("explicit address on every field",
         "#[align(4)] pub type T { pub a: u32, pub b: u32, pub c: u32 }".into(), "#[align(4)] pub type T { #[address(0)] pub a: u32, #[address(4)] pub b: u32, #[address(8)] pub c: u32 }".into()),
        ("unknown<N> gap vs address on the following field",
         "#[align(8)] pub type T { pub a: u32, _: unknown<12>, pub b: u64 }".into(), "#[align(8)] pub type T { pub a: u32, #[address(16)] pub b: u64 }".into()),
        ("size attribute equal to the natural size",
         "#[align(8)] pub type T { pub a: u64, pub b: u64 }".into(), "#[size(16), align(8)] pub type T { pub a: u64, pub b: u64 }".into()),
        ("index the virtual function already had",
         "pub type T { vftable { pub fn a(&self); pub fn b(&self); pub fn c(&self); }, }".into(),
         "pub type T { vftable { #[index(0)] pub fn a(&self); pub fn b(&self); #[index(2)] pub fn c(&self); }, }".into()),
        ("vftable size equal to the number of functions",
         "pub type T { vftable { pub fn a(&self); pub fn b(&self); }, }".into(),
         "pub type T { #[size(2)] vftable { pub fn a(&self); pub fn b(&self); }, }".into()),
        ("enum value equal to the implicit one",
         "pub enum E: u32 { A, B, C = 7, D }".into(), "pub enum E: u32 { A = 0, B = 1, C = 7, D = 8 }".into()),
        ("number in another base",
         "#[size(32)] pub type T { #[address(16)] pub a: [u8; 16] }\npub enum E: u16 { A = 255 }".into(),
         "#[size(0x20)] pub type T { #[address(0x10)] pub a: [u8; 0x10] }\npub enum E: u16 { A = 0xFF }".into()),
        ("every numeric position in another base (hex / binary / octal / separators / suffix-free)",
         "#[size(64), align(16), singleton(4096)] pub type T { vftable { #[index(2)] pub fn f(&self); }, #[address(16)] pub a: [u8; 10], _: unknown<6>, #[address(32)] pub b: u64 }\nimpl T { #[address(65536)] pub fn g(&self); }\n#[singleton(255)] pub enum E: i32 { A = -2, B = 31, C }\n#[address(1024)] pub extern x: u32;\n#[size(8), align(8)] extern type X;".into(),
         "#[size(0x40), align(0b10000), singleton(0x1000)] pub type T { vftable { #[index(0o2)] pub fn f(&self); }, #[address(0x10)] pub a: [u8; 0xA], _: unknown<0b110>, #[address(0o40)] pub b: u64 }\nimpl T { #[address(0x1_0000)] pub fn g(&self); }\n#[singleton(0xFF)] pub enum E: i32 { A = -0x2, B = 0b1_1111, C }\n#[address(0x4_00)] pub extern x: u32;\n#[size(0o10), align(0x8)] extern type X;".into()),
        ("digit separators",
         "#[align(8)] pub type T { #[address(4096)] pub a: u64 }".into(), "#[align(8)] pub type T { #[address(4_096)] pub a: u64 }".into()),
        ("reordered type definitions",
         "pub type A { pub x: u32 }\npub type B { pub p: *const C, pub a: A, pub b: u32 }\npub type C { pub b: B }\npub enum E: u8 { X }".into(),
         "pub enum E: u8 { X }\npub type C { pub b: B }\npub type B { pub p: *const C, pub a: A, pub b: u32 }\npub type A { pub x: u32 }".into()),
        ("reordered definitions with vftables and impls",
         "pub type A { vftable { pub fn f(&self); }, pub x: u32, pub x2: u32 }\nimpl A { #[address(0x10)] pub fn g(&self); }\npub type D { #[base] pub a: A, pub y: u32, pub z: u32 }".into(),
         "pub type D { #[base] pub a: A, pub y: u32, pub z: u32 }\npub type A { vftable { pub fn f(&self); }, pub x: u32, pub x2: u32 }\nimpl A { #[address(0x10)] pub fn g(&self); }".into()),
    ]
}

/// C19: (observed module key, input set 1, input set 2): the sets differ only in modules / types the
/// observed module neither imports nor references; its output file must be byte-identical
pub fn unrelated_pairs() -> Vec<(&'static str, &'static str, Mods, Mods)> {
    let m = "pub type T { pub p: *const T, pub a: u32, pub b: u32 }\nimpl T { #[address(0x10)] pub fn f(&self) -> u32; }\npub enum E: u8 { A, B }\n".to_string();
    let user = "use lib::L;\npub type U { pub p: *const L, pub l: L, pub pad: u32 }\n".to_string();
    let lib = "pub type L { pub x: u32 }\n".to_string();
    vec![
        ("unrelated module added", "m", vec![("m", m.clone())], vec![("m", m.clone()), ("n", "pub type N { pub x: u64 }\n".to_string())]),
        ("unrelated module changed", "m", vec![("m", m.clone()), ("n", "pub type N { pub x: u64 }\n".to_string())], vec![("m", m.clone()), ("n", "#[align(1)] pub type N { pub x: u8, pub y: u8 }\npub type T { pub z: u8 }\n".to_string())]),
        ("unrelated module with the same type names", "m", vec![("m", m.clone())], vec![("m", m.clone()), ("zz::m", "pub type T { pub q: u8 }\npub enum E: u32 { Z }\n".to_string())]),
        ("unrelated type added to an imported module", "user", vec![("lib", lib.clone()), ("user", user.clone())], vec![("lib", format!("{lib}pub type Extra {{ pub e: u8 }}\n")), ("user", user.clone())]),
        ("unrelated module nested below the observed one", "gfx", vec![("gfx", "pub type Plain { pub a: u32 }\n".to_string())], vec![("gfx", "pub type Plain { pub a: u32 }\n".to_string()), ("gfx::detail", "pub type Inner { pub b: u8 }\npub enum K: u8 { A }\n".to_string())]),
        ("nested unrelated module changed", "gfx", vec![("gfx", "pub type Plain { pub a: u32 }\n".to_string()), ("gfx::detail", "pub type Inner { pub b: u8 }\n".to_string())], vec![("gfx", "pub type Plain { pub a: u32 }\n".to_string()), ("gfx::detail", "pub type Inner2 { pub b: u16 }\n".to_string())]),
        // the built-in `void` is spelled `()` by value and `::std::ffi::c_void` behind a pointer: an unrelated module that uses it in the
        // other role must not change how this module spells it (seed C19-7: a memo in the type printer keyed by the path alone)
        ("unrelated module uses void by value", "handles", vec![("handles", "pub type H { pub p: *mut void, pub q: *const void, pub n: u32, pub m: u32 }\n".to_string())],
            vec![("handles", "pub type H { pub p: *mut void, pub q: *const void, pub n: u32, pub m: u32 }\n".to_string()), ("markers", "#[align(4)]\npub type M { pub v: void, pub x: u32 }\n".to_string())]),
        ("unrelated module uses void behind a pointer", "markers", vec![("markers", "#[align(4)]\npub type M { pub v: void, pub x: u32 }\n".to_string())],
            vec![("handles", "pub type H { pub p: *mut void, pub q: *const void, pub n: u32, pub m: u32 }\n".to_string()), ("markers", "#[align(4)]\npub type M { pub v: void, pub x: u32 }\n".to_string())]),
        ("unrelated module added next to an import", "user", vec![("lib", lib.clone()), ("user", user.clone())], vec![("lib", lib.clone()), ("user", user.clone()), ("aaa", "pub type L { pub other: u8 }\n".to_string())]),
    ]
}
