//! emit: bounded check of the Rust backend (`src/backends/rust.rs`).  The backend builds `proc_macro2`
//! token streams with `quote!`, which is outside what Verus can verify, so this is the *bounded stand-in*
//! for that layer (DESIGN.md 3.7): the real `write_module` is run on accepted inputs, the file it wrote is
//! parsed with syn, and every emitted item is compared, feature by feature, with what the properties say
//! about the emitted counterpart of the resolved item -- the same `ResolvedSemanticState` the Verus contracts
//! of the semantic layer speak about.  Comparisons are on parsed structure (visibility, attribute
//! arguments, literal *values*, types as syn ASTs, call arguments), not on text, so a backend change that
//! keeps the property keeps passing.
use pyxis::grammar::{self, ItemPath};
use pyxis::semantic::types::*;
use pyxis::semantic::{Module, ResolvedSemanticState};
use quote::ToTokens;
use std::collections::{BTreeMap, BTreeSet};
use std::path::{Path, PathBuf};

pub struct Viol {
    pub props: Vec<&'static str>,
    pub what: String,
}
fn v(out: &mut Vec<Viol>, props: &[&'static str], what: String) {
    out.push(Viol { props: props.to_vec(), what });
}

pub fn norm<T: ToTokens>(t: &T) -> String {
    t.to_token_stream().to_string().split_whitespace().collect::<Vec<_>>().join(" ")
}
fn norm_str(s: &str) -> String {
    match s.parse::<proc_macro2::TokenStream>() {
        Ok(t) => norm(&t),
        Err(_) => s.split_whitespace().collect::<Vec<_>>().join(" "),
    }
}

/// C11: "the emitted reference is the fully qualified crate path of exactly that definition"
fn is_void(t: &Type) -> bool {
    matches!(t, Type::Raw(p) if p.len() == 1 && p.last().map(|s| s.as_str()) == Some("void"))
}
fn render_pointee(t: &Type) -> Option<String> {
    // what a pointer points to has no layout consequence; `void` is C's opaque pointee
    if is_void(t) { Some("::std::ffi::c_void".to_string()) } else { render_type(t) }
}
pub fn render_type(t: &Type) -> Option<String> {
    Some(match t {
        Type::Unresolved(_) => return None,
        Type::Raw(p) => {
            let segs: Vec<&str> = p.iter().map(|s| s.as_str()).collect();
            if segs == ["void"] {
                // by value `void` has size 0 and alignment 1 in the registry (C01/C02): the unit type
                "()".to_string()
            } else if segs.len() > 1 {
                format!("crate::{}", segs.join("::"))
            } else {
                segs.join("::")
            }
        }
        Type::ConstPointer(t) => format!("*const {}", render_pointee(t)?),
        Type::MutPointer(t) => format!("*mut {}", render_pointee(t)?),
        Type::Array(t, n) => format!("[{}; {}]", render_type(t)?, n),
        Type::Function(cc, args, ret) => {
            let mut a = vec![];
            for (n, t) in args {
                a.push(format!("{}: {}", n, render_type(t)?));
            }
            let r = match ret {
                Some(r) => format!(" -> {}", render_type(r)?),
                None => String::new(),
            };
            format!("unsafe extern \"{}\" fn({}){}", cc.as_str(), a.join(", "), r)
        }
    })
}
/// canonical text of a type: its syn AST printed token by token, without trailing commas (a formatter may
/// add them when it breaks a line)
fn tykey(t: &syn::Type) -> String {
    norm(t).replace(", )", ")").replace(",)", ")").replace(", >", ">").replace(" )", ")").replace("( ", "(")
}
fn tykey_str(s: &str) -> Option<String> {
    syn::parse_str::<syn::Type>(s).ok().map(|t| tykey(&t))
}
fn type_is(actual: &syn::Type, expected: &str) -> bool {
    tykey_str(expected).as_deref() == Some(tykey(actual).as_str())
}
fn same_type(actual: &syn::Type, expected: &Type) -> Result<(), String> {
    let Some(txt) = render_type(expected) else { return Err("unresolved type in an accepted build".into()) };
    match tykey_str(&txt) {
        Some(e) => {
            if e == tykey(actual) {
                Ok(())
            } else {
                Err(format!("type `{}`, expected `{}`", tykey(actual), e))
            }
        }
        None => Err(format!("expected type `{txt}` is not a Rust type")),
    }
}

fn is_pub(v: &syn::Visibility) -> bool {
    matches!(v, syn::Visibility::Public(_))
}
fn doc_lines(attrs: &[syn::Attribute]) -> Vec<String> {
    let mut out = vec![];
    for a in attrs {
        if !a.path().is_ident("doc") {
            continue;
        }
        if let syn::Meta::NameValue(nv) = &a.meta {
            if let syn::Expr::Lit(syn::ExprLit { lit: syn::Lit::Str(s), .. }) = &nv.value {
                out.push(s.value());
            }
        }
    }
    out
}
/// "doc comments appear, line for line and in order": one doc attribute per written line
fn expected_doc(doc: Option<&str>) -> Vec<String> {
    match doc {
        None => vec![],
        Some(d) => d.split('\n').map(|s| s.to_string()).collect(),
    }
}
fn check_doc(out: &mut Vec<Viol>, what: &str, attrs: &[syn::Attribute], doc: Option<&str>, extra: &[&'static str]) {
    let a = doc_lines(attrs);
    let e = expected_doc(doc);
    if a != e {
        let mut p = vec!["C17"];
        p.extend_from_slice(extra);
        v(out, &p, format!("{what}: doc lines {a:?}, expected {e:?}"));
    }
}
fn derive_set(attrs: &[syn::Attribute]) -> BTreeSet<String> {
    let mut s = BTreeSet::new();
    for a in attrs {
        if a.path().is_ident("derive") {
            let _ = a.parse_nested_meta(|m| {
                if let Some(i) = m.path.get_ident() {
                    s.insert(i.to_string());
                }
                Ok(())
            });
        }
    }
    s
}
#[derive(Default, Debug)]
struct Repr {
    idents: Vec<String>,
    packed: bool,
    align: Option<u128>,
}
fn repr_of(attrs: &[syn::Attribute]) -> Repr {
    let mut r = Repr::default();
    for a in attrs {
        if a.path().is_ident("repr") {
            let _ = a.parse_nested_meta(|m| {
                if m.path.is_ident("packed") {
                    r.packed = true;
                    if m.input.peek(syn::token::Paren) {
                        let c;
                        syn::parenthesized!(c in m.input);
                        let _: syn::LitInt = c.parse()?;
                    }
                } else if m.path.is_ident("align") {
                    let c;
                    syn::parenthesized!(c in m.input);
                    let l: syn::LitInt = c.parse()?;
                    r.align = l.base10_parse::<u128>().ok();
                } else if let Some(i) = m.path.get_ident() {
                    r.idents.push(i.to_string());
                } else {
                    r.idents.push(norm(&m.path));
                }
                Ok(())
            });
        }
    }
    r
}
/// every integer literal in a token stream, by value (so `0x10`, `16` and `0x1_0` are the same)
fn int_literals(ts: proc_macro2::TokenStream, out: &mut Vec<u128>) {
    for t in ts {
        match t {
            proc_macro2::TokenTree::Group(g) => int_literals(g.stream(), out),
            proc_macro2::TokenTree::Literal(l) => {
                if let Ok(li) = syn::parse_str::<syn::LitInt>(&l.to_string()) {
                    if let Ok(n) = li.base10_parse::<u128>() {
                        out.push(n);
                    }
                }
            }
            _ => {}
        }
    }
}
/// integer literals of expressions: every literal except the lengths of array types / repeat expressions
fn value_literals(ts: proc_macro2::TokenStream) -> Vec<u128> {
    let mut all = vec![];
    int_literals(ts.clone(), &mut all);
    let mut lens = vec![];
    array_lengths(ts, &mut lens);
    for l in lens {
        if let Some(p) = all.iter().position(|x| *x == l) {
            all.remove(p);
        }
    }
    all
}
/// the lengths N of every `[X; N]` (array type or repeat expression) in a token stream
fn array_lengths(ts: proc_macro2::TokenStream, out: &mut Vec<u128>) {
    for t in ts {
        if let proc_macro2::TokenTree::Group(g) = t {
            if g.delimiter() == proc_macro2::Delimiter::Bracket {
                let toks: Vec<_> = g.stream().into_iter().collect();
                if toks.len() >= 3 {
                    if let (proc_macro2::TokenTree::Punct(p), proc_macro2::TokenTree::Literal(l)) = (&toks[toks.len() - 2], &toks[toks.len() - 1]) {
                        if p.as_char() == ';' {
                            if let Ok(li) = syn::parse_str::<syn::LitInt>(&l.to_string()) {
                                if let Ok(n) = li.base10_parse::<u128>() {
                                    out.push(n);
                                }
                            }
                        }
                    }
                }
            }
            array_lengths(g.stream(), out);
        }
    }
}

struct FileIndex<'a> {
    structs: BTreeMap<String, Vec<&'a syn::ItemStruct>>,
    enums: BTreeMap<String, Vec<&'a syn::ItemEnum>>,
    fns: BTreeMap<String, Vec<&'a syn::ItemFn>>,
    /// inherent impls by self type name
    inherent: BTreeMap<String, Vec<&'a syn::ItemImpl>>,
    /// trait impls by self type name: (trait path without generics, first generic argument, impl)
    traits: BTreeMap<String, Vec<(String, Option<syn::Type>, &'a syn::ItemImpl)>>,
}
fn self_name(t: &syn::Type) -> Option<String> {
    if let syn::Type::Path(p) = t {
        if p.qself.is_none() {
            return p.path.segments.last().map(|s| s.ident.to_string());
        }
    }
    None
}
fn index(file: &syn::File) -> FileIndex<'_> {
    let mut ix = FileIndex { structs: BTreeMap::new(), enums: BTreeMap::new(), fns: BTreeMap::new(), inherent: BTreeMap::new(), traits: BTreeMap::new() };
    for it in &file.items {
        match it {
            syn::Item::Struct(s) => ix.structs.entry(s.ident.to_string()).or_default().push(s),
            syn::Item::Enum(e) => ix.enums.entry(e.ident.to_string()).or_default().push(e),
            syn::Item::Fn(f) => ix.fns.entry(f.sig.ident.to_string()).or_default().push(f),
            syn::Item::Impl(i) => {
                let Some(n) = self_name(&i.self_ty) else { continue };
                match &i.trait_ {
                    None => ix.inherent.entry(n).or_default().push(i),
                    Some((_, path, _)) => {
                        let last = path.segments.last();
                        let tname = last.map(|s| s.ident.to_string()).unwrap_or_default();
                        let arg = last.and_then(|s| match &s.arguments {
                            syn::PathArguments::AngleBracketed(a) => a.args.iter().find_map(|g| if let syn::GenericArgument::Type(t) = g { Some(t.clone()) } else { None }),
                            _ => None,
                        });
                        ix.traits.entry(n).or_default().push((tname, arg, i));
                    }
                }
            }
            _ => {}
        }
    }
    ix
}

fn methods_of<'a>(ix: &'a FileIndex<'a>, name: &str) -> Vec<&'a syn::ImplItemFn> {
    let mut m = vec![];
    for i in ix.inherent.get(name).map(|v| v.as_slice()).unwrap_or(&[]) {
        for it in &i.items {
            if let syn::ImplItem::Fn(f) = it {
                m.push(f);
            }
        }
    }
    m
}

/// the call that produces a wrapper's result: the last expression of the body (looking through one
/// `unsafe { .. }` block)
fn final_expr(b: &syn::Block) -> Option<&syn::Expr> {
    match b.stmts.last()? {
        syn::Stmt::Expr(e, _) => match e {
            syn::Expr::Unsafe(u) => final_expr(&u.block),
            e => Some(e),
        },
        _ => None,
    }
}
/// every function-pointer type mentioned anywhere in a wrapper body (a `let f: fn..`, a turbofish, a cast), and
/// every name a `let` in the body binds
struct BodyScan {
    bare_fns: Vec<syn::TypeBareFn>,
    locals: Vec<String>,
}
impl<'ast> syn::visit::Visit<'ast> for BodyScan {
    fn visit_type_bare_fn(&mut self, f: &'ast syn::TypeBareFn) {
        self.bare_fns.push(f.clone());
        syn::visit::visit_type_bare_fn(self, f);
    }
    fn visit_local(&mut self, l: &'ast syn::Local) {
        struct Names<'a>(&'a mut Vec<String>);
        impl<'ast, 'a> syn::visit::Visit<'ast> for Names<'a> {
            fn visit_pat_ident(&mut self, p: &'ast syn::PatIdent) {
                self.0.push(p.ident.to_string());
            }
        }
        syn::visit::Visit::visit_pat(&mut Names(&mut self.locals), &l.pat);
        syn::visit::visit_local(self, l);
    }
}
fn scan_body(b: &syn::Block) -> BodyScan {
    let mut s = BodyScan { bare_fns: vec![], locals: vec![] };
    syn::visit::Visit::visit_block(&mut s, b);
    s
}
fn abi_of(f: &syn::TypeBareFn) -> Option<String> {
    f.abi.as_ref().map(|a| a.name.as_ref().map(|n| n.value()).unwrap_or_else(|| "C".into()))
}

/// `virtual_on_base(field, name)`: is `name` a virtual function of the type of base field `field`
fn check_function(out: &mut Vec<Viol>, owner: &str, f: &Function, m: &syn::ImplItemFn, virtual_on_base: &dyn Fn(&str, &str) -> bool) {
    let what = format!("{owner}::{}", f.name);
    if is_pub(&m.vis) != (f.visibility == Visibility::Public) {
        v(out, &["C17"], format!("{what}: emitted {} but declared {:?}", if is_pub(&m.vis) { "pub" } else { "private" }, f.visibility));
    }
    check_doc(out, &what, &m.attrs, f.doc.as_deref(), &[]);
    // ---- signature (C05: "with the declared signature"; C10: no parameter/return type dropped)
    let sig_props: &[&'static str] = match f.body {
        FunctionBody::Address { .. } => &["C05", "C10", "C11"],
        FunctionBody::Vftable { .. } => &["C04", "C10", "C11"],
        FunctionBody::Field { .. } => &["C07", "C10", "C11"],
    };
    let ins: Vec<&syn::FnArg> = m.sig.inputs.iter().collect();
    if ins.len() != f.arguments.len() {
        v(out, sig_props, format!("{what}: {} parameters emitted, {} declared", ins.len(), f.arguments.len()));
    } else {
        for (k, (a, i)) in f.arguments.iter().zip(ins.iter()).enumerate() {
            let ok = match (a, i) {
                (Argument::ConstSelf, syn::FnArg::Receiver(r)) => r.reference.is_some() && r.mutability.is_none() && r.colon_token.is_none(),
                (Argument::MutSelf, syn::FnArg::Receiver(r)) => r.reference.is_some() && r.mutability.is_some() && r.colon_token.is_none(),
                (Argument::Field(n, t), syn::FnArg::Typed(pt)) => {
                    let name_ok = matches!(&*pt.pat, syn::Pat::Ident(pi) if pi.ident == n);
                    match same_type(&pt.ty, t) {
                        Ok(()) => name_ok,
                        Err(e) => {
                            v(out, sig_props, format!("{what}: parameter {k} `{n}`: {e}"));
                            name_ok
                        }
                    }
                }
                _ => false,
            };
            if !ok {
                v(out, sig_props, format!("{what}: parameter {k} emitted as `{}`, declared `{}`", norm(i), a));
            }
        }
    }
    match (&m.sig.output, &f.return_type) {
        (syn::ReturnType::Default, None) => {}
        (syn::ReturnType::Type(_, t), Some(r)) => {
            if let Err(e) = same_type(t, r) {
                v(out, sig_props, format!("{what}: return {e}"));
            }
        }
        (o, r) => v(out, sig_props, format!("{what}: return type emitted `{}`, declared {:?}", norm(o), r.as_ref().map(render_type))),
    }
    // ---- body
    // the arguments the call passes must be the declared parameters: a local of the wrapper body that has the
    // name of a parameter would shadow it
    for l in scan_body(&m.block).locals {
        if f.arguments.iter().any(|a| matches!(a, Argument::Field(n, _) if *n == l)) {
            v(out, sig_props, format!("{what}: the wrapper body binds a local `{l}` that shadows the parameter of the same name; the call does not pass the declared argument"));
        }
    }
    let recv = |a: &Argument| match a {
        Argument::ConstSelf => Some("self as * const Self as _"),
        Argument::MutSelf => Some("self as * mut Self as _"),
        _ => None,
    };
    // the receiver may be spelled `self as *const Self as _`, `.. as *const _`, `.. as *const Self`: what matters is
    // that it is `self` cast to a pointer of the declared mutability
    let same_args = |actual: &[String], expected: &[String]| -> bool {
        actual.len() == expected.len() && actual.iter().zip(expected.iter()).all(|(a, e)| {
            if e.starts_with("self as * const Self") { a.starts_with("self as * const Self") }
            else if e.starts_with("self as * mut Self") { a.starts_with("self as * mut Self") }
            else { a == e }
        })
    };
    let fin = final_expr(&m.block);
    let call_args = |skip_self: bool| -> Vec<String> {
        f.arguments
            .iter()
            .filter(|a| !(skip_self && a.is_self()))
            .map(|a| match a {
                Argument::Field(n, _) => n.clone(),
                a => recv(a).unwrap().to_string(),
            })
            .collect()
    };
    match &f.body {
        FunctionBody::Address { address } => {
            let lits = value_literals(m.block.to_token_stream());
            if lits != vec![*address as u128] {
                v(out, &["C05"], format!("{what}: integer literals in the wrapper body {:x?}, expected exactly the declared address [{:x}]", lits, address));
            }
            let fns = scan_body(&m.block).bare_fns;
            if fns.len() != 1 {
                v(out, &["C05", "C16"], format!("{what}: {} function-pointer types in the wrapper, expected one", fns.len()));
            } else {
                let bf = &fns[0];
                if abi_of(bf).as_deref() != Some(f.calling_convention.as_str()) {
                    v(out, &["C16"], format!("{what}: wrapper calls with ABI {:?}, declared \"{}\"", abi_of(bf), f.calling_convention.as_str()));
                }
                if bf.inputs.len() != f.arguments.len() {
                    v(out, &["C05"], format!("{what}: function pointer takes {} arguments, {} declared", bf.inputs.len(), f.arguments.len()));
                } else {
                    for (k, (a, i)) in f.arguments.iter().zip(bf.inputs.iter()).enumerate() {
                        let exp = match a {
                            Argument::ConstSelf => "*const Self".to_string(),
                            Argument::MutSelf => "*mut Self".to_string(),
                            Argument::Field(_, t) => render_type(t).unwrap_or_default(),
                        };
                        if !type_is(&i.ty, &exp) {
                            v(out, &["C05"], format!("{what}: function pointer argument {k} has type `{}`, expected `{}`", norm(&i.ty), norm_str(&exp)));
                        }
                    }
                }
                match (&bf.output, &f.return_type) {
                    (syn::ReturnType::Default, None) => {}
                    (syn::ReturnType::Type(_, t), Some(r)) => {
                        if let Err(e) = same_type(t, r) {
                            v(out, &["C05"], format!("{what}: function pointer return {e}"));
                        }
                    }
                    _ => v(out, &["C05"], format!("{what}: function pointer return type differs from the declared one")),
                }
            }
            match fin {
                Some(syn::Expr::Call(c)) => {
                    let a: Vec<String> = c.args.iter().map(norm).collect();
                    if !same_args(&a, &call_args(false)) {
                        v(out, &["C05"], format!("{what}: call passes ({}), expected ({})", a.join(", "), call_args(false).join(", ")));
                    }
                }
                _ => v(out, &["C05"], format!("{what}: wrapper does not end in a call")),
            }
        }
        FunctionBody::Vftable { function_name } => {
            let body = norm(&m.block);
            let slot = format!("(* self . vftable ()) . {function_name}");
            if body.matches(&slot).count() != 1 {
                v(out, &["C04"], format!("{what}: wrapper does not read slot `{function_name}` of its vftable exactly once: `{body}`"));
            }
            match fin {
                Some(syn::Expr::Call(c)) => {
                    let a: Vec<String> = c.args.iter().map(norm).collect();
                    if !same_args(&a, &call_args(false)) {
                        v(out, &["C04"], format!("{what}: virtual call passes ({}), expected ({})", a.join(", "), call_args(false).join(", ")));
                    }
                }
                _ => v(out, &["C04"], format!("{what}: wrapper does not end in a call")),
            }
        }
        FunctionBody::Field { .. } if !f.arguments.iter().any(|a| a.is_self()) => {
            v(out, &["C07"], format!("{what}: a function without a receiver is re-exposed through the base field; `self` does not exist in it, so it is not callable on the derived type"));
        }
        FunctionBody::Field { field, function_name } => match fin {
            Some(syn::Expr::MethodCall(c)) => {
                let r = norm(&c.receiver);
                if r != format!("self . {field}") || c.method != function_name {
                    // forwarding a base's virtual function to anything else also breaks the dispatch through its slot
                    let p: &[&'static str] = if virtual_on_base(field, function_name) { &["C07", "C04"] } else { &["C07"] };
                    v(out, p, format!("{what}: forwards to `{r}.{}`, expected `self . {field}.{function_name}`", c.method));
                }
                let a: Vec<String> = c.args.iter().map(norm).collect();
                if a != call_args(true) {
                    v(out, &["C07"], format!("{what}: forwarded call passes ({}), expected ({})", a.join(", "), call_args(true).join(", ")));
                }
            }
            _ => v(out, &["C07"], format!("{what}: forwarder does not end in a method call on the base field")),
        },
    }
}

/// a name as it is embedded in a longer generated identifier (raw prefix dropped)
fn unraw(s: &str) -> &str {
    s.strip_prefix("r#").unwrap_or(s)
}
fn size_check(out: &mut Vec<Viol>, ix: &FileIndex, name: &str, size: usize) {
    let fname = format!("_{}_size_check", unraw(name));
    let fs = ix.fns.get(&fname).map(|v| v.as_slice()).unwrap_or(&[]);
    if size > 0 {
        if fs.len() != 1 {
            v(out, &["C02"], format!("{name}: {} size checks emitted, expected one", fs.len()));
            return;
        }
        let mut ls = vec![];
        array_lengths(fs[0].block.to_token_stream(), &mut ls);
        if ls.is_empty() || ls.iter().any(|l| *l != size as u128) {
            v(out, &["C02"], format!("{name}: size check compares with {:?} bytes, resolved size is {}", ls, size));
        }
        if !norm(&fs[0].block).contains(&format!(", {name} >")) {
            v(out, &["C02"], format!("{name}: size check does not mention the type"));
        }
    }
}

/// (field path, base type) of every direct or transitive base, in declaration order
fn hierarchy(st: &ResolvedSemanticState, td: &TypeDefinition, prefix: &[String], depth: usize, out: &mut Vec<(Vec<String>, Type)>) {
    if depth > 16 {
        return;
    }
    for r in &td.regions {
        if !r.is_base {
            continue;
        }
        let (Some(n), Type::Raw(p)) = (&r.name, &r.type_ref) else { continue };
        let mut fp = prefix.to_vec();
        fp.push(n.clone());
        out.push((fp.clone(), r.type_ref.clone()));
        if let Some(btd) = st.type_registry().get(p).and_then(|d| d.resolved()).and_then(|r| r.inner.as_type()) {
            hierarchy(st, btd, &fp, depth + 1, out);
        }
    }
}

// the pointer size of the build (passed by the caller; the resolved state does not expose it)
thread_local! { pub static POINTER_SIZE: std::cell::Cell<Option<usize>> = std::cell::Cell::new(None); }
fn pointer_size(_st: &ResolvedSemanticState) -> Option<u128> {
    POINTER_SIZE.with(|p| p.get()).map(|p| p as u128)
}
/// size pyxis uses for a type (registry sizes for named types)
fn pyxis_size(st: &ResolvedSemanticState, t: &Type, ptr: u128) -> Option<u128> {
    match t {
        Type::Unresolved(_) => None,
        Type::Raw(p) => st.type_registry().get(p).and_then(|d| d.size()).map(|s| s as u128),
        Type::ConstPointer(_) | Type::MutPointer(_) | Type::Function(..) => Some(ptr),
        Type::Array(t, n) => pyxis_size(st, t, ptr).map(|s| s * (*n as u128)),
    }
}
/// size and alignment rustc gives the *emitted* type (x86 / x86_64 *-pc-windows-msvc): primitives as in the Rust
/// reference, by-value `void` must be a zero-sized type (`()`; `c_void` is one byte), pointers and function pointers are
/// pointer-sized, arrays are element size times length, emitted structs / enums and declared extern types
/// have the size and alignment recorded for them (each emitted item is checked on its own)
fn rust_size_align(st: &ResolvedSemanticState, t: &Type, ptr: u128) -> Option<(u128, u128)> {
    match t {
        Type::Unresolved(_) => None,
        Type::Raw(p) => {
            let segs: Vec<&str> = p.iter().map(|s| s.as_str()).collect();
            if segs.len() == 1 {
                let prim = match segs[0] {
                    "void" => Some((0, 1)),
                    "bool" | "u8" | "i8" => Some((1, 1)),
                    "u16" | "i16" => Some((2, 2)),
                    "u32" | "i32" | "f32" => Some((4, 4)),
                    "u64" | "i64" | "f64" => Some((8, 8)),
                    "u128" | "i128" => Some((16, 16)),
                    _ => None,
                };
                if prim.is_some() {
                    return prim;
                }
            }
            let d = st.type_registry().get(p)?;
            Some((d.size()? as u128, d.alignment()? as u128))
        }
        Type::ConstPointer(_) | Type::MutPointer(_) | Type::Function(..) => Some((ptr, ptr)),
        Type::Array(t, n) => rust_size_align(st, t, ptr).map(|(s, a)| (s * (*n as u128), a)),
    }
}

fn check_type(out: &mut Vec<Viol>, st: &ResolvedSemanticState, ix: &FileIndex, d: &ItemDefinition, isr: &ItemStateResolved, td: &TypeDefinition) {
    let name = d.path.last().map(|s| s.as_str().to_string()).unwrap_or_default();
    let ss = ix.structs.get(&name).map(|v| v.as_slice()).unwrap_or(&[]);
    let others = ix.enums.get(&name).map(|v| v.len()).unwrap_or(0);
    if ss.len() != 1 || others != 0 {
        v(out, &["C14", "C10"], format!("type `{name}` is emitted {} time(s) as a struct and {} time(s) as an enum, expected exactly once", ss.len(), others));
        if ss.is_empty() {
            return;
        }
    }
    let s = ss[0];
    let is_vft = name.ends_with("Vftable");
    // ---- C17: visibility, derives, packed/align, docs
    if is_pub(&s.vis) != (d.visibility == Visibility::Public) {
        v(out, &["C17"], format!("{name}: struct emitted {} but declared {:?}", if is_pub(&s.vis) { "pub" } else { "private" }, d.visibility));
    }
    let mut exp_derives = BTreeSet::new();
    if td.copyable {
        exp_derives.insert("Copy".to_string());
        exp_derives.insert("Clone".to_string());
    }
    if td.cloneable {
        exp_derives.insert("Clone".to_string());
    }
    if td.defaultable {
        exp_derives.insert("Default".to_string());
    }
    let ds = derive_set(&s.attrs);
    if ds != exp_derives {
        v(out, &["C17"], format!("{name}: derives {:?}, expected {:?} (copyable={}, cloneable={}, defaultable={})", ds, exp_derives, td.copyable, td.cloneable, td.defaultable));
    }
    let r = repr_of(&s.attrs);
    if !r.idents.iter().any(|i| i == "C") {
        v(out, &["C01", "C02"], format!("{name}: not repr(C): {:?}", r));
    }
    if td.packed {
        if !r.packed || r.align.is_some() {
            v(out, &["C17", "C02"], format!("{name}: packed type emitted with {:?}, expected packed and no alignment attribute", r));
        }
    } else {
        if r.packed {
            v(out, &["C17", "C02"], format!("{name}: type that is not packed emitted as packed"));
        }
        if r.align != Some(isr.alignment as u128) {
            v(out, &["C02"], format!("{name}: emitted alignment attribute {:?}, resolved alignment is {}", r.align, isr.alignment));
        }
    }
    check_doc(out, &format!("type {name}"), &s.attrs, td.doc.as_deref(), &[]);
    // ---- fields: C01 (order is the layout), C11 (paths), C17 (visibility, docs), C04/C16 (vftable slots)
    let fields: Vec<&syn::Field> = match &s.fields {
        syn::Fields::Named(n) => n.named.iter().collect(),
        syn::Fields::Unit => vec![],
        syn::Fields::Unnamed(u) => u.unnamed.iter().collect(),
    };
    let lay: &[&'static str] = if is_vft { &["C04", "C01", "C02"] } else { &["C01", "C02"] };
    if fields.len() != td.regions.len() {
        v(out, lay, format!("{name}: {} fields emitted, {} regions resolved", fields.len(), td.regions.len()));
    } else {
        for (k, (f, r)) in fields.iter().zip(td.regions.iter()).enumerate() {
            let fname = f.ident.as_ref().map(|i| i.to_string());
            if fname != r.name {
                v(out, lay, format!("{name}: field {k} emitted as {:?}, region is {:?}", fname, r.name));
            }
            match same_type(&f.ty, &r.type_ref) {
                Ok(()) => {}
                Err(e) => {
                    let mut p: Vec<&'static str> = lay.to_vec();
                    p.push("C11");
                    if matches!(r.type_ref, Type::Function(..)) {
                        p.push("C16");
                    }
                    v(out, &p, format!("{name}.{}: {e}", r.name.clone().unwrap_or_default()));
                }
            }
            if is_pub(&f.vis) != (r.visibility == Visibility::Public) {
                v(out, &["C17"], format!("{name}.{}: field emitted {} but region is {:?}", r.name.clone().unwrap_or_default(), if is_pub(&f.vis) { "pub" } else { "private" }, r.visibility));
            }
            check_doc(out, &format!("field {name}.{}", r.name.clone().unwrap_or_default()), &f.attrs, r.doc.as_deref(), &[]);
        }
    }
    // ---- C01 / C02 under the reference repr(C) algorithm (Rust reference, "The C representation"): lay the
    // emitted fields out as rustc does and compare with the offsets / size / alignment pyxis resolved
    if let Some(ptr) = pointer_size(st) {
        let mut off: u128 = 0;
        let mut max_align: u128 = 1;
        let mut pyx_off: u128 = 0;
        let mut decidable = true;
        let mut misplaced = false;
        let mut wrong_size = false;
        for r in &td.regions {
            let (Some((rsz, ral)), Some(psz)) = (rust_size_align(st, &r.type_ref, ptr), pyxis_size(st, &r.type_ref, ptr)) else { decidable = false; break };
            let al = if td.packed { 1 } else { ral };
            if al == 0 { decidable = false; break; }
            off = (off + al - 1) / al * al;
            if off != pyx_off && !misplaced {
                misplaced = true;
                v(out, &["C01"], format!("{name}.{}: rustc places the emitted field at offset {off}, pyxis resolved offset {pyx_off}", r.name.clone().unwrap_or_default()));
            }
            if rsz != psz && !wrong_size {
                wrong_size = true;
                v(out, &["C01", "C02"], format!("{name}.{}: the emitted field type `{}` has size {rsz} in Rust, pyxis resolved size {psz}", r.name.clone().unwrap_or_default(), render_type(&r.type_ref).unwrap_or_default()));
            }
            // rustc's own running offset and pyxis' running offset are followed separately, so that the compiled size
            // is still compared with the resolved one after a misplaced field (C02)
            off += rsz;
            pyx_off += psz;
            max_align = max_align.max(al);
        }
        if decidable && !wrong_size {
            let al = if td.packed { 1 } else { max_align.max(isr.alignment as u128) };
            let total = (off + al - 1) / al * al;
            if total != isr.size as u128 {
                v(out, &["C02"], format!("{name}: size_of the emitted struct is {total} under repr(C), pyxis resolved size {}", isr.size));
            }
            if al != isr.alignment as u128 {
                v(out, &["C02"], format!("{name}: align_of the emitted struct is {al} under repr(C), pyxis resolved alignment {}", isr.alignment));
            }
        }
    }
    // ---- C02: the emitted size check uses the resolved size
    size_check(out, ix, &name, isr.size);
    // ---- methods
    let ms = methods_of(ix, &name);
    let by_name = |n: &str| -> Vec<&syn::ImplItemFn> { ms.iter().copied().filter(|m| m.sig.ident == n).collect() };
    // two re-exposed or declared functions of one name are not callable (rustc rejects the impl): C07 "callable under its own name or
    // under <field>_<name>", C05 "the emitted method" (F26). Names the user chose for the generated accessors are left to C13.
    {
        let mut seen: BTreeSet<String> = BTreeSet::new();
        for f in td.associated_functions.iter() {
            if !seen.insert(f.name.clone()) {
                v(out, &["C07", "C05"], format!("{name}: two associated functions are called `{}`", f.name));
            }
        }
    }
    let exp_fns: Vec<&Function> = td.associated_functions.iter().chain(td.vftable.iter().flat_map(|v| v.functions.iter())).filter(|f| !f.name.starts_with('_')).collect();
    let user_named = |n: &str| exp_fns.iter().any(|f| f.name == n);
    // C15 singleton accessor
    match td.singleton {
        Some(addr) => {
            let g = by_name("get");
            if g.len() != 1 {
                v(out, &["C15"], format!("{name}: {} `get` accessors emitted for a singleton, expected one", g.len()));
            } else {
                let g = g[0];
                if is_pub(&g.vis) != (d.visibility == Visibility::Public) {
                    v(out, &["C17"], format!("{name}::get: accessor emitted {} but the type is {:?}", if is_pub(&g.vis) { "pub" } else { "private" }, d.visibility));
                }
                let lits = value_literals(g.block.to_token_stream());
                if lits != vec![addr as u128] {
                    v(out, &["C15"], format!("{name}::get: integer literals {:x?}, expected exactly the singleton address [{:x}]", lits, addr));
                }
                let ok = matches!(&g.sig.output, syn::ReturnType::Type(_, t) if type_is(t, "Option<&'static mut Self>"));
                if !ok {
                    v(out, &["C15"], format!("{name}::get: returns `{}`, expected Option<&'static mut Self>", norm(&g.sig.output)));
                }
                let b = norm(&g.block);
                if !b.contains("* mut * mut Self") && !b.contains("* const * mut Self") {
                    v(out, &["C15"], format!("{name}::get: does not read a pointer to the object at the address (no `*mut *mut Self`): `{b}`"));
                }
            }
        }
        None => {
            if !user_named("get") && !by_name("get").is_empty() {
                v(out, &["C15", "C14"], format!("{name}: `get` accessor emitted for a type that is not a singleton"));
            }
        }
    }
    // C06 vftable accessor
    match &td.vftable {
        Some(vt) => {
            let a = by_name("vftable");
            if a.len() != 1 {
                v(out, &["C06", "C04"], format!("{name}: {} `vftable` accessors emitted, expected one", a.len()));
            } else {
                let a = a[0];
                match (&a.sig.output, render_type(&vt.type_)) {
                    (syn::ReturnType::Type(_, t), Some(e)) => {
                        if !type_is(t, &e) {
                            v(out, &["C06", "C04"], format!("{name}::vftable: returns `{}`, expected `{}`", norm(&**t), norm_str(&e)));
                        }
                    }
                    _ => v(out, &["C06", "C04"], format!("{name}::vftable: no return type")),
                }
                let src = match &vt.base_field {
                    Some(f) => format!("self . {f} . vftable ()"),
                    None => "self . vftable".to_string(),
                };
                match final_expr(&a.block) {
                    Some(syn::Expr::Cast(c)) => {
                        if norm(&c.expr) != src {
                            v(out, &["C06", "C04"], format!("{name}::vftable: returns `{}`, expected `{src}` reinterpreted", norm(&c.expr)));
                        }
                        if !render_type(&vt.type_).map(|e| type_is(&c.ty, &e)).unwrap_or(false) {
                            v(out, &["C06", "C04"], format!("{name}::vftable: cast to `{}`", norm(&c.ty)));
                        }
                    }
                    Some(e) => {
                        if norm(e) != src {
                            v(out, &["C06", "C04"], format!("{name}::vftable: returns `{}`, expected `{src}`", norm(e)));
                        }
                    }
                    None => v(out, &["C06", "C04"], format!("{name}::vftable: empty body")),
                }
            }
        }
        None => {
            if !user_named("vftable") && !by_name("vftable").is_empty() {
                v(out, &["C06"], format!("{name}: `vftable` accessor emitted for a type without a vftable"));
            }
        }
    }
    // wrappers: one per declared (non-internal) function, no others
    let mut seen = BTreeSet::new();
    for f in &exp_fns {
        let props: &[&'static str] = match f.body {
            FunctionBody::Address { .. } => &["C05", "C14"],
            FunctionBody::Vftable { .. } => &["C04", "C14"],
            FunctionBody::Field { .. } => &["C07", "C14"],
        };
        let m = by_name(&f.name);
        // `get` / `vftable` may legitimately coexist with the generated accessor of the same name only if rustc
        // would accept it; count exactly the wrappers
        let gen = (f.name == "get" && td.singleton.is_some()) as usize + (f.name == "vftable" && td.vftable.is_some()) as usize;
        let dup = exp_fns.iter().filter(|g| g.name == f.name).count();
        if m.len() != dup + gen {
            v(out, props, format!("{name}::{}: {} method(s) of that name emitted, {} declared", f.name, m.len().saturating_sub(gen), dup));
            continue;
        }
        if dup == 1 && gen == 0 {
            let vob = |field: &str, fname: &str| -> bool {
                td.regions.iter().find(|r| r.name.as_deref() == Some(field)).and_then(|r| if let Type::Raw(p) = &r.type_ref { st.type_registry().get(p) } else { None })
                    .and_then(|d| d.resolved()).and_then(|r| r.inner.as_type()).and_then(|b| b.vftable.as_ref())
                    .map(|v| v.functions.iter().any(|g| g.name == fname)).unwrap_or(false)
            };
            check_function(out, &name, f, m[0], &vob);
        }
        seen.insert(f.name.clone());
    }
    for m in &ms {
        let n = m.sig.ident.to_string();
        if n.starts_with('_') || seen.contains(&n) || n == "get" || n == "vftable" {
            continue;
        }
        v(out, &["C14", "C07"], format!("{name}::{n}: method emitted that the resolved type does not have"));
    }
    // ---- C07: AsRef / AsMut to every base that occurs once, none for a base that occurs more than once
    let mut h = vec![];
    hierarchy(st, td, &[], 0, &mut h);
    let mut count: BTreeMap<String, usize> = BTreeMap::new();
    for (_, t) in &h {
        *count.entry(render_type(t).unwrap_or_default()).or_default() += 1;
    }
    let tis = ix.traits.get(&name).map(|v| v.as_slice()).unwrap_or(&[]);
    for (fp, t) in &h {
        let key = render_type(t).unwrap_or_default();
        if tykey_str(&key).is_none() {
            continue;
        }
        for (tr, mutable) in [("AsRef", false), ("AsMut", true)] {
            let found: Vec<_> = tis.iter().filter(|(n, a, _)| n == tr && a.as_ref().map(|a| type_is(a, &key)).unwrap_or(false)).collect();
            if count[&key] > 1 {
                if !found.is_empty() {
                    v(out, &["C07"], format!("{name}: {tr}<{key}> emitted although `{key}` occurs {} times in the hierarchy", count[&key]));
                }
                continue;
            }
            if found.len() != 1 {
                v(out, &["C07"], format!("{name}: {} impls of {tr}<{key}>, expected one (base at `{}`)", found.len(), fp.join(".")));
                continue;
            }
            let body = found[0].2.items.iter().find_map(|i| if let syn::ImplItem::Fn(f) = i { Some(f) } else { None });
            let exp = format!("& {}self . {}", if mutable { "mut " } else { "" }, fp.join(" . "));
            match body.and_then(|f| final_expr(&f.block)) {
                Some(e) if norm(e) == exp => {}
                Some(e) => v(out, &["C07"], format!("{name}: {tr}<{key}> returns `{}`, expected `{exp}`", norm(e))),
                None => v(out, &["C07"], format!("{name}: {tr}<{key}> has no body expression")),
            }
        }
    }
    for (tr, a, _) in tis {
        if tr != "AsRef" && tr != "AsMut" {
            continue;
        }
        let Some(a) = a else { continue };
        let k = tykey(a);
        let is_self = k == name;
        let known = h.iter().any(|(_, t)| render_type(t).map(|s| type_is(a, &s)).unwrap_or(false));
        if !is_self && !known {
            v(out, &["C07"], format!("{name}: {tr}<{k}> emitted, but `{k}` is not a base of the type"));
        }
    }
}

fn eval_discriminant(e: &syn::Expr) -> Option<i128> {
    match e {
        syn::Expr::Cast(c) => eval_discriminant(&c.expr),
        syn::Expr::Paren(p) => eval_discriminant(&p.expr),
        syn::Expr::Group(g) => eval_discriminant(&g.expr),
        syn::Expr::Unary(u) if matches!(u.op, syn::UnOp::Neg(_)) => eval_discriminant(&u.expr).map(|v| -v),
        syn::Expr::Lit(syn::ExprLit { lit: syn::Lit::Int(l), .. }) => l.base10_parse::<i128>().ok(),
        _ => None,
    }
}

fn check_enum(out: &mut Vec<Viol>, ix: &FileIndex, d: &ItemDefinition, isr: &ItemStateResolved, ed: &EnumDefinition) {
    let name = d.path.last().map(|s| s.as_str().to_string()).unwrap_or_default();
    let es = ix.enums.get(&name).map(|v| v.as_slice()).unwrap_or(&[]);
    let others = ix.structs.get(&name).map(|v| v.len()).unwrap_or(0);
    if es.len() != 1 || others != 0 {
        v(out, &["C14", "C10"], format!("enum `{name}` is emitted {} time(s) as an enum and {} time(s) as a struct, expected exactly once", es.len(), others));
        if es.is_empty() {
            return;
        }
    }
    let e = es[0];
    if is_pub(&e.vis) != (d.visibility == Visibility::Public) {
        v(out, &["C17"], format!("{name}: enum emitted {} but declared {:?}", if is_pub(&e.vis) { "pub" } else { "private" }, d.visibility));
    }
    let ds = derive_set(&e.attrs);
    for (n, want) in [("Copy", ed.copyable), ("Clone", ed.copyable || ed.cloneable), ("Default", ed.defaultable)] {
        if ds.contains(n) != want {
            v(out, &["C17"], format!("{name}: derive {n} {}, expected {} (copyable={}, cloneable={}, defaultable={})", if ds.contains(n) { "present" } else { "absent" }, if want { "present" } else { "absent" }, ed.copyable, ed.cloneable, ed.defaultable));
        }
    }
    check_doc(out, &format!("enum {name}"), &e.attrs, ed.doc.as_deref(), &[]);
    let r = repr_of(&e.attrs);
    let exp_repr = render_type(&ed.type_).unwrap_or_default();
    if r.idents != vec![exp_repr.clone()] || r.packed || r.align.is_some() {
        v(out, &["C08", "C02"], format!("{name}: representation {:?}, expected repr({exp_repr})", r));
    }
    if e.variants.len() != ed.fields.len() {
        v(out, &["C08"], format!("{name}: {} variants emitted, {} declared", e.variants.len(), ed.fields.len()));
    } else {
        // the value rustc gives each variant: the written discriminant, else predecessor + 1 (0 for the first)
        let mut prev: Option<i128> = None;
        for (k, (va, (fname, fval))) in e.variants.iter().zip(ed.fields.iter()).enumerate() {
            if va.ident != fname {
                v(out, &["C08"], format!("{name}: variant {k} emitted as `{}`, declared `{fname}`", va.ident));
            }
            let val = match &va.discriminant {
                Some((_, ex)) => eval_discriminant(ex),
                None => Some(prev.map(|p| p + 1).unwrap_or(0)),
            };
            match val {
                Some(x) if x == *fval as i128 => {}
                Some(x) => v(out, &["C08"], format!("{name}::{fname}: emitted discriminant is {x}, resolved value is {fval}")),
                None => v(out, &["C08"], format!("{name}::{fname}: discriminant `{}` is not an integer literal", va.discriminant.as_ref().map(|d| norm(&d.1)).unwrap_or_default())),
            }
            prev = val;
            let is_def = va.attrs.iter().any(|a| a.path().is_ident("default"));
            if is_def != (ed.default_index == Some(k)) {
                v(out, &["C08"], format!("{name}::{fname}: #[default] {}, default variant index is {:?}", if is_def { "present" } else { "absent" }, ed.default_index));
            }
        }
    }
    size_check(out, ix, &name, isr.size);
    let ms = methods_of(ix, &name);
    let g: Vec<_> = ms.iter().filter(|m| m.sig.ident == "get").collect();
    match ed.singleton {
        Some(addr) => {
            if g.len() != 1 {
                v(out, &["C15"], format!("{name}: {} `get` accessors emitted for an enum singleton, expected one", g.len()));
            } else {
                let g = g[0];
                if is_pub(&g.vis) != (d.visibility == Visibility::Public) {
                    v(out, &["C17"], format!("{name}::get: accessor emitted {} but the enum is {:?}", if is_pub(&g.vis) { "pub" } else { "private" }, d.visibility));
                }
                let lits = value_literals(g.block.to_token_stream());
                if lits != vec![addr as u128] {
                    v(out, &["C15"], format!("{name}::get: integer literals {:x?}, expected exactly the singleton address [{:x}]", lits, addr));
                }
                let ret = match &g.sig.output {
                    syn::ReturnType::Type(_, t) => norm(&**t),
                    _ => String::new(),
                };
                if ret != "Self" {
                    v(out, &["C15"], format!("{name}::get: returns `{ret}`, expected Self (the value stored at the address)"));
                }
                if !norm(&g.block).contains("as * const Self") {
                    v(out, &["C15"], format!("{name}::get: does not read a Self at the address: `{}`", norm(&g.block)));
                }
            }
        }
        None => {
            if !g.is_empty() {
                v(out, &["C15", "C14"], format!("{name}: `get` accessor emitted for an enum that is not a singleton"));
            }
        }
    }
}

fn attr_int(attrs: &grammar::Attributes, name: &str) -> Option<isize> {
    let mut r = None;
    for a in &attrs.0 {
        if let Some((i, ex)) = a.function() {
            if i.as_str() == name && ex.len() == 1 {
                if let Some(n) = ex[0].int_literal() {
                    r = Some(n);
                }
            }
        }
    }
    r
}

/// the type an extern value's declared type denotes, for the shapes the emit corpus uses (built-ins, types
/// of the same module, pointers and arrays of those); None = not decided here
fn render_grammar_type(st: &ResolvedSemanticState, key: &ItemPath, t: &grammar::Type) -> Option<String> {
    Some(match t {
        grammar::Type::ConstPointer(t) => format!("*const {}", render_grammar_pointee(st, key, t)?),
        grammar::Type::MutPointer(t) => format!("*mut {}", render_grammar_pointee(st, key, t)?),
        grammar::Type::Array(t, n) => format!("[{}; {}]", render_grammar_type(st, key, t)?, n),
        grammar::Type::Ident(i) => {
            let n = i.as_str();
            let builtin = ["void", "bool", "u8", "u16", "u32", "u64", "u128", "i8", "i16", "i32", "i64", "i128", "f32", "f64"];
            if builtin.contains(&n) {
                render_type(&Type::Raw(ItemPath::from(n)))?
            } else {
                let p = key.join(n.into());
                st.type_registry().get(&p)?;
                render_type(&Type::Raw(p))?
            }
        }
        grammar::Type::Unknown(_) => return None,
    })
}

fn render_grammar_pointee(st: &ResolvedSemanticState, key: &ItemPath, t: &grammar::Type) -> Option<String> {
    match t {
        grammar::Type::Ident(i) if i.as_str() == "void" => Some("::std::ffi::c_void".to_string()),
        _ => render_grammar_type(st, key, t),
    }
}
/// items of a prologue / epilogue text, when it is a sequence of Rust items
fn items_of(text: &str) -> Option<Vec<syn::Item>> {
    syn::parse_file(text).ok().map(|f| f.items)
}

/// Check the file the real backend wrote for one module.  `gm` is the parsed source of the module (the
/// resolved `Module` keeps extern values and backend blocks crate-private).
pub fn check_emitted(st: &ResolvedSemanticState, key: &ItemPath, module: &Module, gm: &grammar::Module, text: &str) -> Vec<Viol> {
    let mut out = vec![];
    let file = match syn::parse_file(text) {
        Ok(f) => f,
        Err(e) => {
            v(&mut out, &["C14"], format!("the emitted file is not a sequence of Rust items: {e}"));
            return out;
        }
    };
    let ix = index(&file);
    // ---- module documentation (C17)
    check_doc(&mut out, "module", &file.attrs, module.doc(), &[]);
    // ---- the same from the source: the doc attributes written on the module, a type or an enum are the doc
    // lines of its emitted counterpart (end to end, independent of what the semantic layer stored)
    let src_doc = |a: &grammar::Attributes| -> Vec<String> {
        a.0.iter().filter_map(|x| x.assign()).filter(|(k, _)| k.as_str() == "doc").filter_map(|(_, e)| e.string_literal().map(|s| s.to_string())).collect()
    };
    if doc_lines(&file.attrs) != src_doc(&gm.attributes) {
        v(&mut out, &["C17"], format!("module: doc lines {:?}, written {:?}", doc_lines(&file.attrs), src_doc(&gm.attributes)));
    }
    for gd in &gm.definitions {
        let n = gd.name.as_str();
        let (attrs, emitted) = match &gd.inner {
            grammar::ItemDefinitionInner::Type(t) => (&t.attributes, ix.structs.get(n).and_then(|v| v.first()).map(|s| doc_lines(&s.attrs))),
            grammar::ItemDefinitionInner::Enum(e) => (&e.attributes, ix.enums.get(n).and_then(|v| v.first()).map(|s| doc_lines(&s.attrs))),
        };
        if let Some(em) = emitted {
            if em != src_doc(attrs) {
                v(&mut out, &["C17"], format!("{n}: doc lines {:?}, written {:?}", em, src_doc(attrs)));
            }
        }
    }
    // ---- every definition of the module (C14) and its content
    let mut defined = BTreeSet::new();
    for d in module.definitions(st.type_registry()) {
        let name = d.path.last().map(|s| s.as_str().to_string()).unwrap_or_default();
        match d.category() {
            ItemCategory::Defined => {
                defined.insert(name.clone());
                match d.resolved() {
                    None => v(&mut out, &["C10", "C14"], format!("`{name}` is unresolved in an accepted build")),
                    Some(isr) => match &isr.inner {
                        ItemDefinitionInner::Type(td) => check_type(&mut out, st, &ix, d, isr, td),
                        ItemDefinitionInner::Enum(ed) => check_enum(&mut out, &ix, d, isr, ed),
                    },
                }
            }
            ItemCategory::Predefined | ItemCategory::Extern => {
                if ix.structs.contains_key(&name) || ix.enums.contains_key(&name) {
                    v(&mut out, &["C14"], format!("built-in / extern type `{name}` is emitted"));
                }
            }
        }
    }
    // every declared item is there (C14, C10): the source's definitions are the module's definitions
    for gd in &gm.definitions {
        let n = gd.name.as_str().to_string();
        if !defined.contains(&n) {
            v(&mut out, &["C14", "C10"], format!("declared item `{n}` is not among the module's resolved definitions"));
        }
    }
    // ---- prologue / epilogue (C14): rust ones, complete, in source order, first / last; others absent
    let mut pro = vec![];
    let mut epi = vec![];
    let mut foreign = vec![];
    let mut decidable = true;
    for b in &gm.backends {
        for (txt, is_pro) in [(&b.prologue, true), (&b.epilogue, false)] {
            let Some(txt) = txt else { continue };
            match items_of(txt) {
                Some(items) => {
                    if b.name.as_str() == "rust" {
                        if is_pro { pro.extend(items) } else { epi.extend(items) }
                    } else {
                        foreign.extend(items)
                    }
                }
                None => decidable = false,
            }
        }
    }
    if decidable {
        let n = file.items.len();
        if n < pro.len() + epi.len() || file.items[..pro.len()] != pro[..] {
            v(&mut out, &["C14"], format!("the file does not start with the module's rust prologues, complete and in source order ({} prologue items)", pro.len()));
        }
        if n < pro.len() + epi.len() || file.items[n - epi.len()..] != epi[..] {
            v(&mut out, &["C14"], format!("the file does not end with the module's rust epilogues, complete and in source order ({} epilogue items)", epi.len()));
        }
        for f in &foreign {
            if file.items.contains(f) && !pro.contains(f) && !epi.contains(f) {
                v(&mut out, &["C14"], format!("text of another backend is included: `{}`", norm(f)));
            }
        }
    }
    // ---- nothing else (C14): every struct / enum of the file is a definition of the module or comes from a prologue / epilogue
    let from_text = |name: &str| -> bool {
        pro.iter().chain(epi.iter()).any(|i| match i {
            syn::Item::Struct(s) => s.ident == name,
            syn::Item::Enum(e) => e.ident == name,
            syn::Item::Fn(f) => f.sig.ident == name,
            _ => false,
        })
    };
    for n in ix.structs.keys().chain(ix.enums.keys()) {
        if !defined.contains(n) && !from_text(n) {
            v(&mut out, &["C14"], format!("`{n}` is emitted but is not a definition of the module"));
        }
    }
    // ---- extern values (C15, C14, C17)
    let mut ev_names = BTreeSet::new();
    for ev in &gm.extern_values {
        let fname = format!("get_{}", unraw(ev.name.as_str()));
        ev_names.insert(fname.clone());
        let fs = ix.fns.get(&fname).map(|v| v.as_slice()).unwrap_or(&[]);
        let dup = gm.extern_values.iter().filter(|o| o.name == ev.name).count();
        if fs.len() != dup {
            v(&mut out, &["C14", "C15"], format!("extern value `{}`: {} accessors emitted, expected {dup}", ev.name.as_str(), fs.len()));
            continue;
        }
        if dup != 1 {
            continue;
        }
        let f = fs[0];
        let want_pub = ev.visibility == grammar::Visibility::Public;
        if is_pub(&f.vis) != want_pub {
            v(&mut out, &["C17"], format!("{fname}: accessor emitted {} but the extern value is {:?}", if is_pub(&f.vis) { "pub" } else { "private" }, ev.visibility));
        }
        if let Some(addr) = attr_int(&ev.attributes, "address") {
            let lits = value_literals(f.block.to_token_stream());
            if lits != vec![addr as u128] {
                v(&mut out, &["C15"], format!("{fname}: integer literals {:x?}, expected exactly the declared address [{:x}]", lits, addr));
            }
        }
        if let Some(t) = render_grammar_type(st, key, &ev.type_) {
            let exp = format!("&'static mut {t}");
            let ok = match &f.sig.output {
                syn::ReturnType::Type(_, a) => type_is(a, &exp),
                _ => false,
            };
            if !ok {
                v(&mut out, &["C15", "C11"], format!("{fname}: returns `{}`, expected `{}`", norm(&f.sig.output), norm_str(&exp)));
            }
            let b = norm(&f.block);
            let tk = syn::parse_str::<syn::Type>(&t).map(|t| norm(&t)).unwrap_or_default();
            if !b.contains(&format!("as * mut {tk}")) || !b.contains("& mut *") {
                v(&mut out, &["C15"], format!("{fname}: does not return a mutable reference to the address as `{t}`: `{b}`"));
            }
        }
    }
    for (n, fs) in &ix.fns {
        if n.starts_with("get_") && !ev_names.contains(n) && !from_text(n) && !fs.is_empty() {
            v(&mut out, &["C14", "C15"], format!("accessor `{n}` emitted without an extern value"));
        }
        if n.ends_with("_size_check") && n.starts_with('_') {
            let t = &n[1..n.len() - "_size_check".len()];
            if !defined.iter().any(|d| unraw(d) == t) && !from_text(n) {
                v(&mut out, &["C14"], format!("size check `{n}` emitted for an item that is not defined in the module"));
            }
        }
    }
    out
}

pub fn module_file(out_dir: &Path, key: &ItemPath) -> PathBuf {
    let mut p = out_dir.to_path_buf();
    for s in key.iter() {
        p.push(s.as_str());
    }
    p.set_extension("rs");
    p
}

fn rs_files(dir: &Path, out: &mut Vec<PathBuf>) {
    if let Ok(rd) = std::fs::read_dir(dir) {
        for e in rd.flatten() {
            let p = e.path();
            if p.is_dir() {
                rs_files(&p, out)
            } else {
                out.push(p)
            }
        }
    }
}

pub struct Emitted {
    pub files: BTreeMap<String, String>,
    pub viols: Vec<Viol>,
}

/// run the real backend on every module of an accepted build (as `pyxis::build` does) into a fresh directory,
/// check each written file, and the directory as a whole (C14: one file per input module, nothing else)
pub static EMITTED_FILES: std::sync::atomic::AtomicUsize = std::sync::atomic::AtomicUsize::new(0);
pub fn emit_and_check(st: &ResolvedSemanticState, sources: &[(&str, String)], scratch: &Path) -> Emitted {
    let mut viols = vec![];
    let mut files = BTreeMap::new();
    let _ = std::fs::remove_dir_all(scratch);
    let _ = std::fs::create_dir_all(scratch);
    let mut expected_files = BTreeSet::new();
    for (key, module) in st.modules() {
        let r = std::panic::catch_unwind(std::panic::AssertUnwindSafe(|| pyxis::backends::rust::write_module(scratch, key, st, module)));
        match r {
            Err(_) => {
                v(&mut viols, &["C12"], format!("the backend panicked on module `{key}`"));
                continue;
            }
            Ok(Err(e)) => {
                v(&mut viols, &["C14"], format!("the backend failed on module `{key}` of an accepted build: {e:#}"));
                continue;
            }
            Ok(Ok(())) => {}
        }
        if key.is_empty() {
            continue;
        }
        let p = module_file(scratch, key);
        expected_files.insert(p.clone());
        let keystr = key.iter().map(|s| s.as_str()).collect::<Vec<_>>().join("::");
        let gm = sources.iter().find(|(k, _)| *k == keystr).and_then(|(_, src)| pyxis::parser::parse_str(src).ok());
        let Ok(text) = std::fs::read_to_string(&p) else {
            v(&mut viols, &["C14"], format!("no output file for module `{key}` at {}", p.strip_prefix(scratch).unwrap_or(&p).display()));
            // what the module declares is then not emitted at all
            if let Some(gm) = &gm {
                if !gm.extern_values.is_empty() {
                    v(&mut viols, &["C15"], format!("module `{key}`: no accessor for its extern value(s) - the module's file was not written"));
                }
                if !gm.definitions.is_empty() {
                    v(&mut viols, &["C01", "C02", "C04", "C05", "C08", "C17"], format!("module `{key}`: none of its definitions is emitted - the module's file was not written"));
                }
            }
            continue;
        };
        if let Some(gm) = &gm {
            for mut x in check_emitted(st, key, module, gm, &text) {
                x.what = format!("[{keystr}] {}", x.what);
                viols.push(x);
            }
        }
        EMITTED_FILES.fetch_add(1, std::sync::atomic::Ordering::Relaxed);
        files.insert(keystr, text);
    }
    let mut present = vec![];
    rs_files(scratch, &mut present);
    for p in present {
        if !expected_files.contains(&p) {
            v(&mut viols, &["C14"], format!("unexpected output file {}", p.strip_prefix(scratch).unwrap_or(&p).display()));
        }
    }
    for (k, _) in sources {
        if !files.contains_key(*k) && !viols.iter().any(|x| x.what.contains(&format!("`{k}`"))) {
            v(&mut viols, &["C14"], format!("input module `{k}` has no output file"));
        }
    }
    let _ = std::fs::remove_dir_all(scratch);
    Emitted { files, viols }
}
