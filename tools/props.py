"""per-property assumption / not-covered lists that go into every evidence file (DESIGN.md sections 5 and 8)"""
GLOBAL = [
    "A1 Verus (VIR->AIR->bundled Z3) is sound for the features used, incl. the prophecy encoding of &mut/final and vstd's iterator model",
    "A2 the weave rules of DESIGN.md 3.2 preserve meaning (insertions are ghost code; rewrites are listed in coverage.mechanical_rewrites)",
    "A3 stubs/anyhow.rs has the control-flow meaning of anyhow 1.0.86 for the API surface pyxis uses (bail!, anyhow!, Context)",
    "A4 the prelude specs of std/hashbrown/fmt and the adapter helpers state the documented behaviour",
    "A5 derived Clone/PartialEq/Eq/Hash/Default are structural (external_derive)",
    "A6 machine arithmetic is NOT idealised: usize/isize overflow is an obligation; the target pointer width is the symbolic pointer_size field",
    "A7 the backend (src/backends/rust.rs: quote!/syn/prettyplease; the one exception is the type printer fully_qualified_type_ref(_impl)/fully_qualified_pointee_impl, which is verified), the parser (syn), lib.rs file handling and rustc itself are outside the verified text; backend and lib.rs are only SAMPLED by the bounded stand-in (coverage.bounded_differential_check.backend_stand_in), the 'not_covered' items below are not proved",
]
PROPS = {}


def P(pid, not_covered, extra=()):
    PROPS[pid] = {"assumptions": GLOBAL + list(extra), "not_covered": not_covered}


P("C01", ["backend prints regions in order under #[repr(C, align(N)|packed)] (rust.rs:175-195,279-285,380-395)", "rustc implements the reference repr(C) algorithm", "primitive sizes of the target"])
P("C02", ["the repr attribute text written by the backend", "the emitted transmute size check"])
P("C03", ["error message texts"])
P("C04", ["wrapper body addr_of!((*self.vftable()).name).read() (quote!)", "execution of the emitted wrapper"])
P("C05", ["wrapper text (hex literal, transmute, argument forwarding) and its execution"])
P("C06", ["the accessor text self.<base>.vftable() as *const ..."])
P("C07", ["forwarding method text (rust.rs:528-574)", "AsRef/AsMut emission and duplicate suppression (rust.rs:287-378)", "termination of TypeDefinition::dfs_hierarchy (recursion through the registry: needs the acyclicity of by-value embedding, not expressible as a decreases clause on one call; its result is specified for every terminating call)", "members a base inherited itself are covered only through the base's own associated functions (the statement about one type composes over the hierarchy by induction on resolution order, which is not proved)"])
P("C08", ["repr(T), `Name = value as _`, #[default] placement (quote!)", "literal parsing (syn)"])
P("C10", ["progress of the whole loop (acyclic and defined => eventually resolved) and its termination: whole-history argument over HashMap iteration order; proved per attempt only (a deferral has a reason that resolving the dependencies removes)", "the loop over modules.values_mut() that resolves the extern values is a trusted segment (vstd has no model of HashMap::values_mut)"])
P("C11", ["what syn::parse_str / quote! / prettyplease do with the verified type text", "write! into the String goes through trusted wrappers (same literal; Display of a path read off grammar.rs and assumed)", "the precondition `printable` of the type printer is assumed at its unverified call sites"])
P("C12", ["parser (syn)", "add_file position text", "backend (format_ident!, lines().nth().unwrap())", "file system", "memory/time proportionality", "stack depth"])
P("C14", ["glob, file naming, prologue/epilogue join, sort, build_item category switch"])
P("C15", ["accessor text (one vs no indirection) and execution"])
P("C16", ["the wrapper printer (rust.rs:553-563, quote!)", "what syn::parse_str does with the verified text of the type printer (rust.rs:639-652)"])
P("C17", ["visibility_to_tokens, derive list, repr tokens, doc_to_tokens"])
P("C19", ["per-module printing; the relational statement over whole builds is not proved"])
P("C20", ["a number in another base (syn literal parsing)", "byte-identity of the file (backend sort and printing)", "replacing an unknown<N> gap by an address on the following field: equal only after finalisation of the generated regions; covered by the functional spec regions_spec and the bounded pairs, no separate lemma"])
