#!/bin/bash
# developer loop: weave /repo into work/dev and verify (optionally only some functions: extra verus args)
cd /verif
python3 tools/weave.py --repo ${REPO:-/repo} --out work/dev >work/dev.weave.log 2>&1 || { tail -20 work/dev.weave.log; exit 3; }
tools/run_verus.sh work/dev --multiple-errors 8 --rlimit 60 "$@" 2>&1 | grep -v "^warning\|^note: " | head -${LINES_MAX:-150}
