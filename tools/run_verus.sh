#!/bin/bash
# usage: run_verus.sh <woven-dir> [extra verus args]
W=$1; shift
V=/verif/work
D=$V/depsbuild/target/debug/deps
exec verus $W/src/lib.rs --crate-type=lib --crate-name pyxis --edition 2021 -L dependency=$D \
  --extern syn=$(ls $D/libsyn-*.rlib) --extern quote=$(ls $D/libquote-*.rlib) --extern proc_macro2=$(ls $D/libproc_macro2-*.rlib) \
  --extern prettyplease=$(ls $D/libprettyplease-*.rlib) --extern glob=$(ls $D/libglob-*.rlib) \
  --extern anyhow=$V/libanyhow.rlib --import anyhow=$V/anyhow.vir "$@"
