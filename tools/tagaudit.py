#!/usr/bin/env python3
"""tagaudit.py: look for TAGGING GAPS in the contract store.

A clause is tagged with the properties whose statement it is part of; the check of property P reports a failed
clause only when it is tagged P.  This audit applies source mutations (the catalog of mutants/ and mechanical
ones from automutate.py) to scratch copies, runs Verus once, and - for every mutant that fails at least one
obligation - runs the bounded stand-in of EVERY property.  A property whose bounded check finds a failing input
although none of the failed clauses is tagged with it is a gap: the deductive check of that property is silent
about a change that demonstrably breaks it.  Output: one GAP line per (mutant, property).

usage: tagaudit.py [--catalog N] [--auto N] [--jobs J] [--seed S] [--json out.json]
"""
import argparse, json, os, random, shutil, sys, tempfile
from concurrent.futures import ThreadPoolExecutor

HERE = os.path.dirname(os.path.abspath(__file__))
VERIF = os.path.dirname(HERE)
sys.path.insert(0, HERE)
import runner  # noqa
import weave as weave_mod  # noqa
import automutate  # noqa
import mutants as mutants_mod  # noqa
from weavelib import WeaveError  # noqa

PROPS = sorted(runner.WITNESS_PROPS)


def run_one(mu):
    d = tempfile.mkdtemp(prefix="ta-")
    try:
        shutil.copytree("/repo/src", os.path.join(d, "src"))
        for f in ("Cargo.toml", "Cargo.lock"):
            shutil.copy(os.path.join("/repo", f), d)
        if "pos" in mu:
            p = os.path.join(d, "src", mu["file"])
            b = open(p, "rb").read()
            open(p, "wb").write(b[:mu["pos"]] + mu["new"].encode() + b[mu["pos"] + mu["len"]:])
            name = "%s:%d `%s`->`%s`" % (mu["file"], mu["line"], mu["old"], mu["new"])
        else:
            p = os.path.join(d, mu["file"])
            s = open(p).read()
            if s.count(mu["old"]) != 1:
                return {"name": mu["id"], "verdict": "anchor"}
            open(p, "w").write(s.replace(mu["old"], mu["new"]))
            name = mu["id"]
        woven = os.path.join(d, "woven")
        os.environ["VERIF_NO_DEGRADE"] = "1"
        try:
            meta = weave_mod.weave(d, woven)
        except (WeaveError, IndexError, KeyError, AssertionError) as e:
            return {"name": name, "verdict": "undecided", "why": "weave: %s" % str(e)[:80]}
        cmd, out, so, se, wall = runner.run_verus(woven, ["--num-threads", "4", "--multiple-errors", "8", "--rlimit", "60"])
        if se == "TIMEOUT":
            return {"name": name, "verdict": "undecided", "why": "timeout"}
        diags, raw = runner.parse_diags(se)
        sm = runner.SegMap(meta, d)
        failures, undecided = runner.classify(diags, raw, sm, os.path.join(woven, "src"))
        known = runner.load_known()
        failures = [f for f in failures if not any(runner.match_known(f, known, p_) for p_ in f["tags"])]
        if undecided or not failures:
            return {"name": name, "verdict": "undecided" if undecided else "survived"}
        tags = set()
        for f in failures:
            tags |= set(f["tags"])
        broken = []
        for p_ in PROPS:
            ws = runner.witness_search(p_, d, d, 0, quick=True)
            if ws.get("failures"):
                w = ws["failures"][0]
                broken.append((p_, "%s: expected %s, actual %s" % (w.get("family"), w["expected"][:80], w["actual"][:80])))
        gaps = [(p_, why) for p_, why in broken if p_ not in tags]
        return {"name": name, "verdict": "killed", "clauses": sorted({"%s %s" % (f["unit"].split("::")[-1], (f.get("clause_name") or f.get("clause") or f["kind"]).split("::")[-1]) for f in failures}),
                "tags": sorted(tags), "bounded_broken": [b[0] for b in broken], "gaps": gaps}
    finally:
        shutil.rmtree(d, ignore_errors=True)


def main():
    ap = argparse.ArgumentParser()
    ap.add_argument("--catalog", type=int, default=30)
    ap.add_argument("--auto", type=int, default=30)
    ap.add_argument("--jobs", type=int, default=3)
    ap.add_argument("--seed", type=int, default=1)
    ap.add_argument("--json")
    a = ap.parse_args()
    runner.ensure_setup()
    rnd = random.Random(a.seed)
    cat = [m for m in mutants_mod.load() if "backends/" not in m["file"] and "parser/" not in m["file"] and m["file"] != "src/lib.rs"]
    rnd.shuffle(cat)
    meta = weave_mod.weave("/repo", os.path.join(VERIF, "work", "woven"))
    auto = automutate.candidates(meta)
    rnd.shuffle(auto)
    todo = cat[:a.catalog] + auto[:a.auto]
    print("auditing %d catalog + %d mechanical mutants" % (min(len(cat), a.catalog), min(len(auto), a.auto)))
    res = []
    with ThreadPoolExecutor(a.jobs) as ex:
        for r in ex.map(run_one, todo):
            res.append(r)
            if r["verdict"] == "killed":
                for p_, why in r["gaps"]:
                    print("GAP %s | failed clauses %s tagged %s | bounded check of %s fails: %s" % (r["name"], r["clauses"][:3], ",".join(r["tags"]), p_, why))
            sys.stdout.flush()
    k = [r for r in res if r["verdict"] == "killed"]
    print("killed=%d (with gaps: %d) other=%d" % (len(k), sum(1 for r in k if r["gaps"]), len(res) - len(k)))
    if a.json:
        json.dump(res, open(a.json, "w"), indent=1)


if __name__ == "__main__":
    main()
