"""The weave rules W1..W10 of DESIGN.md section 3.2, as operations on weavelib.FileWeave.

Every operation only *inserts* ghost text or performs one of the logged mechanical rewrites; the
function bodies under contract are copied byte for byte.
"""
from weavelib import WeaveError


def modpath(rel):
    """semantic/type_definition/mod.rs -> semantic::type_definition ; semantic/module.rs -> semantic::module"""
    r = rel[:-3]
    if r.endswith("/mod"):
        r = r[:-4]
    return r.replace("/", "::")


class Ctx:
    """per-weave registry of units (functions under contract) and clauses"""

    def __init__(self, weave):
        self.weave = weave
        self.units = {}
        self.clauses = {}
        self.types = []
        self._impl_wrapped = set()
        import os
        self.canary = os.environ.get("VERIF_CANARY") == "1"
        # W11 (degraded weave): every unit's contract as data, per recipe (written to specs/contracts.lock.json on
        # the good tree); `lost` = recipes whose anchors are gone on this tree and whose functions were woven
        # under *trusted* contracts instead
        self.current_recipe = None
        self.specs = []
        self.lost = {}

    def add_canary(self, fw, unit, pos):
        """vacuity guard: with VERIF_CANARY=1 every unit that has a precondition gets `assert(false)` at its
        entry; the runner requires that assertion to FAIL (a passing one means a contradictory `requires`)"""
        ed = fw.insert(pos, "\nproof { assert(false); } // canary\n", rule="W10-canary", prio=7)
        self.clause(unit, "canary", "assert(false)", set(), ed)

    def clause(self, unit, kind, text, tags, ed, name=None):
        n = 1 + sum(1 for c in self.clauses.values() if c["unit"] == unit and c["kind"] == kind)
        cid = "%s#%s%d" % (unit, kind, n)
        self.clauses[cid] = {"id": cid, "unit": unit, "kind": kind, "text": " ".join(text.split()), "tags": sorted(tags), "eid": ed.eid, "name": name}
        ed.meta["clause"] = cid
        return cid


# ----------------------------------------------------------------------------- W0 / W1
def plumbing(fw, extra=""):
    """W1: imports at the top of a woven file"""
    fw._plumbed = True
    first = min((n["span"][0] for n in fw.nodes if n["parent"] == -1), default=0)
    fw.insert(first, "#[allow(unused_imports)] use vstd::prelude::*;\n#[allow(unused_imports)] use crate::verif_specs::*;\n#[allow(unused_imports)] use crate::verif_prelude::*;\nverus!{ broadcast use {crate::verif_prelude::group_pyxis_axioms, crate::verif_specs::group_path_axioms, crate::verif_specs::group_vftable_axioms, crate::verif_specs::group_builtin_axioms, crate::verif_specs::group_module_axioms}; }\n" + extra, rule="W1")


def plumbing_once(fw):
    if not getattr(fw, "_plumbed", False):
        plumbing(fw)


def drop_test_mods(fw):
    """W0: `#[cfg(test)] mod tests;` is not part of the verified text"""
    for n in fw.nodes:
        if n["kind"] == "mod" and not n["inline"] and any(a["path"] == "cfg" and "test" in a["tokens"] for a in n["attrs"]):
            fw.replace(n["span"][0], n["span"][1], "", "W0")


# ----------------------------------------------------------------------------- W2
def type_into_verus(ctx, fw, ident, hoist_to=None, within=None, external_derive=True):
    hits = [n for n in fw.nodes if n["kind"] in ("struct", "enum") and n["ident"] == ident
            and (within is None or n["fn"] == within["id"])
            and (within is not None or n["fn"] == -1)]
    if len(hits) != 1:
        raise WeaveError("%s: type `%s` found %d times" % (fw.rel, ident, len(hits)))
    n = hits[0]
    pre = "verus!{\n" + ("#[verifier::external_derive]\n" if external_derive and any(a["path"] == "derive" for a in n["attrs"]) else "")
    suf = "\n} // verus!\n"
    if hoist_to is None:
        fw.insert(n["span"][0], pre, rule="W2")
        fw.insert(n["span"][1], suf, rule="W2")
    else:
        fw.move(n["span"][0], n["span"][1], hoist_to, pre=pre, suf=suf, rule="W4", what="type " + ident)
    if n["kind"] == "struct":
        for f in n["fields"]:
            if f["vis_span"] is None:
                fw.insert(f["start"], "pub ", rule="W2")
            else:
                s, e = f["vis_span"]
                if fw.text(f["vis_span"]) != "pub":
                    fw.replace(s, e, "pub", "W2")
        if n.get("vis_span") is None and hoist_to is not None:
            # a hoisted private type: widened so that trusted specs about its derived impls can name it
            k = fw.src.rfind(b"struct", n["span"][0], n["ident_span"][0])
            if k < 0:
                raise WeaveError("%s: `struct` keyword of %s not found" % (fw.rel, ident))
            fw.insert(k, "pub ", rule="W2")
    ctx.types.append({"file": fw.rel, "ident": ident, "line": fw.line_of(n["span"][0])})
    return n


# ----------------------------------------------------------------------------- W3 + W10 on functions
def _impl_header(fw, im):
    s, e = im["header_span"]
    return fw.src[s:e].decode().rstrip()


def fn_into_verus(ctx, fw, qual, mode="V", ret=None, requires=(), ensures=(), decreases=None, attrs=(), tags=(),
                  unit=None, hoisted=False, returns=None, opens_invariants=None, no_unwind=False, no_fallback=False):
    """move function `qual` into a verus!{} block and attach its contract.
    requires: list of text; ensures: list of (text, tags) or text; decreases: text"""
    fn = fw.fn(qual)
    unit = unit or "%s::%s" % (modpath(fw.rel), qual)
    ctx.specs.append({"recipe": ctx.current_recipe, "kind": "fn", "file": fw.rel, "qual": qual, "mode": mode, "ret": ret,
                      "requires": [r for r in requires], "ensures": [([c, sorted(set(tags) - {"C12"}), None] if isinstance(c, str) else [c[0], sorted(c[1]), (c[2] if len(c) > 2 else None)]) for c in ensures],
                      "decreases": decreases, "attrs": list(attrs), "tags": sorted(tags), "unit": unit, "hoisted": hoisted,
                      "returns": returns, "no_unwind": no_unwind, "no_fallback": no_fallback})
    im = fw._impl_of(fn)
    pre_attrs = "".join("#[%s]\n" % a for a in attrs)
    if mode == "T":
        pre_attrs += "#[verifier::external_body]\n"
    if im is None:
        if not hoisted:
            fw.insert(fn["span"][0], "verus!{\n" + pre_attrs, rule="W3")
            fw.insert(fn["span"][1], "\n} // verus!\n", rule="W3")
        else:
            fw.insert(fn["span"][0], pre_attrs, rule="W3")
    elif im.get("trait"):
        key = (fw.rel, im["id"])
        if key not in ctx._impl_wrapped:
            ctx._impl_wrapped.add(key)
            if not hoisted:
                fw.insert(im["span"][0], "verus!{\n", rule="W3")
                fw.insert(im["span"][1], "\n} // verus!\n", rule="W3")
        fw.insert(fn["span"][0], pre_attrs, rule="W3")
    else:
        hdr = _impl_header(fw, im)
        fw.insert(fn["span"][0], "}\nverus!{\n" + hdr + " {\n" + pre_attrs, rule="W3")
        fw.insert(fn["span"][1], "\n}\n} // verus!\n" + hdr + " {\n", rule="W3")
    if ret is not None:
        if fn["output_span"] is None:
            raise WeaveError("%s: `%s` has no return type to name" % (fw.rel, qual))
        fw.insert(fn["output_span"][0], "(" + ret + ": ", rule="W10")
        fw.insert(fn["output_span"][1], ")", rule="W10")
    pos = fn["block_span"][0]
    utags = set(tags)
    ftags = utags - {"C12"}   # functional clauses do not speak about C12 unless tagged explicitly
    if requires:
        fw.insert(pos, "\n    requires\n", rule="W10")
        for r in requires:
            ed = fw.insert(pos, "        %s,\n" % r.strip().rstrip(","), rule="W10")
            ctx.clause(unit, "req", r, ftags, ed)
    if ensures:
        fw.insert(pos, "\n    ensures\n", rule="W10")
        for c in ensures:
            if isinstance(c, str):
                c = (c, ftags)
            text, ctags = c[0], c[1]
            ed = fw.insert(pos, "        %s,\n" % text.strip().rstrip(","), rule="W10")
            ctx.clause(unit, "ens", text, set(ctags), ed, name=(c[2] if len(c) > 2 else None))
            utags |= set(ctags)
    if returns:
        fw.insert(pos, "\n    returns %s,\n" % returns, rule="W10")
    if decreases:
        ed = fw.insert(pos, "\n    decreases %s,\n" % decreases, rule="W10")
        ctx.clause(unit, "dec", decreases, {"C12"}, ed)
    if no_unwind:
        fw.insert(pos, "\n    no_unwind\n", rule="W10")
    if ctx.canary and requires and mode == "V":
        ctx.add_canary(fw, unit, fn["block_span"][0] + 1)
    ctx.units[unit] = {"unit": unit, "file": fw.rel, "fn": qual, "mode": mode, "tags": sorted(utags),
                       "span": fn["span"], "line": fw.line_of(fn["sig_span"][0]),
                       "end_line": fw.line_of(fn["span"][1])}
    return fn, unit


def add_unit_tags(ctx, unit, tags):
    u = ctx.units[unit]
    u["tags"] = sorted(set(u["tags"]) | set(tags))


# ----------------------------------------------------------------------------- W10 on loops / statements
def loop_spec(ctx, fw, unit, loopnode, invariants=(), decreases=None, label=None, tags=(), ensures=(), invariant_except_break=()):
    if label is not None:
        if loopnode["kind"] != "for":
            raise WeaveError("loop label on a non-for loop")
        fw.insert(loopnode["expr_span"][0], label + ": ", rule="W10")
    pos = loopnode["body_span"][0]
    if invariant_except_break:
        fw.insert(pos, "\n        invariant_except_break\n", rule="W10")
        for c in invariant_except_break:
            if isinstance(c, str):
                c = (c, tags)
            ed = fw.insert(pos, "            %s,\n" % c[0].strip().rstrip(","), rule="W10")
            ctx.clause(unit, "inv", c[0], set(c[1]), ed)
    if invariants:
        fw.insert(pos, "\n        invariant\n", rule="W10")
        for c in invariants:
            if isinstance(c, str):
                c = (c, tags)
            ed = fw.insert(pos, "            %s,\n" % c[0].strip().rstrip(","), rule="W10")
            ctx.clause(unit, "inv", c[0], set(c[1]), ed)
            add_unit_tags(ctx, unit, c[1])
    if ensures:
        fw.insert(pos, "\n        ensures\n", rule="W10")
        for c in ensures:
            if isinstance(c, str):
                c = (c, tags)
            ed = fw.insert(pos, "            %s,\n" % c[0].strip().rstrip(","), rule="W10")
            ctx.clause(unit, "lens", c[0], set(c[1]), ed)
    if decreases:
        ed = fw.insert(pos, "\n        decreases %s,\n" % decreases, rule="W10")
        ctx.clause(unit, "dec", decreases, set(tags), ed)


def ghost(ctx, fw, unit, pos, text, tags=(), kind="ghost"):
    """insert ghost statements (`proof { .. }`, `let ghost ..`, `assert(..)`) at byte `pos`"""
    ed = fw.insert(pos, "\n" + text.rstrip() + "\n", rule="W10")
    ctx.clause(unit, kind, text, set(tags), ed)
    return ed


def after(fw, node):
    return fw.stmt_of(node)["span"][1]


def before(fw, node):
    return fw.stmt_of(node)["span"][0]


def body_start(node):
    return node["body_span"][0] + 1


def body_end(node):
    return node["body_span"][1] - 1


def fn_end(fn):
    return fn["block_span"][1] - 1


def fn_start(fn):
    return fn["block_span"][0] + 1


# ----------------------------------------------------------------------------- W7 closures
def closure_annot(ctx, fw, unit, c, params=None, ret=None, requires=(), ensures=(), tags=()):
    """give a closure parameter types, a named result and a contract (closures have no inferred
    postcondition in Verus).  params: list of `name: Type` texts replacing the untyped parameters"""
    if params is not None:
        if len(params) != len(c["inputs"]):
            raise WeaveError("%s: closure has %d parameters, contract names %d" % (fw.rel, len(c["inputs"]), len(params)))
        for inp, p in zip(c["inputs"], params):
            if p is None:
                continue
            orig = fw.text(inp["span"])
            if inp["typed"]:
                continue
            if inp["tuple"]:
                # R-closure-tuple: `|(a, b)| BODY` -> `|p__: T| { let (a, b) = p__; BODY }`
                nm, ty = p.split(":", 1)
                fw.replace(inp["span"][0], inp["span"][1], "%s:%s" % (nm.strip(), ty), "W7-R-closure-tuple")
                fw.insert(c["body_span"][0], "{ let %s = %s; " % (orig, nm.strip()), rule="W7-R-closure-tuple", prio=-5)
                fw.insert(c["body_span"][1], " }", rule="W7-R-closure-tuple", prio=5)
                continue
            if inp["wild"]:
                fw.replace(inp["span"][0], inp["span"][1], p, "W7-closure-param")
            else:
                # keep the user's pattern, append the type
                ty = p.split(":", 1)[1]
                fw.insert(inp["span"][1], ":" + ty, rule="W7")
    pos = c["or2"][1]
    spec = ""
    if ret is not None and c["output_span"] is None:
        spec += " -> (" + ret + ")"
    fw.insert(pos, spec, rule="W7")
    if requires:
        fw.insert(pos, " requires ", rule="W7")
        for r in requires:
            ed = fw.insert(pos, r.strip().rstrip(",") + ", ", rule="W7")
            ctx.clause(unit, "creq", r, set(tags), ed)
    if ensures:
        fw.insert(pos, " ensures ", rule="W7")
        for r in ensures:
            ed = fw.insert(pos, r.strip().rstrip(",") + ", ", rule="W7")
            ctx.clause(unit, "cens", r, set(tags), ed)
    if not c["body_is_block"]:
        fw.insert(c["body_span"][0], "{ ", rule="W7")
        fw.insert(c["body_span"][1], " }", rule="W7")


# ----------------------------------------------------------------------------- W6 loop headers
def for_mut_to_iter_mut(fw, loopnode):
    """R-formut: `for P in &mut E` -> `for P in E.iter_mut()`"""
    t = fw.text(loopnode["expr_span"])
    if not t.startswith("&mut "):
        raise WeaveError("%s:%d R-formut: loop expression is not `&mut E`" % (fw.rel, fw.line_of(loopnode["span"][0])))
    s, e = loopnode["expr_span"]
    fw.replace(s, e, t[5:].strip() + ".iter_mut()", "W6-R-formut")


def for_ref_to_iter(fw, loopnode):
    """R-foriter: `for P in &E` -> `for P in E.iter()` (std: `<&Vec<T> as IntoIterator>::into_iter` is `iter`)"""
    t = fw.text(loopnode["expr_span"])
    if not t.startswith("&") or t.startswith("&mut"):
        raise WeaveError("%s:%d R-foriter: loop expression is not `&E`" % (fw.rel, fw.line_of(loopnode["span"][0])))
    s, e = loopnode["expr_span"]
    fw.replace(s, e, t[1:].strip() + ".iter()", "W6-R-foriter")


def body_stmts(fw, node):
    """statements of the body block of a loop node / of a fn"""
    if node["kind"] == "fn":
        return fw.top_stmts(node)
    blocks = [c for c in fw.children.get(node["id"], []) if c["kind"] == "block" and c["span"] == node["body_span"]]
    if len(blocks) != 1:
        raise WeaveError("%s: body block of loop at line %d not found" % (fw.rel, fw.line_of(node["span"][0])))
    return [c for c in fw.children.get(blocks[0]["id"], [])]


def module_ghost(fw, pos, text):
    """ghost items (spec fns, lemmas, assume_specifications for private types) at module level"""
    return fw.insert(pos, "\nverus!{\n" + text.rstrip() + "\n} // verus!\n", rule="W10")


def hoist_impl(ctx, fw, self_ty, within, target):
    ims = fw.impls(self_ty, None, within=within)
    if len(ims) != 1:
        raise WeaveError("%s: nested impl %s found %d times" % (fw.rel, self_ty, len(ims)))
    im = ims[0]
    fw.move(im["span"][0], im["span"][1], target, pre="", suf="\n", rule="W4", what="impl " + self_ty)
    return im


# ----------------------------------------------------------------------------- W6 R-idx
def for_to_index_loop(ctx, fw, unit, loopnode, seq, ivar, enumerate_=None, zip_with=None, elem_ref=True):
    """R-idx: `for P in <iteration over SEQ> { BODY }` ->
         { let mut I: usize = 0; while I < SEQ.len() <spec> { let P = &SEQ[I]; I = I + 1; BODY } }
    `seq` is the indexable expression (Vec or slice) the loop iterates over; the header may be any of
    `&SEQ`, `SEQ` (a slice / a reference), `SEQ.iter()`, each optionally followed by `.enumerate()`;
    `A.iter().zip(B.iter())[.enumerate()]`; or `&X` / `X` with SEQ = `X.0` for the `Attributes` newtype
    (R-intoiter).  The form is detected from the header text; the index is advanced before BODY, so
    `continue` keeps its meaning.  BODY is untouched."""
    hdr = " ".join(fw.text(loopnode["expr_span"]).split())
    h = hdr.replace(" ", "")
    s_ns = seq.replace(" ", "")
    enum = False
    if h.endswith(".enumerate()"):
        enum = True
        h = h[:-len(".enumerate()")]
    if enumerate_ is not None and enumerate_ != enum and False:
        pass
    forms = ["&" + s_ns, s_ns, s_ns + ".iter()"]
    if s_ns.endswith(".0"):
        forms += ["&" + s_ns[:-2], s_ns[:-2]]   # R-intoiter: <&Attributes as IntoIterator>::into_iter is self.0.iter()
        if h in ("&" + s_ns[:-2], s_ns[:-2]):
            g = fw.weave.file("grammar.rs")
            if b"impl<'a> IntoIterator for &'a Attributes" not in g.src or b"self.0.iter()" not in g.src:
                raise WeaveError("R-intoiter: grammar.rs no longer defines <&Attributes>::into_iter as self.0.iter()")
    if zip_with is not None:
        z = zip_with.replace(" ", "")
        forms = [s_ns + ".iter().zip(" + z + ".iter())", s_ns + ".iter().zip(&" + z + ")", s_ns + ".iter().zip(" + z + ")"]
    if h not in forms or (enum and h in ("&" + s_ns, s_ns) and not h.endswith(")") and False):
        raise WeaveError("%s:%d R-idx: loop header `%s` is not an iteration over `%s`" % (fw.rel, fw.line_of(loopnode["span"][0]), hdr, seq))
    pat = fw.text(loopnode["pat_span"])
    cond = "%s < %s.len()" % (ivar, seq) if zip_with is None else "%s < %s.len() && %s < %s.len()" % (ivar, seq, ivar, zip_with)
    amp = "&" if elem_ref else ""
    elem = "%s%s[%s]" % (amp, seq, ivar)
    if zip_with is not None:
        elem = "(%s, %s%s[%s])" % (elem, amp, zip_with, ivar)
    if enum:
        elem = "(%s, %s)" % (ivar, elem)
    fs = loopnode["span"][0]
    bs = loopnode["body_span"][0]
    fw.replace(fs, bs, "{ let mut %s: usize = 0;\n while %s " % (ivar, cond), "W6-R-idx", header=hdr)
    fw.insert(bs + 1, "\n let %s = %s; %s = %s + 1;\n" % (pat, elem, ivar, ivar), rule="W6-R-idx")
    # the closing brace of the wrapper block goes just before the loop's own `}` (which then closes the
    # wrapper), after every other insertion at that position, so that it travels with moved statement ranges
    fw.insert(loopnode["span"][1] - 1, "} ", rule="W6-R-idx", prio=9)
    pos = bs
    fw.insert(pos, "\n        invariant\n            %s <= %s.len(),\n" % (ivar, seq) + ("            %s <= %s.len(),\n" % (ivar, zip_with) if zip_with else ""), rule="W6-R-idx")
    loopnode["_ridx"] = {"ivar": ivar, "seq": seq, "zip": zip_with}


def index_loop_spec(ctx, fw, unit, loopnode, invariants=(), tags=()):
    """invariants of a loop rewritten by R-idx (appended to the generated bounds invariant) + generated decreases"""
    r = loopnode["_ridx"]
    pos = loopnode["body_span"][0]
    for c in invariants:
        if isinstance(c, str):
            c = (c, tags)
        ed = fw.insert(pos, "            %s,\n" % c[0].strip().rstrip(","), rule="W10")
        ctx.clause(unit, "inv", c[0], set(c[1]), ed)
    ed = fw.insert(pos, "        decreases %s.len() - %s,\n" % (r["seq"], r["ivar"]), rule="W6-R-idx")
    ctx.clause(unit, "dec", "%s.len() - %s" % (r["seq"], r["ivar"]), {"C12"}, ed)


# ----------------------------------------------------------------------------- W7 R-slice1
def slice1(fw, fnnode, pat_node):
    """R-slice1: a single-element slice pattern `[P]` matched against `e.as_slice()` / `&e[..]` becomes
    `Some(P)` matched against `slice_single(<same expression>)` (verified 3-line helper in the prelude)."""
    import re
    if len(pat_node["elems"]) != 1:
        raise WeaveError("%s:%d R-slice1: slice pattern does not have exactly one element" % (fw.rel, fw.line_of(pat_node["span"][0])))
    # the match / if-let / let this pattern belongs to
    cur = fw.byid.get(pat_node["parent"])
    while cur is not None and cur["kind"] not in ("match", "expr_let", "let"):
        cur = fw.byid.get(cur["parent"])
    if cur is None:
        raise WeaveError("%s: R-slice1: no scrutinee for slice pattern" % fw.rel)
    sspan = cur["scrutinee_span"] if cur["kind"] == "match" else (cur["expr_span"] if cur["kind"] == "expr_let" else cur["init_span"])
    key = "_slice1_done_%d" % cur["id"]
    ps, pe = pat_node["span"]
    es, ee = pat_node["elems"][0]
    fw.replace(ps, es, "Some(", "W7-R-slice1")
    fw.replace(ee, pe, ")", "W7-R-slice1")
    if not cur.get(key):
        cur[key] = True
        text = fw.text(sspan)
        m = list(re.finditer(r"(&\s*[A-Za-z_][A-Za-z_0-9\.]*\s*\[\s*\.\.\s*\]|[A-Za-z_][A-Za-z_0-9\.]*\s*\.\s*as_slice\s*\(\s*\))", text))
        if len(m) != 1:
            raise WeaveError("%s:%d R-slice1: scrutinee `%s` has no unique slice expression" % (fw.rel, fw.line_of(sspan[0]), text))
        a, b = sspan[0] + m[0].start(), sspan[0] + m[0].end()
        expr = m[0].group(0)
        m2 = re.match(r"^&\s*([A-Za-z_][A-Za-z_0-9\.]*)\s*\[\s*\.\.\s*\]$", expr)
        if m2:
            expr = m2.group(1) + ".as_slice()"   # std: `&v[..]` is `v.as_slice()`
        fw.replace(a, b, "crate::verif_prelude::slice_single(%s)" % expr, "W7-R-slice1")


def slice1_all(fw, fnnode):
    for p in fw.in_fn(fnnode, ("pat_slice",)):
        slice1(fw, fnnode, p)


# ----------------------------------------------------------------------------- W9 R-fmt
def fmt_value(fw, macro_node, helper, str_args=False):
    """R-fmt: a `format!(LIT, args..)` whose *value* matters is redirected to a prelude helper that takes the
    same literal and arguments and has an uninterpreted-function spec over (literal, arguments): a changed
    literal or argument changes the specified value."""
    import re
    t = fw.text(macro_node["span"])
    m = re.match(r"^format!\s*\(\s*(\"(?:[^\"\\]|\\.)*\")\s*(?:,\s*(.*))?\)\s*$", t, re.S)
    if not m:
        raise WeaveError("%s:%d R-fmt: not a format!(\"..\", ..) invocation" % (fw.rel, fw.line_of(macro_node["span"][0])))
    lit, args = m.group(1), (m.group(2) or "").strip().rstrip(",")
    inline = re.findall(r"\{([A-Za-z_][A-Za-z_0-9]*)(?::[^}]*)?\}", lit.replace("{{", ""))
    allargs = [a.strip() for a in args.split(",") if a.strip()] + inline
    if str_args:
        allargs = ["&*" + a for a in allargs]   # `format!` borrows its arguments; `&*x` is `&str` for `x: String | &str`
    fw.replace(macro_node["span"][0], macro_node["span"][1], "crate::verif_prelude::%s(%s, %s)" % (helper, lit, ", ".join(allargs)), "W9-R-fmt")


def rename_wild_for(fw, loopnode, name):
    """`for _ in E` -> `for NAME in E` (Verus needs a named loop variable)"""
    if fw.text(loopnode["pat_span"]).strip() != "_":
        raise WeaveError("%s:%d loop pattern is not `_`" % (fw.rel, fw.line_of(loopnode["span"][0])))
    fw.replace(loopnode["pat_span"][0], loopnode["pat_span"][1], name, "W7-rename-wild")


def hoist_fn(ctx, fw, inner_qual, target):
    """W4: a fn item nested in a function body moves to module level (scoping only)"""
    fn = fw.fn(inner_qual)
    fw.move(fn["span"][0], fn["span"][1], target, pre="verus!{\n", suf="\n} // verus!\n", rule="W4", what="fn " + inner_qual)
    return fn


def from_impl_into_verus(ctx, fw, src_ty, dst_ty, spec_expr, tags=(), trusted=False):
    """a `impl From<S> for D` becomes verified: the impl moves into verus!{} and a ghost
    `FromSpecImpl` states the conversion (vstd checks the body of `from` against it)."""
    ims = fw.impls(dst_ty, "From<%s>" % src_ty)
    if len(ims) != 1:
        raise WeaveError("%s: impl From<%s> for %s found %d times" % (fw.rel, src_ty, dst_ty, len(ims)))
    im = ims[0]
    ctx.specs.append({"recipe": ctx.current_recipe, "kind": "from_impl", "file": fw.rel, "src_ty": src_ty, "dst_ty": dst_ty, "spec_expr": spec_expr,
                      "tags": sorted(tags), "trusted": trusted, "unit": "%s::<From<%s> for %s>::from" % (modpath(fw.rel), src_ty, dst_ty)})
    fw.insert(im["span"][0], "verus!{\nimpl vstd::std_specs::convert::FromSpecImpl<%s> for %s {\n    open spec fn obeys_from_spec() -> bool { true }\n    open spec fn from_spec(v: %s) -> %s { %s }\n}\n" % (src_ty, dst_ty, src_ty, dst_ty, spec_expr), rule="W3")
    fw.insert(im["span"][1], "\n} // verus!\n", rule="W3")
    fns = [n for n in fw.nodes if n["kind"] == "fn" and fw._impl_of(n) is im]
    if trusted:
        fw.insert(fns[0]["span"][0], "#[verifier::external_body]\n", rule="W3")
    unit = "%s::<From<%s> for %s>::from" % (modpath(fw.rel), src_ty, dst_ty)
    ctx.units[unit] = {"unit": unit, "file": fw.rel, "fn": "<From<%s> for %s>::from" % (src_ty, dst_ty), "mode": ("T" if trusted else "V"), "tags": sorted(tags), "span": fns[0]["span"],
                       "line": fw.line_of(fns[0]["span"][0]), "end_line": fw.line_of(fns[0]["span"][1]), "verus_name": None}


# ----------------------------------------------------------------------------- W5 split / outline
def outline(ctx, fw, fnnode, first, last, name, params, args, outs=(), types=(), kind="try", mode="V",
            requires=(), ensures=(), tags=(), unit=None, ret="res", target=None, attrs=(), decreases=None, generics="", method=None, recv="self", call_pre=""):
    """W5: the contiguous statement range first..last of `fnnode` becomes a function of its own.
      kind 'plain'   : fn name(params) -> (T..)                         { STMTS (o..) }          call: let (o..) = name(args);
      kind 'try'     : fn name(params) -> anyhow::Result<(T..)>          { STMTS Ok((o..)) }      call: let (o..) = name(args)?;
      kind 'try-opt' : fn name(params) -> anyhow::Result<Option<(T..)>>  { STMTS Ok(Some((o..))) } call: let Some((o..)) = name(args)? else { return Ok(None); };
    `bail!`, `?` and `return Ok(None)` inside STMTS keep their meaning because the enclosing function has the
    same error / deferral type.  `outs` are the names live after the range (prefix `mut ` allowed), `types`
    their types; both are type-checked by rustc.  STMTS are moved verbatim."""
    s, e = first["span"][0], last["span"][1]
    # the range must be made of whole sibling statements
    if first["parent"] != last["parent"]:
        raise WeaveError("%s: outline %s: range does not consist of sibling statements" % (fw.rel, name))
    bare = [o.replace("mut ", "").strip() for o in outs]
    tup_t = "(" + ", ".join(types) + ("," if len(types) == 1 else "") + ")"
    tup_v = "(" + ", ".join(bare) + ("," if len(bare) == 1 else "") + ")"
    tup_p = "(" + ", ".join(outs) + ("," if len(outs) == 1 else "") + ")"
    if kind == "plain":
        rty, tail, call = tup_t, tup_v, "let %s = %s(%s);" % (tup_p, name, args)
    elif kind == "try":
        rty, tail, call = "anyhow::Result<%s>" % tup_t, "Ok(%s)" % tup_v, "let %s = %s(%s)?;" % (tup_p, name, args)
    elif kind == "try-opt":
        rty, tail, call = "anyhow::Result<Option<%s>>" % tup_t, "Ok(Some(%s))" % tup_v, "let Some(%s) = %s(%s)? else { return Ok(None); };" % (tup_p, name, args)
    else:
        raise WeaveError("outline kind " + kind)
    top = fnnode
    while top["fn"] >= 0:
        top = fw.byid[top["fn"]]
    im = fw._impl_of(top)
    pre_attrs = "".join("#[%s]\n" % a for a in attrs) + ("#[verifier::external_body]\n" if mode == "T" else "")
    if method:
        # the segment mentions `self`: it becomes a method (`method` = "&self" | "&mut self") of the same impl
        if im is None:
            raise WeaveError("%s: outline %s: method segment outside an impl" % (fw.rel, name))
        hdr = _impl_header(fw, im)
        target = im["brace_close"][0]
        call = call.replace("%s(" % name, "%s.%s(" % (recv, name), 1)
        pre = "\n}\nverus!{\n%s {\n%sfn %s%s(%s%s) -> (%s: %s)\n" % (hdr, pre_attrs, name, generics, method, (", " + params) if params else "", ret, rty)
        suf = "\n    %s\n}\n}\n} // verus!\n%s {\n" % (tail, hdr)
    else:
        if target is None:
            target = (im or top)["span"][1]
        pre = "\nverus!{\n%sfn %s%s(%s) -> (%s: %s)\n" % (pre_attrs, name, generics, params, ret, rty)
        suf = "\n    %s\n}\n} // verus!\n" % tail
    unit = unit or "%s::%s" % (modpath(fw.rel), name)
    ctx.specs.append({"recipe": ctx.current_recipe, "kind": "segment", "file": fw.rel, "unit": unit, "host": fw.fn_qualname(fnnode), "mode": mode,
                      "tags": sorted(set(tags) | {t for c in ensures if not isinstance(c, str) for t in c[1]})})
    fw.move(s, e, target, pre=pre, suf=suf, rule="W5", what="segment %s of %s" % (name, fw.fn_qualname(fnnode)), left=call_pre + call)
    utags = set(tags)
    ftags = utags - {"C12"}
    if requires:
        fw.insert(s, "    requires\n", rule="W10")
        for r in requires:
            ed = fw.insert(s, "        %s,\n" % r.strip().rstrip(","), rule="W10")
            ctx.clause(unit, "req", r, ftags, ed)
    if ensures:
        fw.insert(s, "    ensures\n", rule="W10")
        for c in ensures:
            if isinstance(c, str):
                c = (c, ftags)
            ed = fw.insert(s, "        %s,\n" % c[0].strip().rstrip(","), rule="W10")
            ctx.clause(unit, "ens", c[0], set(c[1]), ed, name=(c[2] if len(c) > 2 else None))
            utags |= set(c[1])
    if decreases:
        fw.insert(s, "    decreases %s,\n" % decreases, rule="W10")
    fw.insert(s, "{\n", rule="W5")
    if ctx.canary and requires and mode == "V":
        ctx.add_canary(fw, unit, s)
    ctx.units[unit] = {"unit": unit, "file": fw.rel, "fn": ("%s::%s" % (im["self_ty"], name)) if method else name, "mode": mode, "tags": sorted(utags), "span": [s, e],
                       "line": fw.line_of(s), "end_line": fw.line_of(e), "segment_of": fw.fn_qualname(fnnode)}
    return unit


def stmts_between(fw, fnnode, first, last):
    st = fw.top_stmts(fnnode)
    i, j = st.index(first), st.index(last)
    return st[i:j + 1]


def outline_tail_expr(ctx, fw, fnnode, name, params, args, rtype, mode="V", requires=(), ensures=(), tags=(), unit=None, ret="res", decreases=None):
    """W5 (expression form): the body of `fnnode` is a single tail expression; it becomes the body of a new
    free function `name` and the original function only calls it.  Used to put the body of a method of an
    external trait (e.g. `FromStr::from_str`) under contract."""
    st = fw.top_stmts(fnnode)
    if len(st) != 1 or st[0]["kind"] != "stmt_expr" or st[0].get("semi"):
        raise WeaveError("%s: outline_tail_expr %s: body is not a single tail expression" % (fw.rel, name))
    s, e = st[0]["span"]
    top = fnnode
    while top["fn"] >= 0:
        top = fw.byid[top["fn"]]
    im = fw._impl_of(top)
    target = (im or top)["span"][1]
    unit = unit or "%s::%s" % (modpath(fw.rel), name)
    pre = "\nverus!{\n%sfn %s(%s) -> (%s: %s)\n" % ("#[verifier::external_body]\n" if mode == "T" else "", name, params, ret, rtype)
    fw.move(s, e, target, pre=pre, suf="\n}\n} // verus!\n", rule="W5", what="body of %s as %s" % (fw.fn_qualname(fnnode), name), left="%s(%s)" % (name, args))
    utags = set(tags)
    ftags = utags - {"C12"}
    if requires:
        fw.insert(s, "    requires\n", rule="W10")
        for r in requires:
            ed = fw.insert(s, "        %s,\n" % r.strip().rstrip(","), rule="W10")
            ctx.clause(unit, "req", r, ftags, ed)
    if ensures:
        fw.insert(s, "    ensures\n", rule="W10")
        for c in ensures:
            if isinstance(c, str):
                c = (c, ftags)
            ed = fw.insert(s, "        %s,\n" % c[0].strip().rstrip(","), rule="W10")
            ctx.clause(unit, "ens", c[0], set(c[1]), ed, name=(c[2] if len(c) > 2 else None))
            utags |= set(c[1])
    if decreases:
        fw.insert(s, "    decreases %s,\n" % decreases, rule="W10")
    fw.insert(s, "{\n", rule="W5")
    ctx.units[unit] = {"unit": unit, "file": fw.rel, "fn": name, "mode": mode, "tags": sorted(utags), "span": [s, e],
                       "line": fw.line_of(s), "end_line": fw.line_of(e), "segment_of": fw.fn_qualname(fnnode)}
    return unit


# ----------------------------------------------------------------------------- W9 R-std
def map_collect_result(fw, fnnode, collect_node, seq_is_vec=True, plain_vec=False, slice_recv=False):
    """R-std: `X.iter().map(F).collect::<anyhow::Result<Vec<_>>>()` -> `v_try_map_collect(X.as_slice(), F)`
    (a *verified* prelude helper: a plain loop that applies F to each element in order and stops at the
    first Err, which is what std's `impl FromIterator<Result<A,E>> for Result<V,E>` does)."""
    mp = fw.byid.get(collect_node["id"] + 1)
    # receiver chain: collect <- map <- iter <- X
    kids = [c for c in fw.children.get(collect_node["id"], []) if c["kind"] == "method_call" and c["span"] == collect_node["receiver_span"]]
    if len(kids) != 1 or kids[0]["method"] != "map":
        raise WeaveError("%s:%d R-std map/collect: receiver of collect is not .map(..)" % (fw.rel, fw.line_of(collect_node["span"][0])))
    mp = kids[0]
    kids = [c for c in fw.children.get(mp["id"], []) if c["kind"] == "method_call" and c["span"] == mp["receiver_span"]]
    if len(kids) != 1 or kids[0]["method"] != "iter":
        raise WeaveError("%s:%d R-std map/collect: receiver of map is not .iter()" % (fw.rel, fw.line_of(collect_node["span"][0])))
    it = kids[0]
    tf = fw.text(collect_node["turbofish_span"]) if collect_node["turbofish_span"] else ""
    helper = "v_try_map_collect" if "Result<Vec<_>>" in tf.replace(" ", "") else ("v_map_collect" if (tf == "" and plain_vec) or "Vec<_>" in tf else None)
    if helper is None:
        raise WeaveError("%s:%d R-std map/collect: not collected into Vec<_> / Result<Vec<_>>" % (fw.rel, fw.line_of(collect_node["span"][0])))
    x = fw.text(it["receiver_span"])
    fw.replace(collect_node["span"][0], mp["paren_span"][0] + 1, "crate::verif_prelude::%s(%s%s, " % (helper, " ".join(x.split()), "" if slice_recv else ".as_slice()"), "W9-R-std-map-collect")
    fw.replace(mp["paren_span"][1] - 1, collect_node["span"][1], ")", "W9-R-std-map-collect")
    return mp


def closure_of_call(fw, fnnode, method, nth=1):
    """the closure that is the (first closure) argument of the nth call of `.method(..)` in fnnode"""
    calls = [m for m in fw.in_fn(fnnode, ("method_call",)) if m["method"] == method and any(a["is_closure"] for a in m["args"])]
    if len(calls) < nth:
        raise WeaveError("%s: call #%d of .%s(closure) in `%s` not found" % (fw.rel, nth, method, fw.fn_qualname(fnnode)))
    m = calls[nth - 1]
    aspan = [a["span"] for a in m["args"] if a["is_closure"]][0]
    cs = [c for c in fw.in_fn(fnnode, ("closure",)) if c["span"] == aspan]
    if len(cs) != 1:
        raise WeaveError("%s: closure argument of .%s not found" % (fw.rel, method))
    return cs[0]


def iter_any(fw, fnnode, any_node):
    """R-std: `X.iter().any(F)` -> `v_any(X.as_slice(), F)` (verified prelude helper)"""
    kids = [c for c in fw.children.get(any_node["id"], []) if c["kind"] == "method_call" and c["span"] == any_node["receiver_span"]]
    if len(kids) != 1 or kids[0]["method"] != "iter":
        raise WeaveError("%s:%d R-std any: receiver is not .iter()" % (fw.rel, fw.line_of(any_node["span"][0])))
    x = " ".join(fw.text(kids[0]["receiver_span"]).split())
    fw.replace(any_node["span"][0], any_node["paren_span"][0] + 1, "crate::verif_prelude::v_any(%s.as_slice(), " % x, "W9-R-std-any")


def str_parse(fw, call_node, target_fn):
    """R-parse: `S.parse()` is by definition `FromStr::from_str(S)`; with the body of that `from_str`
    outlined as `target_fn` (W5) the call becomes `target_fn(S.as_str())`."""
    if call_node["method"] != "parse" or call_node["args"]:
        raise WeaveError("R-parse: not a .parse() call")
    recv = " ".join(fw.text(call_node["receiver_span"]).split())
    fw.replace(call_node["span"][0], call_node["span"][1], "%s(%s.as_str())" % (target_fn, recv), "W9-R-parse")


def loop_by_header(fw, fnnode, needle, nth=1):
    """the nth loop of fnnode whose header (iterated expression) contains `needle` (whitespace-insensitive)"""
    nd = needle.replace(" ", "")
    ls = [l for l in fw.loops(fnnode) if l["kind"] == "for" and nd in fw.text(l["expr_span"]).replace(" ", "").replace("\n", "")]
    if len(ls) < nth:
        raise WeaveError("%s: loop over `%s` #%d of `%s` not found" % (fw.rel, needle, nth, fw.fn_qualname(fnnode)))
    return ls[nth - 1] if nth > 0 else ls[nth]


def replace_call(fw, call_node, new_prefix, keep_args_of=None, rule="W9-R-std"):
    """replace `F(ARGS)` by `new_prefix ARGS_TEXT )` where ARGS_TEXT is supplied by the caller"""
    raise NotImplementedError


def let_type(fw, letnode, ty):
    """W7: give an un-annotated `let` an explicit type (what rustc infers anyway; checked by rustc)"""
    if letnode["typed"]:
        return
    fw.insert(letnode["pat_span"][1], ": " + ty, rule="W7-let-type")


def string_cmp_literal(fw, fnnode, within_span):
    """R-streq: `E == "lit"` / `E != "lit"` with `E: String` -> `E.as_str() == "lit"` (std defines
    `impl PartialEq<&str> for String` as comparison of the string slices; Verus specifies `==` on `&str`)"""
    n = 0
    for b in fw.in_fn(fnnode, ("binary",)):
        if b["op"] in ("==", "!=") and within_span[0] <= b["span"][0] and b["span"][1] <= within_span[1] \
                and fw.text(b["right_span"]).lstrip().startswith('"') and not fw.text(b["left_span"]).rstrip().endswith(")"):
            fw.insert(b["left_span"][1], ".as_str()", rule="W9-R-streq")
            n += 1
    if n == 0:
        raise WeaveError("%s: R-streq: no `E == \"lit\"` comparison in the given statement" % fw.rel)


def map_find(fw, fnnode, find_node, us, ps):
    """R-std: `X.iter().map(F).find(G)` -> `v_map_find(X.as_slice(), F, G, Ghost(us), Ghost(ps))` (verified helper)"""
    kids = [c for c in fw.children.get(find_node["id"], []) if c["kind"] == "method_call" and c["span"] == find_node["receiver_span"]]
    if len(kids) != 1 or kids[0]["method"] != "map":
        raise WeaveError("%s:%d R-std map/find: receiver of find is not .map(..)" % (fw.rel, fw.line_of(find_node["span"][0])))
    mp = kids[0]
    kids = [c for c in fw.children.get(mp["id"], []) if c["kind"] == "method_call" and c["span"] == mp["receiver_span"]]
    if len(kids) != 1 or kids[0]["method"] != "iter":
        raise WeaveError("%s:%d R-std map/find: receiver of map is not .iter()" % (fw.rel, fw.line_of(find_node["span"][0])))
    x = " ".join(fw.text(kids[0]["receiver_span"]).split())
    fw.replace(find_node["span"][0], mp["paren_span"][0] + 1, "crate::verif_prelude::v_map_find(%s.as_slice(), " % x, "W9-R-std-map-find")
    fw.replace(mp["paren_span"][1] - 1, find_node["paren_span"][0] + 1, ", ", "W9-R-std-map-find")
    fw.insert(find_node["paren_span"][1] - 1, ", Ghost(%s), Ghost(%s)" % (us, ps), rule="W10", prio=8)


def redirect_call(fw, call_node, helper, rule="W9-R-std-call"):
    """R-std: a call `PATH(args)` of a function Verus cannot be given a spec for goes through a trusted
    prelude wrapper with the same arguments whose body is the original call"""
    fw.replace(call_node["func_span"][0], call_node["func_span"][1], "crate::verif_prelude::" + helper, rule)


def outline_closure_body(ctx, fw, cnode, name, params, args, rtype, mode="V", requires=(), ensures=(), tags=(), unit=None, ret="res", vis=""):
    """W5 (closure form): the body block of a closure becomes a free function `name`; the closure only calls it.
    Used to put the arithmetic inside `iter.try_fold(init, |acc, x| { .. })` under contract although the
    iterator adapter itself cannot be specified."""
    if cnode["body_is_block"]:
        s, e = cnode["body_span"][0] + 1, cnode["body_span"][1] - 1
    else:
        s, e = cnode["body_span"]
    top = fw.byid[cnode["fn"]]
    while top["fn"] >= 0:
        top = fw.byid[top["fn"]]
    im = fw._impl_of(top)
    target = (im or top)["span"][1]
    unit = unit or "%s::%s" % (modpath(fw.rel), name)
    pre = "\nverus!{\n%s%sfn %s(%s) -> (%s: %s)\n" % ("#[verifier::external_body]\n" if mode == "T" else "", vis, name, params, ret, rtype)
    fw.move(s, e, target, pre=pre, suf="\n}\n} // verus!\n", rule="W5", what="body of a closure in %s as %s" % (fw.fn_qualname(top), name), left=" %s(%s) " % (name, args))
    utags = set(tags)
    ftags = utags - {"C12"}
    if requires:
        fw.insert(s, "    requires\n", rule="W10")
        for r in requires:
            ed = fw.insert(s, "        %s,\n" % r.strip().rstrip(","), rule="W10")
            ctx.clause(unit, "req", r, ftags, ed)
    if ensures:
        fw.insert(s, "    ensures\n", rule="W10")
        for c in ensures:
            if isinstance(c, str):
                c = (c, ftags)
            ed = fw.insert(s, "        %s,\n" % c[0].strip().rstrip(","), rule="W10")
            ctx.clause(unit, "ens", c[0], set(c[1]), ed, name=(c[2] if len(c) > 2 else None))
            utags |= set(c[1])
    fw.insert(s, "{\n", rule="W5")
    ctx.units[unit] = {"unit": unit, "file": fw.rel, "fn": name, "mode": mode, "tags": sorted(utags), "span": [s, e],
                       "line": fw.line_of(s), "end_line": fw.line_of(e), "segment_of": fw.fn_qualname(top)}
    return unit


def map_sum(fw, fnnode, sum_node, vals):
    """R-std: `X.iter().map(F).sum()` -> `v_sum_map(X.as_slice(), F, Ghost(vals))` (verified helper; no-overflow is the caller's obligation)"""
    kids = [c for c in fw.children.get(sum_node["id"], []) if c["kind"] == "method_call" and c["span"] == sum_node["receiver_span"]]
    if len(kids) != 1 or kids[0]["method"] != "map":
        raise WeaveError("%s:%d R-std map/sum: receiver of sum is not .map(..)" % (fw.rel, fw.line_of(sum_node["span"][0])))
    mp = kids[0]
    kids = [c for c in fw.children.get(mp["id"], []) if c["kind"] == "method_call" and c["span"] == mp["receiver_span"]]
    if len(kids) != 1 or kids[0]["method"] != "iter":
        raise WeaveError("%s:%d R-std map/sum: receiver of map is not .iter()" % (fw.rel, fw.line_of(sum_node["span"][0])))
    x = " ".join(fw.text(kids[0]["receiver_span"]).split())
    fw.replace(sum_node["span"][0], mp["paren_span"][0] + 1, "crate::verif_prelude::v_sum_map(%s.as_slice(), " % x, "W9-R-std-map-sum")
    fw.replace(mp["paren_span"][1] - 1, sum_node["span"][1], ", Ghost(%s))" % vals, "W9-R-std-map-sum")


def self_reborrow(fw, span):
    """R-self-reborrow (part of W5 for `fn f(mut self)`): inside a segment that became a `&mut self` method,
    `&mut self` / `&self` passed as an argument become `&mut *self` / `&*self` (same object, one indirection more)"""
    import re
    text = fw.src[span[0]:span[1]].decode()
    for m in re.finditer(r"&(mut )?self\b(?!\s*\.)", text):
        a = span[0] + m.start()
        b = span[0] + m.end()
        fw.replace(a, b, "&mut *self" if m.group(1) else "&*self", "W5-R-self-reborrow")


def mut_self_to_local(fw, fnnode, local, stmts):
    """R-mut-self (part of W5 for `fn f(mut self)`, which Verus rejects): the parameter becomes `self`, the body
    starts with `let mut LOCAL = self;`, and `self` is spelled LOCAL in the statements `stmts` that stay in the
    host (the segments that were outlined are `&mut self` methods and are called on LOCAL).  Alpha-renaming only."""
    import re
    s0, e0 = fnnode["sig_span"]
    m = re.search(rb"\bmut\s+self\b", fw.src[s0:e0])
    if not m:
        raise WeaveError("%s: R-mut-self: `%s` does not take `mut self`" % (fw.rel, fw.fn_qualname(fnnode)))
    fw.replace(s0 + m.start(), s0 + m.end(), "self", "W5-R-mut-self")
    fw.insert(fnnode["block_span"][0] + 1, "\n        let mut %s = self;\n" % local, rule="W5-R-mut-self")
    for st in stmts:
        a, b = st["span"]
        for mm in re.finditer(rb"\bself\b", fw.src[a:b]):
            fw.replace(a + mm.start(), a + mm.end(), local, "W5-R-mut-self")


def box_as_ref(fw, call_node):
    """R-std: `b.as_ref()` with `b: &Box<T>` -> `&**b` (the definition of `<Box<T> as AsRef<T>>::as_ref`; the
    allocator parameter of Box makes the method impossible to name in an assume_specification on stable)"""
    if call_node["method"] != "as_ref" or call_node["args"]:
        raise WeaveError("R-box-as-ref: not an .as_ref() call")
    recv = " ".join(fw.text(call_node["receiver_span"]).split())
    fw.replace(call_node["span"][0], call_node["span"][1], "&**%s" % recv, "W9-R-box-as-ref")


def _recv_call(fw, node, method):
    """the method call that is the receiver of `node`, which must be `.method(..)`"""
    kids = [c for c in fw.children.get(node["id"], []) if c["kind"] == "method_call" and c["span"] == node["receiver_span"]]
    if len(kids) != 1 or kids[0]["method"] != method:
        raise WeaveError("%s:%d R-std: receiver of .%s(..) is not .%s(..)" % (fw.rel, fw.line_of(node["span"][0]), node["method"], method))
    return kids[0]


def iter_partition(fw, part_node, ghost):
    """R-std: `X.iter().partition(F)` -> `v_partition(X, F, Ghost(marks))` (verified helper: the elements that
    satisfy F and those that do not, each in the original order, which is what `Iterator::partition` does)"""
    it = _recv_call(fw, part_node, "iter")
    x = " ".join(fw.text(it["receiver_span"]).split())
    fw.replace(part_node["span"][0], part_node["paren_span"][0] + 1, "crate::verif_prelude::v_partition(%s, " % x, "W9-R-std-partition")
    fw.insert(part_node["paren_span"][1] - 1, ", Ghost(%s)" % ghost, rule="W10", prio=8)


def into_iter_rev_find(fw, find_node, ghost):
    """R-std: `V.into_iter().rev().find(G)` -> `v_rfind(V, G, Ghost(marks))` (verified helper: the last element
    of V that satisfies G)"""
    rv = _recv_call(fw, find_node, "rev")
    ii = _recv_call(fw, rv, "into_iter")
    v = " ".join(fw.text(ii["receiver_span"]).split())
    fw.replace(find_node["span"][0], find_node["paren_span"][0] + 1, "crate::verif_prelude::v_rfind(%s, " % v, "W9-R-std-rfind")
    fw.insert(find_node["paren_span"][1] - 1, ", Ghost(%s)" % ghost, rule="W10", prio=8)


def once_chain_map_find(fw, find_node, us, ps):
    """R-std: `std::iter::once(A).chain(B.iter().copied()).map(F).find(G)` ->
    `v_map_find_owned(v_once_chain(A, &B).as_slice(), F, G, Ghost(us), Ghost(ps))` (verified helpers: A followed by
    the elements of B, mapped through F, first result that satisfies G)"""
    mp = _recv_call(fw, find_node, "map")
    ch = _recv_call(fw, mp, "chain")
    once = [c for c in fw.children.get(ch["id"], []) if c["kind"] == "call" and c["span"] == ch["receiver_span"]]
    if len(once) != 1 or once[0]["func"] != "std::iter::once" or len(once[0]["args"]) != 1 or len(ch["args"]) != 1:
        raise WeaveError("%s:%d R-std: not of the form std::iter::once(A).chain(..)" % (fw.rel, fw.line_of(find_node["span"][0])))
    cp = [c for c in fw.children.get(ch["id"], []) if c["kind"] == "method_call" and c["span"] == ch["args"][0]["span"]]
    if len(cp) != 1 or cp[0]["method"] != "copied":
        raise WeaveError("%s:%d R-std: chain argument is not B.iter().copied()" % (fw.rel, fw.line_of(find_node["span"][0])))
    it = _recv_call(fw, cp[0], "iter")
    a = " ".join(fw.text(once[0]["args"][0]["span"]).split())
    b = " ".join(fw.text(it["receiver_span"]).split())
    fw.replace(find_node["span"][0], mp["paren_span"][0] + 1,
               "crate::verif_prelude::v_map_find_owned(crate::verif_prelude::v_once_chain(%s, &%s).as_slice(), " % (a, b), "W9-R-std-once-chain-map-find")
    fw.replace(mp["paren_span"][1] - 1, find_node["paren_span"][0] + 1, ", ", "W9-R-std-once-chain-map-find")
    fw.insert(find_node["paren_span"][1] - 1, ", Ghost(%s), Ghost(%s)" % (us, ps), rule="W10", prio=8)


def eta_ctor(fw, path_node, param, ty, ctor_expr, ret, ens):
    """R-eta: a constructor used as a function value, `.map(Type::Raw)` -> `.map(|p: T| -> (t: R) ensures .. { Type::Raw(p) })`"""
    fw.replace(path_node["span"][0], path_node["span"][1], "|%s: %s| -> (%s) ensures %s, { %s }" % (param, ty, ret, ens, ctor_expr), "W7-R-eta")


# ----------------------------------------------------------------------------- W6 R-idx with filter / W8 closure inlining
def for_filter_to_index_loop(ctx, fw, unit, loopnode, seq, ivar, cvar=None):
    """R-idx-filter: `for P in SEQ.iter().filter(|q| C)[.enumerate()] { BODY }` ->
         { let mut I = 0; let mut N = 0;
           while I < SEQ.len() <spec> { let e__ = &SEQ[I]; I = I + 1; { let q = &e__; if !(C) { continue; } }
                                        let P = e__ | (N, e__); N = N + 1; BODY } }
    The filter condition C and BODY are copied verbatim; `q` is bound to a reference to the element, which is what
    `Iterator::filter` passes to its closure; with `.enumerate()` the index counts the elements that passed."""
    hdr = " ".join(fw.text(loopnode["expr_span"]).split())
    kids = [c for c in fw.children.get(loopnode["id"], []) if c["kind"] == "method_call" and c["span"] == loopnode["expr_span"]]
    if len(kids) != 1:
        raise WeaveError("%s:%d R-idx-filter: loop header is not a method chain" % (fw.rel, fw.line_of(loopnode["span"][0])))
    top = kids[0]
    enum = top["method"] == "enumerate"
    flt = _recv_call(fw, top, "filter") if enum else top
    if flt["method"] != "filter":
        raise WeaveError("%s:%d R-idx-filter: loop header `%s` is not SEQ.iter().filter(..)[.enumerate()]" % (fw.rel, fw.line_of(loopnode["span"][0]), hdr))
    it = _recv_call(fw, flt, "iter")
    if " ".join(fw.text(it["receiver_span"]).split()).replace(" ", "") != seq.replace(" ", ""):
        raise WeaveError("%s:%d R-idx-filter: loop iterates over `%s`, not `%s`" % (fw.rel, fw.line_of(loopnode["span"][0]), fw.text(it["receiver_span"]), seq))
    cl = [c for c in fw.children.get(flt["id"], []) if c["kind"] == "closure" and c["span"] == flt["args"][0]["span"]]
    if len(cl) != 1 or len(cl[0]["inputs"]) != 1 or len(cl[0]["inputs"][0]["names"]) != 1:
        raise WeaveError("%s:%d R-idx-filter: filter argument is not a one-parameter closure" % (fw.rel, fw.line_of(loopnode["span"][0])))
    q = cl[0]["inputs"][0]["names"][0]
    cond = fw.text(cl[0]["body_span"])
    pat = fw.text(loopnode["pat_span"])
    cvar = cvar or (ivar + "_n")
    fs, bs = loopnode["span"][0], loopnode["body_span"][0]
    fw.replace(fs, bs, "{ let mut %s: usize = 0; let mut %s: usize = 0;\n while %s < %s.len() " % (ivar, cvar, ivar, seq), "W6-R-idx-filter", header=hdr)
    elem = "(%s, e__)" % cvar if enum else "e__"
    fw.insert(bs + 1, "\n let e__ = &%s[%s]; %s = %s + 1;\n { let %s = &e__; if !(%s) { continue; } }\n let %s = %s; %s = %s + 1;\n"
              % (seq, ivar, ivar, ivar, q, cond, pat, elem, cvar, cvar), rule="W6-R-idx-filter")
    fw.insert(loopnode["span"][1] - 1, "} ", rule="W6-R-idx-filter", prio=9)
    fw.insert(bs, "\n        invariant\n            %s <= %s.len(),\n            %s <= %s,\n" % (ivar, seq, cvar, ivar), rule="W6-R-idx-filter")
    loopnode["_ridx"] = {"ivar": ivar, "seq": seq, "zip": None}


def inline_closure(fw, fnnode, name, param_decl, result_type=None):
    """W8: a `let`-bound, non-escaping, non-recursive closure that captures `&mut` locals is inlined at its direct
    call sites: `let mut NAME = |p: T| BLOCK;` is removed and every statement `NAME(ARG);` becomes
    `{ let p: T = ARG; BLOCK }` (beta-reduction; BLOCK is copied verbatim, with the edits woven inside it).
    With `result_type` R (the closure is `|p: T| -> R BLOCK` and every call is the statement `NAME(ARG)?;`) the call becomes
    `{ let p: T = ARG; let r__: R = BLOCK; r__?; }`: a `return Err(..)` / `bail!` inside BLOCK leaves the enclosing function
    with the error the `?` would have propagated, the value of BLOCK goes through the same `?`."""
    let = fw.let(fnnode, name)
    cls = [c for c in fw.children.get(let["id"], []) if c["kind"] == "closure" and c["span"] == let["init_span"]]
    if len(cls) != 1 or not cls[0]["body_is_block"]:
        raise WeaveError("%s: W8: `let %s` is not bound to a block-bodied closure" % (fw.rel, name))
    c = cls[0]
    has_out = c.get("output_span") is not None
    if has_out != (result_type is not None) or (has_out and " ".join(fw.text(c["output_span"]).split()) != result_type):
        raise WeaveError("%s: W8: closure `%s` does not have the expected result type %s" % (fw.rel, name, result_type))
    calls = [k for k in fw.in_fn(fnnode, ("call",)) if k["func"] == name]
    if not calls:
        raise WeaveError("%s: W8: closure `%s` is never called" % (fw.rel, name))
    others = [p for p in fw.in_fn(fnnode, ("path",)) if p["text"] == name and not any(k["func_span"] == p["span"] for k in calls)]
    if others:
        raise WeaveError("%s: W8: closure `%s` escapes (used other than as a direct callee)" % (fw.rel, name))
    fw.replace(let["span"][0], let["span"][1], "", "W8-inline-closure", what="definition of closure " + name)
    for k in calls:
        stmt = fw.stmt_of(k)
        if stmt["kind"] != "stmt_expr" or len(k["args"]) != 1:
            raise WeaveError("%s: W8: call of `%s` is not a statement with one argument" % (fw.rel, name))
        want = fw.text(k["span"]).strip() + ("?;" if result_type else ";")
        if "".join(fw.text(stmt["span"]).split()) != "".join(want.split()):
            raise WeaveError("%s: W8: call of `%s` is not the statement `%s`" % (fw.rel, name, want))
        arg = fw.text(k["args"][0]["span"])
        fw.replace(stmt["span"][0], stmt["span"][1], "", "W8-inline-closure", what="call of closure " + name)
        if result_type:
            fw.copy(c["body_span"][0], c["body_span"][1], stmt["span"][0], pre="{ let %s = %s;\n let r__: %s = " % (param_decl, arg, result_type), suf=";\n r__?;\n}", rule="W8-inline-closure")
        else:
            fw.copy(c["body_span"][0], c["body_span"][1], stmt["span"][0], pre="{ let %s = %s;\n" % (param_decl, arg), suf="\n}", rule="W8-inline-closure")
    return c


def strip_prefix_or_self(fw, letnode):
    """R-std: `let N = X.strip_prefix(LIT).unwrap_or(&X);` -> `let N = v_strip_prefix_or_self(&X, LIT);` (trusted
    wrapper whose body is the original expression; its spec is std's: the text after LIT if X starts with LIT, else X)"""
    import re
    t = " ".join(fw.text(letnode["init_span"]).split())
    m = re.match(r'^([A-Za-z_][A-Za-z_0-9]*)\s*\.strip_prefix\((\"(?:[^\"\\]|\\.)*\")\)\s*\.unwrap_or\(&\s*([A-Za-z_][A-Za-z_0-9]*)\)$', t)
    if not m or m.group(1) != m.group(3):
        raise WeaveError("%s:%d R-std strip_prefix: initialiser is not `X.strip_prefix(LIT).unwrap_or(&X)`" % (fw.rel, fw.line_of(letnode["span"][0])))
    fw.replace(letnode["init_span"][0], letnode["init_span"][1], "crate::verif_prelude::v_strip_prefix_or_self(&%s, %s)" % (m.group(1), m.group(2)), "W9-R-std-strip-prefix")


def entry_or_default_push(fw, fnnode):
    """R-std: the statement `M.entry(K).or_default().push(V);` (exactly one in `fnnode`) becomes
    `v_entry_push(&mut M, K, V);` (verified prelude helper: get_mut / insert / push).  M must be a plain local,
    K and V are kept verbatim.  Anything else between the three calls makes the rule fail."""
    pushes = []
    for c in fw.method_calls(fnnode, "push"):
        kids = [k for k in fw.children.get(c["id"], []) if k["kind"] == "method_call" and list(k["span"]) == list(c["receiver_span"])]
        if len(kids) == 1 and kids[0]["method"] == "or_default":
            pushes.append((c, kids[0]))
    if len(pushes) != 1:
        raise WeaveError("%s: R-std entry-push: expected exactly one `.or_default().push(..)` in `%s`" % (fw.rel, fw.fn_qualname(fnnode)))
    push, ordef = pushes[0]
    ents = [k for k in fw.children.get(ordef["id"], []) if k["kind"] == "method_call" and list(k["span"]) == list(ordef["receiver_span"])]
    if len(ents) != 1 or ents[0]["method"] != "entry" or len(ents[0]["args"]) != 1 or len(ordef["args"]) != 0 or len(push["args"]) != 1:
        raise WeaveError("%s: R-std entry-push: not `M.entry(K).or_default().push(V)`" % fw.rel)
    ent = ents[0]
    import re
    recv = fw.text(ent["receiver_span"]).strip()
    if not re.match(r"^[A-Za-z_][A-Za-z_0-9]*$", recv):
        raise WeaveError("%s: R-std entry-push: the map `%s` is not a plain local" % (fw.rel, recv))
    k_txt = fw.text(ent["args"][0]["span"])
    a, b = push["span"]
    v0 = push["args"][0]["span"][0]
    fw.replace(a, v0, "crate::verif_prelude::v_entry_push(&mut %s, %s, " % (recv, k_txt), "W9-R-std-entry-push")
    return recv


# ----------------------------------------------------------------------------- W11 degraded weave
def apply_fallback(ctx, W, recipe, specs, reason):
    """W11: the anchors of recipe `recipe` are gone on this tree.  Its plain functions (found by path only) are
    woven with the *same contracts* under `external_body`, i.e. as trusted contracts; segments and hoisted
    nested functions disappear with their host.  Every property tagged on a unit or clause of the recipe is
    undecided deductively on this tree (the runner falls back to the bounded check for those); the other
    properties keep their proofs, with the recipe's contracts listed as assumptions of the run."""
    units, tags = [], set()
    for sp in specs:
        units.append(sp["unit"])
        tags |= set(sp.get("tags", []))
        for c in sp.get("ensures", []):
            tags |= set(c[1])
    for sp in specs:
        fw = W.file(sp["file"])
        if sp["kind"] == "from_impl":
            from_impl_into_verus(ctx, fw, sp["src_ty"], sp["dst_ty"], sp["spec_expr"], tags=sp["tags"], trusted=True)
        elif sp["kind"] == "fn" and not sp["hoisted"] and not sp.get("no_fallback"):
            plumbing_once(fw)
            fn_into_verus(ctx, fw, sp["qual"], mode="T", ret=sp["ret"], requires=sp["requires"],
                          ensures=[(c[0], tuple(c[1]), c[2]) if c[2] else (c[0], tuple(c[1])) for c in sp["ensures"]],
                          decreases=None, attrs=sp["attrs"], tags=sp["tags"], unit=sp["unit"], returns=sp["returns"], no_unwind=sp["no_unwind"])
    ctx.lost[recipe] = {"reason": reason, "units": units, "tags": sorted(tags)}


def bind_tail(ctx, fw, unit, fnnode, name, proof_text, tags=()):
    """W10 (ghost only): the tail expression `E` of a function becomes `let NAME = E; proof { .. } NAME`, so that a
    proof block can speak about the value that is returned.  The value and the evaluation order are unchanged."""
    st = fw.top_stmts(fnnode)
    if not st or st[-1]["kind"] != "stmt_expr" or st[-1].get("semi"):
        raise WeaveError("%s: bind_tail: `%s` does not end in a tail expression" % (fw.rel, fw.fn_qualname(fnnode)))
    s_, e_ = st[-1]["span"]
    fw.insert(s_, "let %s = " % name, rule="W10-bind-tail")
    ed = fw.insert(e_, ";\n        %s\n        %s" % (proof_text.strip(), name), rule="W10-bind-tail")
    ctx.clause(unit, "ghost", proof_text, set(tags), ed)


def filter_keys_collect(fw, fnnode):
    """R-std: the body `M.iter().filter(|(_, V)| P).map(|(K, _)| K.clone()).collect()` of a function becomes
    `v_filter_keys(&M, |V: &ItemDefinition| P)` (verified prelude helper over vstd's model of HashMap::iter); the
    predicate text P is kept verbatim.  Returns the span of the new closure for its annotation."""
    import re
    st = fw.top_stmts(fnnode)
    if len(st) != 1 or st[0]["kind"] != "stmt_expr":
        raise WeaveError("%s: R-std filter-keys: `%s` is not a single expression" % (fw.rel, fw.fn_qualname(fnnode)))
    a, b = st[0]["span"]
    t = fw.text((a, b))
    m = re.match(r"^\s*([\w.]+)\s*\.iter\(\)\s*\.filter\(\|\(_, (\w+)\)\|\s*(.*?)\)\s*\.map\(\|\((\w+), _\)\|\s*\4\.clone\(\)\)\s*\.collect\(\)\s*$", t, re.S)
    if not m:
        raise WeaveError("%s: R-std filter-keys: `%s` is not M.iter().filter(|(_, v)| P).map(|(k, _)| k.clone()).collect()" % (fw.rel, fw.fn_qualname(fnnode)))
    mp, v, pred = m.group(1), m.group(2), m.group(3).strip()
    return mp, v, pred, (a, b)
