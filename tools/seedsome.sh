#!/bin/bash
cd "$(dirname "$0")/.."
for s in "$@"; do
  p=${s%-*}
  out=$(timeout 900 tools/seedcheck.sh seeded/$s $p 2>&1)
  ex=$(echo "$out" | grep -oE "exit=[0-9]+" | tail -1)
  how=$(echo "$out" | grep -E "^(FAILED-OBLIGATION|BOUNDED-CHECK|UNDECIDED|VIOLATION)" | head -1 | cut -c1-110)
  conf=$(echo "$out" | grep -cE "demo on clean tree: PASS|suite with patch: PASS|demo with patch: FAIL")
  echo "$s $ex confirmed=$conf/3 :: $how" >> work/seedsome.log
done
