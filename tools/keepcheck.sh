#!/bin/bash
# false-alarm test: apply each behaviour-preserving change of seeded/keep/ to a scratch worktree and run checks against it;
# every line must say rc=0 (or rc=2 = undecided, never rc=1).
#   KEEP_GLOB   which diffs (default: all)
#   KEEP_PROPS  which properties (default: every claimed check); a file seeded/keep/<name>.props (one line, space separated)
#               restricts the run for that diff to the properties whose contracts touch the refactored function
cd "$(dirname "$0")/.."
V=$(pwd)
all=$(python3 -c "import json; print(' '.join(c['property_id'] for c in json.load(open('MANIFEST.json'))['checks']))")
for d in ${KEEP_GLOB:-seeded/keep/keep*.diff seeded/keep/sem*.diff seeded/keep/ref*.diff}; do
  k=$(basename $d .diff)
  case $k in *.orig) continue;; esac
  props=${KEEP_PROPS:-$all}
  [ -z "$KEEP_PROPS" ] && [ -f seeded/keep/$k.props ] && props=$(cat seeded/keep/$k.props)
  W=$(mktemp -d /tmp/kc-XXXXXX); rmdir "$W"
  git -C /repo worktree add -q "$W" HEAD || exit 3
  (cd "$W" && git apply "$V/$d") || { echo "$k PATCH DOES NOT APPLY"; git -C /repo worktree remove --force "$W"; continue; }
  for p in $props; do
    out=$(python3 tools/runner.py $p quick --repo "$W" 2>&1); rc=$?
    echo "$k $p rc=$rc $(echo "$out" | grep -vE '^KNOWN' | tail -1 | cut -c1-200)"
  done
  git -C /repo worktree remove --force "$W"
done
