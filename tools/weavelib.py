"""weavelib: splice contracts from /verif/specs into a scratch copy of /repo/src.

The weaver never re-prints code.  Every change to a file is an *edit* against byte ranges of the
original file (taken from tools/spanmap, i.e. from syn's spans):

  insert(pos, text)            ghost text / plumbing (rules W1, W2, W3, W10)
  replace(s, e, text)          a logged mechanical rewrite (rules W6-W9), original bytes kept in the log
  move(s, e, target, pre, suf) relocation of an item or statement range (rules W4, W5); edits that
                               fall inside the moved range travel with it

`render()` produces the woven text together with a segment map (woven byte range -> original byte
range | edit id) that the runner uses to map Verus diagnostics back to /repo file:line and to the
contract clause that failed.
"""
import json, os, re, bisect


class WeaveError(Exception):
    """anchor not found / rule not applicable: the run is UNDECIDED (exit 2), never an alarm"""


class Edit:
    __slots__ = ("eid", "kind", "s", "e", "text", "rule", "meta", "target", "pre", "suf", "seq")

    def __init__(self, eid, kind, s, e, text, rule, meta, target=None, pre="", suf="", seq=0):
        self.eid, self.kind, self.s, self.e, self.text, self.rule, self.meta = eid, kind, s, e, text, rule, meta
        self.target, self.pre, self.suf, self.seq = target, pre, suf, seq


class FileWeave:
    def __init__(self, rel, text, nodes, weave):
        self.rel = rel
        self.src = text  # bytes
        self.nodes = nodes
        self.byid = {n["id"]: n for n in nodes}
        self.edits = []
        self.weave = weave
        self._seq = 0
        self.children = {}
        for n in nodes:
            self.children.setdefault(n["parent"], []).append(n)

    # ------------------------------------------------------------------ lookups
    def text(self, span):
        return self.src[span[0]:span[1]].decode()

    def line_of(self, pos):
        return self.src.count(b"\n", 0, pos) + 1

    def _impl_of(self, n):
        p = self.byid.get(n["parent"])
        while p is not None and p["kind"] not in ("impl",):
            if p["kind"] in ("fn", "mod"):
                break
            p = self.byid.get(p["parent"])
        return p if p is not None and p["kind"] == "impl" else None

    def fn_qualname(self, n):
        """`name`, `Type::name`, `<Trait for Type>::name`, nested: `outer/inner`"""
        parts = []
        cur = n
        while cur is not None:
            if cur["kind"] == "fn":
                im = self._impl_of(cur)
                nm = cur["ident"]
                if im is not None:
                    if im.get("trait"):
                        nm = "<%s for %s>::%s" % (im["trait"], im["self_ty"], nm)
                    else:
                        nm = "%s::%s" % (im["self_ty"], nm)
                parts.append(nm)
            cur = self.byid.get(cur["fn"]) if cur["fn"] >= 0 else None
        return "/".join(reversed(parts))

    def fn(self, qual):
        hits = [n for n in self.nodes if n["kind"] == "fn" and self.fn_qualname(n) == qual]
        if len(hits) != 1:
            raise WeaveError("%s: function `%s` found %d times" % (self.rel, qual, len(hits)))
        return hits[0]

    def has_fn(self, qual):
        return any(n["kind"] == "fn" and self.fn_qualname(n) == qual for n in self.nodes)

    def item(self, kind, ident, within=None):
        hits = [n for n in self.nodes if n["kind"] == kind and n.get("ident") == ident
                and (within is None or self._inside_fn(n, within))]
        if len(hits) != 1:
            raise WeaveError("%s: %s `%s` found %d times" % (self.rel, kind, ident, len(hits)))
        return hits[0]

    def impls(self, self_ty, trait=None, within=None):
        return [n for n in self.nodes if n["kind"] == "impl" and n["self_ty"] == self_ty and n.get("trait") == trait
                and (within is None or self._inside_fn(n, within))]

    def _inside_fn(self, n, fnnode):
        return n["fn"] == fnnode["id"]

    def in_fn(self, fnnode, kinds=None):
        """nodes whose innermost enclosing fn is fnnode, in pre-order"""
        return [n for n in self.nodes if n["fn"] == fnnode["id"] and (kinds is None or n["kind"] in kinds)]

    def loops(self, fnnode):
        return self.in_fn(fnnode, ("for", "while", "loop"))

    def loop(self, fnnode, k):
        ls = self.loops(fnnode)
        if not (1 <= k <= len(ls)):
            raise WeaveError("%s: loop %d of `%s` not found (%d loops)" % (self.rel, k, self.fn_qualname(fnnode), len(ls)))
        return ls[k - 1]

    def closures(self, fnnode):
        return self.in_fn(fnnode, ("closure",))

    def closure(self, fnnode, k):
        cs = self.closures(fnnode)
        if not (1 <= k <= len(cs)):
            raise WeaveError("%s: closure %d of `%s` not found (%d closures)" % (self.rel, k, self.fn_qualname(fnnode), len(cs)))
        return cs[k - 1]

    def let(self, fnnode, name, k=1):
        ls = [n for n in self.in_fn(fnnode, ("let",)) if name in n["names"]]
        if len(ls) < k:
            raise WeaveError("%s: `let %s` #%d of `%s` not found" % (self.rel, name, k, self.fn_qualname(fnnode)))
        return ls[k - 1]

    def top_let(self, fnnode, name, k=1):
        ls = [n for n in self.top_stmts(fnnode) if n["kind"] == "let" and name in n["names"]]
        if len(ls) < k:
            raise WeaveError("%s: top-level `let %s` #%d of `%s` not found" % (self.rel, name, k, self.fn_qualname(fnnode)))
        return ls[k - 1]

    def stmt_of(self, n):
        """outermost statement-level node containing n whose parent is a block / fn (for let: itself)"""
        cur = n
        while True:
            p = self.byid.get(cur["parent"])
            if p is None or p["kind"] in ("block", "fn"):
                return cur
            cur = p

    def top_stmt_of(self, fnnode, n):
        """the top-level statement of fnnode that contains node n"""
        for st in self.top_stmts(fnnode):
            if st["span"][0] <= n["span"][0] and n["span"][1] <= st["span"][1]:
                return st
        raise WeaveError("%s: node at line %d is not inside `%s`" % (self.rel, self.line_of(n["span"][0]), self.fn_qualname(fnnode)))

    def top_stmts(self, fnnode):
        return [n for n in self.children.get(fnnode["id"], []) if n["kind"] in ("let", "stmt_expr", "stmt_macro", "fn", "struct", "impl", "enum", "use", "item_other")]

    def method_calls(self, fnnode, method):
        return [n for n in self.in_fn(fnnode, ("method_call",)) if n["method"] == method]

    def calls(self, fnnode, func):
        return [n for n in self.in_fn(fnnode, ("call",)) if n["func"] == func]

    def within(self, nodes, span):
        return [n for n in nodes if span[0] <= n["span"][0] and n["span"][1] <= span[1]]

    def descendants(self, n, kinds=None):
        out = []
        stack = list(reversed(self.children.get(n["id"], [])))
        while stack:
            c = stack.pop()
            if kinds is None or c["kind"] in kinds:
                out.append(c)
            stack.extend(reversed(self.children.get(c["id"], [])))
        out.sort(key=lambda x: x["id"])
        return out

    # ------------------------------------------------------------------ edits
    def _add(self, kind, s, e, text, rule, meta, **kw):
        self._seq += 1
        eid = "%s#%d" % (self.rel, self._seq)
        ed = Edit(eid, kind, s, e, text, rule, dict(meta or {}), seq=self._seq, **kw)
        self.edits.append(ed)
        return ed

    def insert(self, pos, text, rule="W10", **meta):
        return self._add("insert", pos, pos, text, rule, meta)

    def replace(self, s, e, text, rule, **meta):
        meta = dict(meta)
        meta["original"] = self.src[s:e].decode()
        meta["line"] = self.line_of(s)
        return self._add("replace", s, e, text, rule, meta)

    def copy(self, s, e, target, pre="", suf="", rule="W8", **meta):
        """emit the text of [s,e) (with the edits inside it) once more at `target`; the original stays where it is
        unless another edit removes it"""
        meta = dict(meta)
        meta["line"] = self.line_of(s)
        return self._add("copy", s, e, "", rule, meta, target=target, pre=pre, suf=suf)

    def move(self, s, e, target, pre="", suf="", rule="W4", **meta):
        meta = dict(meta)
        meta["line"] = self.line_of(s)
        return self._add("move", s, e, "", rule, meta, target=target, pre=pre, suf=suf)

    # ------------------------------------------------------------------ render
    def render(self):
        """returns (woven_bytes, segments); segments = list of dicts
        {w0,w1,kind:'orig'|'edit', o0,o1 | eid}.
        Conventions: an insert at byte p is emitted when the text reaches p.  For a moved range
        [s,e): inserts with s <= p < e travel with the range, inserts at e stay behind; the move's
        `left` text is what remains at the original place."""
        ins_at, rep_at, mov_at, mov_to = {}, {}, {}, {}
        for ed in self.edits:
            if ed.kind == "insert":
                ins_at.setdefault(ed.s, []).append(ed)
            elif ed.kind == "replace":
                if ed.s in rep_at:
                    raise WeaveError("%s: two rewrites start at byte %d" % (self.rel, ed.s))
                rep_at[ed.s] = ed
            elif ed.kind == "copy":
                mov_to.setdefault(ed.target, []).append(ed)
            else:
                if ed.s in mov_at:
                    raise WeaveError("%s: two moves start at byte %d" % (self.rel, ed.s))
                mov_at[ed.s] = ed
                mov_to.setdefault(ed.target, []).append(ed)
        points = sorted(set(list(ins_at) + list(rep_at) + list(mov_at) + list(mov_to)))
        out, segs, wpos = [], [], [0]

        def emit_orig(a, b):
            if b > a:
                chunk = self.src[a:b]
                out.append(chunk)
                segs.append({"w0": wpos[0], "w1": wpos[0] + len(chunk), "kind": "orig", "o0": a, "o1": b})
                wpos[0] += len(chunk)

        def emit_text(t, eid):
            b = t.encode()
            if b:
                out.append(b)
                segs.append({"w0": wpos[0], "w1": wpos[0] + len(b), "kind": "edit", "eid": eid})
                wpos[0] += len(b)

        def run(a, b, cur):
            pos = a
            i = bisect.bisect_left(points, pos)
            while True:
                nxt = points[i] if i < len(points) else None
                if nxt is None or nxt > b or (nxt == b and cur is not None):
                    emit_orig(pos, b)
                    return
                emit_orig(pos, nxt)
                pos = nxt
                starts_other_move = pos in mov_at and mov_at[pos] is not cur
                own_start = cur is not None and pos == a
                if not own_start:
                    for m in sorted(mov_to.get(pos, []), key=lambda x: x.seq):
                        emit_text(m.pre, m.eid)
                        run(m.s, m.e, m)
                        emit_text(m.suf, m.eid)
                if starts_other_move:
                    m = mov_at[pos]
                    emit_text(m.meta.get("left", ""), m.eid)
                    pos = m.e
                    i = bisect.bisect_left(points, pos)
                    continue
                for x in sorted(ins_at.get(pos, []), key=lambda x: (x.meta.get("prio", 0), x.seq)):
                    emit_text(x.text, x.eid)
                if pos in rep_at:
                    r = rep_at[pos]
                    emit_text(r.text, r.eid)
                    pos = r.e
                    i = bisect.bisect_left(points, pos)
                    continue
                i = bisect.bisect_right(points, pos)

        run(0, len(self.src), None)
        return b"".join(out), segs


class Weave:
    """whole-crate weave: src tree + spanmap -> woven tree"""

    def __init__(self, src_root, spanmap):
        self.src_root = src_root
        self.files = {}
        self.extra_files = {}
        self.units = {}      # unit name -> dict(file, fn, mode, tags, span)
        self.clauses = {}    # clause id -> dict(unit, kind, text, tags, eid)
        self.rewrites = []   # (rule, file, line, original, replacement)
        for rel, v in spanmap.items():
            if not v["ok"]:
                raise WeaveError("%s does not parse: %s" % (rel, v.get("error")))
            with open(os.path.join(src_root, rel), "rb") as f:
                text = f.read()
            if len(text) != v["len"]:
                raise WeaveError("%s changed between span map and weave" % rel)
            self.files[rel] = FileWeave(rel, text, v["nodes"], self)

    def file(self, rel):
        if rel not in self.files:
            raise WeaveError("file %s not found" % rel)
        return self.files[rel]

    def add_file(self, rel, text):
        self.extra_files[rel] = text

    def write(self, out_root):
        segmaps = {}
        for rel, fw in self.files.items():
            data, segs = fw.render()
            p = os.path.join(out_root, rel)
            os.makedirs(os.path.dirname(p), exist_ok=True)
            with open(p, "wb") as f:
                f.write(data)
            segmaps[rel] = segs
        for rel, text in self.extra_files.items():
            p = os.path.join(out_root, rel)
            os.makedirs(os.path.dirname(p), exist_ok=True)
            with open(p, "w") as f:
                f.write(text)
        return segmaps

    def edit_log(self):
        log = []
        for rel, fw in self.files.items():
            for ed in fw.edits:
                log.append({"eid": ed.eid, "file": rel, "kind": ed.kind, "rule": ed.rule, "s": ed.s, "e": ed.e,
                            "line": fw.line_of(ed.s), "text": ed.text if ed.kind not in ("move", "copy") else (ed.pre + " ... " + ed.suf),
                            "meta": ed.meta, "target": ed.target})
        return log
