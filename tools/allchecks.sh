#!/bin/bash
# run every claimed check (quick) on /repo, validate evidence against the schema, require discharged == obligations
cd /verif
tier=${1:-quick}
for p in $(python3 -c "import json; print(' '.join(c['property_id'] for c in json.load(open('MANIFEST.json'))['checks']))"); do
  out=$(./check $p $tier 2>&1); rc=$?
  v=$(python3-vt - <<PY
import json,jsonschema
ev=json.load(open('/verif/evidence/$p.json'))
try:
    jsonschema.validate(ev,json.load(open('/root/.vp/EVIDENCE.schema.json')))
    ok = ev['coverage']['obligations']==ev['coverage']['discharged'] and ev['tier']=='$tier'
    print('evidence', 'OK' if ok else 'MISMATCH', ev['coverage']['obligations'], ev['coverage']['discharged'], ev['wall_s'])
except Exception as e:
    print('evidence INVALID', str(e)[:100])
PY
)
  echo "$p rc=$rc $(echo "$out" | grep -vE '^KNOWN' | tail -1 | cut -c1-90) | $v | known=$(echo "$out" | grep -c '^KNOWN')"
done
