#!/bin/bash
# run every claimed check (quick) on /repo, validate evidence against the schema, require discharged == obligations
cd /verif
tier=${1:-quick}
# the contract lock (W11 fallback data) must describe the current contract store
cp specs/contracts.lock.json work/lock.before 2>/dev/null
python3 tools/weave.py --repo /repo --out work/woven --write-lock >/dev/null && { cmp -s specs/contracts.lock.json work/lock.before && echo "lock: up to date" || echo "lock: REGENERATED (commit specs/contracts.lock.json)"; }
for p in $(python3 -c "import json; print(' '.join(c['property_id'] for c in json.load(open('MANIFEST.json'))['checks']))"); do
  out=$(VERIF_STRICT=1 ./check $p $tier 2>&1); rc=$?
  [ $rc -ne 0 ] && bad=1
  v=$(python3-vt - <<PY
import json,jsonschema
ev=json.load(open('/verif/evidence/$p.json'))
try:
    jsonschema.validate(ev,json.load(open('/root/.vp/EVIDENCE.schema.json')))
    ok = ev['coverage']['obligations']==ev['coverage']['discharged'] and ev['tier']=='$tier'
    print('evidence', 'OK' if ok else 'MISMATCH', ev['coverage']['obligations'], ev['coverage']['discharged'], ev['wall_s'])
except Exception as e:
    print('evidence INVALID', str(e)[:100])
PY
)
  echo "$p rc=$rc $(echo "$out" | grep -vE '^KNOWN' | tail -1 | cut -c1-90) | $v | known=$(echo "$out" | grep -c '^KNOWN')"
done
# record the tree every check passed on: on exactly this tree an undecided / degraded run is an error (exit 2)
if [ -z "$bad" ] && [ -z "$(git -C /repo status --porcelain -- src)" ]; then
  echo "$(git -C /repo rev-parse HEAD:src) src tree of /repo $(git -C /repo rev-parse --short HEAD)" > baseline_tree.txt; echo "baseline_tree.txt: $(cat baseline_tree.txt)"
fi
