#!/usr/bin/env python3
"""runner.py: decide one property by weaving the contracts into the current /repo tree and
running Verus on the woven real crate.

usage: runner.py <Cxx> quick|thorough [--replay FILE] [--repo DIR]

exit 0  property held on everything explored (KNOWN-FINDING lines possible)
exit 1  `VIOLATION property=<id> replay=<path>` printed: an obligation that is discharged on the
        unchanged tree is no longer discharged
exit 2  UNDECIDED (anchor lost, woven crate does not compile, construct outside Verus' subset,
        resource limit): never an alarm
"""
import argparse, hashlib, json, os, re, shutil, subprocess, sys, time

HERE = os.path.dirname(os.path.abspath(__file__))
VERIF = os.path.dirname(HERE)
WORK = os.path.join(VERIF, "work")
sys.path.insert(0, HERE)
import weave as weave_mod  # noqa
from weavelib import WeaveError  # noqa

VERIFICATION_FAILURES = [
    # (regex on message, kind, is_safety)
    (r"^postcondition not satisfied", "postcondition", False),
    (r"^precondition not satisfied", "precondition", None),   # safety iff the callee is std/vstd
    (r"^invariant not satisfied", "invariant", False),
    (r"^loop invariant not satisfied", "invariant", False),
    (r"^assertion failed", "assertion", False),
    (r"^possible arithmetic underflow/overflow", "overflow", True),
    (r"^possible division by zero", "div0", True),
    (r"^possible bit shift underflow/overflow", "shift", True),
    (r"^decreases not satisfied", "decreases", True),
    (r"^could not prove termination", "decreases", True),
    (r"^unreachable", "panic", True),
    (r"^panic", "panic", True),
    (r"^unable to prove post-condition of closure", "closure-postcondition", False),
    (r"^cannot prove", "other-proof", False),
    (r"^failed to ", "other-proof", False),
    (r"recommendation not met", "recommendation", True),
    (r"^possible .*overflow", "overflow", True),
    (r"^index out of bounds|^possible index", "index", True),
]
RLIMIT_RE = re.compile(r"[Rr]esource limit|rlimit|timed out|time limit")
UNSUPPORTED_RE = re.compile(r"not supported|unsupported|does not yet support|not yet supported|is not allowed|cannot use|disallowed|must be|Verus does not|verus! macro|expected one of")


def modpath(rel):
    """semantic/type_definition/mod.rs -> semantic::type_definition ; semantic/module.rs -> semantic::module"""
    r = rel[:-3]
    if r.endswith("/mod"):
        r = r[:-4]
    return r.replace("/", "::")


def sh(cmd, **kw):
    return subprocess.run(cmd, capture_output=True, text=True, **kw)


def ensure_setup():
    stamp = os.path.join(WORK, "setup.stamp")
    want = sh(["sha256sum", "/repo/Cargo.lock"]).stdout
    ok = (os.path.exists(stamp) and open(stamp).read() == want
          and os.path.exists(os.path.join(WORK, "libanyhow.rlib"))
          and os.path.exists(os.path.join(WORK, "spanmap-target", "release", "spanmap")))
    if not ok:
        r = sh([os.path.join(VERIF, "setup.sh")])
        if r.returncode != 0:
            print(r.stdout[-3000:], r.stderr[-3000:])
            print("UNDECIDED reason=setup-failed")
            sys.exit(2)


def verus_cmd(woven, extra):
    D = os.path.join(WORK, "depsbuild", "target", "debug", "deps")

    def lib(n):
        import glob
        c = sorted(glob.glob(os.path.join(D, "lib%s-*.rlib" % n)))
        if not c:
            raise WeaveError("dependency rlib %s missing; run ./setup.sh" % n)
        return c[0]
    cmd = ["verus", os.path.join(woven, "src", "lib.rs"), "--crate-type=lib", "--crate-name", "pyxis", "--edition", "2021",
           "-L", "dependency=" + D]
    for n in ("syn", "quote", "proc_macro2", "prettyplease", "glob"):
        cmd += ["--extern", "%s=%s" % (n, lib(n))]
    cmd += ["--extern", "anyhow=" + os.path.join(WORK, "libanyhow.rlib"), "--import", "anyhow=" + os.path.join(WORK, "anyhow.vir"),
            "--triggers-mode", "silent", "--error-format=json", "--output-json", "--time"]
    return cmd + list(extra)


class SegMap:
    def __init__(self, meta, repo):
        self.meta = meta
        self.repo = repo
        self.edits = {e["eid"]: e for e in meta["edits"]}
        self._src = {}

    def src(self, rel):
        if rel not in self._src:
            try:
                self._src[rel] = open(os.path.join(self.repo, "src", rel), "rb").read()
            except OSError:
                self._src[rel] = b""
        return self._src[rel]

    def locate(self, rel, woff):
        """woven byte offset -> ('orig', orig_off) | ('edit', eid) | None"""
        for s in self.meta["segmaps"].get(rel, []):
            if s["w0"] <= woff < s["w1"]:
                if s["kind"] == "orig":
                    return ("orig", s["o0"] + (woff - s["w0"]))
                return ("edit", s["eid"])
        return None

    def orig_line(self, rel, off):
        return self.src(rel).count(b"\n", 0, off) + 1

    def woven_range_of(self, rel, span):
        lo, hi = None, None
        for s in self.meta["segmaps"].get(rel, []):
            if s["kind"] == "orig" and s["o1"] > span[0] and s["o0"] < span[1]:
                a = s["w0"] + max(0, span[0] - s["o0"])
                b = s["w1"] - max(0, s["o1"] - span[1])
                lo = a if lo is None else min(lo, a)
                hi = b if hi is None else max(hi, b)
        return (lo, hi)

    def unit_at(self, rel, woff):
        best = None
        for u in self.meta["units"].values():
            if u["file"] != rel:
                continue
            lo, hi = self.woven_range_of(rel, u["span"])
            if lo is not None and lo <= woff < hi:
                if best is None or (hi - lo) < best[1]:
                    best = (u, hi - lo)
        return best[0] if best else None


def parse_diags(stderr):
    out, raw = [], []
    for l in stderr.splitlines():
        l = l.strip()
        if not l:
            continue
        if l.startswith("{"):
            try:
                out.append(json.loads(l))
                continue
            except ValueError:
                pass
        raw.append(l)
    return out, raw


def classify(diags, raw, sm, woven_src):
    """-> dict(failures=[...], undecided=[...])"""
    failures, undecided = [], []
    for d in diags:
        if d.get("level") not in ("error", "warning", "note"):
            continue
        msg = d.get("message", "")
        if d["level"] == "error" and msg.startswith("aborting due to"):
            continue
        if d["level"] != "error" and "recommendation not met" not in msg:
            continue
        prim = [s for s in d.get("spans", []) if s.get("is_primary")] or d.get("spans", [])
        def _unit_of(spans):
            for s in spans[:1]:
                try:
                    rel = os.path.relpath(s["file_name"], woven_src)
                    u = sm.unit_at(rel, s["byte_start"])
                    return u["unit"] if u else None
                except (KeyError, ValueError):
                    return None
            return None
        if d.get("code"):
            undecided.append({"reason": "rustc-error", "message": msg, "code": d["code"].get("code"), "unit": _unit_of(prim),
                              "where": ["%s:%s" % (s["file_name"], s["line_start"]) for s in prim][:2]})
            continue
        kind = None
        for rx, k, safety in VERIFICATION_FAILURES:
            if re.search(rx, msg):
                kind, is_safety = k, safety
                break
        if kind is None:
            if RLIMIT_RE.search(msg):
                undecided.append({"reason": "rlimit", "message": msg})
            elif UNSUPPORTED_RE.search(msg):
                undecided.append({"reason": "unsupported", "message": msg, "unit": _unit_of(prim),
                                  "where": ["%s:%s" % (s["file_name"], s["line_start"]) for s in prim][:2]})
            else:
                undecided.append({"reason": "unknown-diagnostic", "message": msg,
                                  "where": ["%s:%s" % (s["file_name"], s["line_start"]) for s in prim][:2]})
            continue
        f = {"kind": kind, "message": msg, "unit": None, "clause": None, "tags": [], "repo_loc": None, "woven_loc": None,
             "safety": bool(is_safety), "labels": []}
        allspans = d.get("spans", [])
        for c in d.get("children", []):
            allspans = allspans + c.get("spans", [])
        for s in prim[:1]:
            rel = os.path.relpath(s["file_name"], woven_src) if not s["file_name"].startswith("/home/runner") else s["file_name"]
            f["woven_loc"] = "%s:%d" % (rel, s["line_start"])
            f["text"] = (s.get("text") or [{}])[0].get("text", "").strip()[:300]
            u = sm.unit_at(rel, s["byte_start"])
            if u:
                f["unit"] = u["unit"]
            loc = sm.locate(rel, s["byte_start"])
            if loc and loc[0] == "orig":
                f["repo_loc"] = "src/%s:%d" % (rel, sm.orig_line(rel, loc[1]))
            elif loc and loc[0] == "edit":
                e = sm.edits.get(loc[1])
                if e and e["meta"].get("clause"):
                    f["clause"] = e["meta"]["clause"]
        for s in allspans:
            if s["file_name"].endswith("verif_prelude.rs") and kind == "precondition" and not s.get("is_primary"):
                # precondition of a verified R-std helper (closure precondition / no overflow): a safety obligation
                f["safety"] = True
            if s["file_name"].startswith("/home/runner") or "/vstd/" in s["file_name"]:
                f["labels"].append("vstd:" + (s.get("label") or ""))
                if kind == "precondition":
                    f["safety"] = True   # precondition of a std/vstd function (unwrap, index, ...)
                continue
            rel = os.path.relpath(s["file_name"], woven_src)
            loc = sm.locate(rel, s["byte_start"])
            if s.get("label"):
                f["labels"].append(s["label"])
            if loc and loc[0] == "edit" and not s.get("is_primary"):
                e = sm.edits.get(loc[1])
                if e and e["meta"].get("clause"):
                    f["clause"] = e["meta"]["clause"]
        cl = sm.meta["clauses"].get(f["clause"]) if f["clause"] else None
        f["clause_name"] = cl.get("name") if cl else None
        if cl:
            # the clause knows its unit; the position of the diagnostic may lie in a segment that was moved out of it
            f["unit"] = cl["unit"]
        if f["unit"] is None:
            # a failure outside every unit: a vocabulary lemma or prelude helper (pure ghost code)
            f["unit"] = "<specs>"
        if f["safety"]:
            f["tags"] = ["C12"]
        elif cl and cl["tags"] and cl["kind"] in ("ens", "inv", "cens", "lens", "assert", "req", "creq", "ghost"):
            f["tags"] = cl["tags"]
        else:
            u = sm.meta["units"].get(f["unit"])
            f["tags"] = [t for t in (u["tags"] if u else []) if t != "C12"] or (u["tags"] if u else [])
        failures.append(f)
    for l in raw:
        if l.startswith("error") or "panicked" in l or "thread '" in l:
            undecided.append({"reason": "verus-crash", "message": l[:300]})
    return failures, undecided


def load_known():
    p = os.path.join(VERIF, "known_findings.json")
    if not os.path.exists(p):
        return []
    return json.load(open(p)).get("findings", [])


def match_known(f, known, prop):
    for k in known:
        if k.get("status") != "known" or k.get("property") != prop:
            continue
        if k.get("unit") and k["unit"] != f["unit"]:
            continue
        if k.get("kind") and k["kind"] != f["kind"]:
            continue
        if k.get("clause") and k["clause"] != f.get("clause"):
            continue
        if k.get("clause_tag") and k["clause_tag"] != f.get("clause_name"):
            continue
        if k.get("site_text") and k["site_text"] not in (f.get("text") or ""):
            continue
        return k
    return None


def trusted_scan(woven):
    """mechanical scan of the woven crate for every assumption marker"""
    out = []
    pats = [("external_body", r"#\[verifier::external_body\]"), ("assume_specification", r"assume_specification"),
            ("axiom", r"\baxiom fn\b"), ("assume", r"\bassume\s*\("), ("admit", r"\badmit\s*\("),
            ("external_derive", r"#\[verifier::external_derive\]"),
            ("exec_allows_no_decreases_clause", r"exec_allows_no_decreases_clause"),
            ("external", r"#\[verifier::external\]"), ("external_fn_specification", r"external_fn_specification"),
            ("uninterp", r"\buninterp spec fn\b")]
    for root, _, files in os.walk(os.path.join(woven, "src")):
        for fn in sorted(files):
            if not fn.endswith(".rs"):
                continue
            p = os.path.join(root, fn)
            rel = os.path.relpath(p, os.path.join(woven, "src"))
            lines = open(p).read().split("\n")
            for i, l in enumerate(lines):
                if l.strip().startswith("//"):
                    continue
                for name, rx in pats:
                    if re.search(rx, l):
                        ctx = l.strip()
                        if name in ("external_body", "external_derive", "exec_allows_no_decreases_clause", "external"):
                            for j in range(i + 1, min(i + 6, len(lines))):
                                if re.search(r"\b(fn|struct|enum)\b", lines[j]):
                                    ctx = lines[j].strip()
                                    break
                        out.append({"kind": name, "where": "%s:%d" % (rel, i + 1), "what": ctx[:160]})
    return out


def run_verus(woven, extra, timeout=1800):
    cmd = verus_cmd(woven, extra)
    t0 = time.time()
    try:
        r = subprocess.run(cmd, capture_output=True, text=True, timeout=timeout, cwd=VERIF)
    except subprocess.TimeoutExpired:
        return cmd, None, "", "TIMEOUT", time.time() - t0
    try:
        out = json.loads(r.stdout) if r.stdout.strip().startswith("{") else None
    except ValueError:
        out = None
    return cmd, out, r.stdout, r.stderr, time.time() - t0


def witness_search(prop, repo, rundir, seed, timeout=1800, quick=False):
    """bounded differential check of the real code against executable restatements of the property
    (tools/replay).  Returns dict(cases, failures=[...], error)"""
    crate = os.path.join(rundir, "replay-crate")
    os.makedirs(crate, exist_ok=True)
    tmpl = open(os.path.join(HERE, "replay", "Cargo.toml.in")).read().replace("@REPO@", os.path.realpath(repo))
    open(os.path.join(crate, "Cargo.toml"), "w").write(tmpl)
    if os.path.isdir(os.path.join(crate, "src")):
        shutil.rmtree(os.path.join(crate, "src"))
    shutil.copytree(os.path.join(HERE, "replay", "src"), os.path.join(crate, "src"))
    shutil.copy(os.path.join(repo, "Cargo.lock"), os.path.join(crate, "Cargo.lock"))
    base = os.path.join(WORK, "replay-target")
    if os.path.realpath(repo) == "/repo":
        target = base
    else:
        # scratch trees get a private target directory seeded with hard links to the cached dependency
        # artifacts: no race on the output binary between concurrent runs, removed with the run directory
        target = os.path.join(rundir, "replay-target")
        if os.path.isdir(base) and not os.path.isdir(target):
            subprocess.run(["cp", "-al", base, target], capture_output=True)
    env = dict(os.environ, CARGO_NET_OFFLINE="true", CARGO_TARGET_DIR=target)
    b = subprocess.run(["cargo", "build", "--release", "--offline", "-q"], cwd=crate, env=env, capture_output=True, text=True)
    if b.returncode != 0:
        return {"cases": 0, "failures": [], "error": "replay tool does not build against this tree: " + b.stderr[-400:]}
    # the full families are split over SHARDS processes (VERIF_SHARD=i/n, see tools/replay/src/main.rs); the quick slice over 4
    shards = int(os.environ.get("VERIF_SHARDS", "4" if quick else "8"))
    emit_dir = os.path.join(rundir, "emit")
    os.makedirs(emit_dir, exist_ok=True)
    procs = []
    for i in range(shards):
        ed = os.path.join(emit_dir, "s%d" % i)
        os.makedirs(ed, exist_ok=True)
        procs.append(subprocess.Popen([os.path.join(target, "release", "replay"), "witness", prop, str(seed)] + (["quick"] if quick else []), stdout=subprocess.PIPE, stderr=subprocess.PIPE, text=True,
                                      env=dict(os.environ, VERIF_EMIT_DIR=ed, VERIF_SHARD="%d/%d" % (i, shards))))
    outs = []
    deadline = time.time() + timeout
    for pr in procs:
        try:
            o, _ = pr.communicate(timeout=max(1, deadline - time.time()))
            outs.append(o)
        except subprocess.TimeoutExpired:
            for q in procs:
                q.kill()
            return {"cases": 0, "failures": [], "error": "witness search timed out"}
    class _R: pass
    r = _R()
    r.stdout = "\n".join(outs)
    res = {"cases": 0, "failures": [], "error": None, "emitted_files_checked": 0, "distinct_inputs": 0, "distinct_inputs_that_parse": 0, "samples": []}
    for l in r.stdout.splitlines():
        try:
            d = json.loads(l)
        except ValueError:
            continue
        if "cases" in d:
            res["cases"] += d["cases"]
            res["emitted_files_checked"] += d.get("emitted_files_checked", 0)
            res["distinct_inputs"] += d.get("distinct_inputs", 0)
            res["distinct_inputs_that_parse"] += d.get("distinct_inputs_that_parse", 0)
            res["samples"] = (res["samples"] + d.get("samples", []))[:3]
        else:
            res["failures"].append(d)
    res["failures"] = res["failures"][:25]
    return res


def canary_run(a, rundir):
    """vacuity guard (DESIGN 3.6): weave with an `assert(false)` at the entry of every verified unit that has a
    precondition; each of them must be reported as a failed assertion"""
    os.environ["VERIF_CANARY"] = "1"
    try:
        woven = os.path.join(rundir, "woven-canary")
        meta = weave_mod.weave(a.repo, woven)
    finally:
        os.environ.pop("VERIF_CANARY", None)
    sm = SegMap(meta, a.repo)
    cmd, out, so, se, wall = run_verus(woven, ["--num-threads", "16", "--multiple-errors", "50", "--rlimit", "60"])
    diags, raw = parse_diags(se)
    failures, undecided = classify(diags, raw, sm, os.path.join(woven, "src"))
    want = {c["id"]: c["unit"] for c in meta["clauses"].values() if c["kind"] == "canary"}
    got = {f["clause"] for f in failures if f.get("clause") in want}
    return {"units_with_precondition": len(want), "canaries_failed_as_required": len(got),
            "vacuous": sorted(want[c] for c in want if c not in got), "undecided": [u["reason"] for u in undecided][:3]}


def function_results(out):
    res = {}
    if not out:
        return res
    for m in out.get("times-ms", {}).get("smt", {}).get("smt-run-module-times", []):
        for f in m.get("function-breakdown", []):
            res[f["function"]] = {"success": f.get("success"), "ms": f.get("time"), "rlimit": f.get("rlimit"), "mode": f.get("mode:"), "module": m["module"]}
    return res


def unit_verus_name(u):
    # semantic::type_definition::resolve_regions -> pyxis::semantic::type_definition::resolve_regions
    q = u["fn"].split("/")[-1]
    import re as _re
    m = _re.match(r"^<(.+) for (.+)>::(\w+)$", q)
    if m:
        q = "%s::%s" % (m.group(2), m.group(3))
    mod = modpath(u["file"])
    return "pyxis::%s::%s" % (mod, q)


REPO = ["/repo"]


def main():
    ap = argparse.ArgumentParser()
    ap.add_argument("prop")
    ap.add_argument("tier", nargs="?", default="quick")
    ap.add_argument("--replay")
    ap.add_argument("--repo", default="/repo")
    ap.add_argument("--keep", action="store_true")
    a = ap.parse_args()
    REPO[0] = a.repo
    prop = a.prop
    tier = os.environ.get("VERIF_TIER") or a.tier
    if tier not in ("quick", "thorough"):
        tier = "quick"
    seed = int(os.environ.get("VERIF_SEED", "0") or 0)
    t0 = time.time()
    ensure_setup()
    if a.replay:
        sys.exit(do_replay(prop, a))
    rundir = os.path.join(WORK, "run-%s-%s-%d" % (prop, tier, os.getpid()))
    woven = os.path.join(rundir, "woven")
    os.makedirs(rundir, exist_ok=True)
    try:
        rc = decide(prop, tier, seed, a, rundir, woven, t0)
    finally:
        if not a.keep:
            shutil.rmtree(rundir, ignore_errors=True)
    sys.exit(rc)


def do_replay(prop, a):
    """re-run what a replay file records: the concrete input through the real crate, and name the obligations"""
    d = json.load(open(a.replay))
    for f in d.get("failed_obligations", []):
        print("FAILED-OBLIGATION unit=%s kind=%s clause=%s at=%s" % (f.get("unit"), f.get("kind"), f.get("clause"), f.get("repo_loc") or f.get("woven_loc")))
    fi = d.get("failing_input")
    if not fi:
        print("no concrete input recorded (no-failing-input-found); re-run ./check %s quick to re-check the obligations" % prop)
        return 0
    rundir = os.path.join(WORK, "replay-%d" % os.getpid())
    os.makedirs(rundir, exist_ok=True)
    try:
        ws = witness_search(prop, a.repo, rundir, 0)
        hit = [w for w in ws["failures"] if w["input"] == fi["pyxis"] and w["ptr"] == fi["pointer_size"]]
        print("input (pointer size %s):\n%s" % (fi["pointer_size"], fi["pyxis"]))
        print("expected: %s" % fi["expected"])
        if hit:
            print("actual  : %s" % hit[0]["actual"])
            print("REPRODUCED")
            return 1
        print("not reproduced on this tree (%d cases, %d failing)" % (ws["cases"], len(ws["failures"])))
        return 0
    finally:
        shutil.rmtree(rundir, ignore_errors=True)


def decide(prop, tier, seed, a, rundir, woven, t0):
    import props
    return decide_with(prop, tier, seed, a, rundir, woven, t0, {}, 0)


def decide_with(prop, tier, seed, a, rundir, woven, t0, forced, round_):
    import props
    try:
        meta = weave_mod.weave(a.repo, woven, force_degraded=forced)
    except WeaveError as e:
        # anchor lost / rule not applicable: the deductive check cannot be run on this tree.
        # Bounded stand-in: search the input families for a concrete failing input on the real code.
        ws = witness_search(prop, a.repo, rundir, seed) if prop in WITNESS_PROPS else {"cases": 0, "failures": [], "error": "no family"}
        if ws["failures"]:
            rp = write_replay(prop, [], ["(weave failed: %s)" % e], [], ws, note="deductive check UNDECIDED (weave: %s); bounded differential check found a failing input" % e)
            w = ws["failures"][0]
            print("BOUNDED-CHECK property=%s cases=%d failing=%d (deductive check undecided: %s)" % (prop, ws["cases"], len(ws["failures"]), e))
            print("FAILING-INPUT property=%s ptr=%s expected: %s actual: %s" % (prop, w["ptr"], w["expected"][:160], w["actual"][:200]))
            print("VIOLATION property=%s replay=%s" % (prop, rp))
            return 1
        return bounded_only(prop, tier, seed, "weave: %s" % e, ws, props.PROPS.get(prop, {}), t0)
    # W11: recipes whose anchors are gone on this tree were woven under trusted contracts; a property tagged on
    # one of their units or clauses is undecided deductively here (bounded stand-in), the others keep their proofs
    lost = meta.get("lost") or {}
    for r, l in lost.items():
        print("DEGRADED property=%s recipe=%s units=%d tags=%s reason=%s" % (prop, r, len(l["units"]), ",".join(l["tags"]), l["reason"][:200]))
    if lost and tree_is_baseline(a.repo):
        print("UNDECIDED property=%s reason=a contract recipe lost its anchors on the baseline tree: the contract store is out of date" % prop)
        return 2
    lost_tags = {t for l in lost.values() for t in l["tags"]} | ({"C12"} if lost else set())
    if prop in lost_tags:
        why = "; ".join("contract recipe %s lost its anchors (%s)" % (r, l["reason"][:160]) for r, l in lost.items() if prop in l["tags"] or prop == "C12")
        ws = witness_search(prop, a.repo, rundir, seed) if prop in WITNESS_PROPS else {"cases": 0, "failures": [], "error": "no family"}
        if ws["failures"]:
            rp = write_replay(prop, [], ["(degraded weave: %s)" % why], [], ws, note="deductive check UNDECIDED (%s); bounded differential check found a failing input" % why)
            w = ws["failures"][0]
            print("BOUNDED-CHECK property=%s cases=%d failing=%d (deductive check undecided: %s)" % (prop, ws["cases"], len(ws["failures"]), why))
            print("FAILING-INPUT property=%s ptr=%s expected: %s actual: %s" % (prop, w["ptr"], w["expected"][:160], w["actual"][:200]))
            print("VIOLATION property=%s replay=%s" % (prop, rp))
            return 1
        return bounded_only(prop, tier, seed, why, ws, props.PROPS.get(prop, {}), t0)
    sm = SegMap(meta, a.repo)
    extra = ["--num-threads", "16", "--multiple-errors", "20", "--rlimit", "60" if tier == "quick" else "120"]
    if seed:
        extra += ["--smt-option", "smt.random_seed=%d" % (seed % 1000)]
    cmd, out, so, se, wall = run_verus(woven, extra)
    if se == "TIMEOUT":
        print("UNDECIDED property=%s reason=verus-timeout" % prop)
        return 2
    diags, raw = parse_diags(se)
    failures, undecided = classify(diags, raw, sm, os.path.join(woven, "src"))
    # W11, second trigger: the woven text of a unit does not compile / is outside Verus' subset on this tree (a
    # renamed local that a ghost block mentions, a new construct).  If every such diagnostic lies inside a unit,
    # the recipes of those units are degraded to trusted contracts and the run is repeated (at most 3 rounds).
    if undecided and round_ < 3 and os.environ.get("VERIF_NO_DEGRADE") != "1" and not tree_is_baseline(a.repo):
        hard = [u for u in undecided if u["reason"] in ("rustc-error", "unsupported")]
        recs = {}
        for u in hard:
            unit = meta["units"].get(u.get("unit") or "")
            if unit and unit.get("recipe") and not unit["recipe"].startswith("a00"):
                recs[unit["recipe"]] = "%s in the woven text of %s: %s" % (u["reason"], unit["unit"], u.get("message", "")[:120].replace("\n", " "))
        if hard and len(hard) == len(undecided) and recs and all((meta["units"].get(u.get("unit") or "") or {}).get("recipe") in recs for u in hard) and not set(recs) <= set(forced):
            nf = dict(forced)
            nf.update(recs)
            shutil.rmtree(woven, ignore_errors=True)
            return decide_with(prop, tier, seed, a, rundir, woven, t0, nf, round_ + 1)
    # retry unstable proofs: a failure that disappears under another seed / larger rlimit is not a failure
    known0 = load_known()
    fresh = [f for f in failures if not any(match_known(f, known0, p) for p in f["tags"])]
    if fresh and not undecided:
        for k, (sd, rl) in enumerate([(7, 240), (23, 240)]):
            cmd2, out2, so2, se2, w2 = run_verus(woven, ["--num-threads", "16", "--multiple-errors", "20", "--rlimit", str(rl), "--smt-option", "smt.random_seed=%d" % sd])
            d2, r2 = parse_diags(se2)
            f2, u2 = classify(d2, r2, sm, os.path.join(woven, "src"))
            key = lambda f: (f["unit"], f["kind"], f.get("clause"), f.get("woven_loc"))
            keep = {key(f) for f in f2}
            for f in failures:
                if key(f) not in keep and not any(match_known(f, known0, p) for p in f["tags"]):
                    print("NOTE property=%s unstable proof: %s %s failed at rlimit 60 and passed on retry (seed %d, rlimit %d)" % (prop, f["unit"], f["kind"], sd, rl))
            failures = [f for f in failures if key(f) in keep]
            if not failures:
                out = out2
                break
    fres = function_results(out)
    vres = (out or {}).get("verification-results", {})
    units = meta["units"]
    my_units = {k: u for k, u in units.items() if prop in u["tags"]}
    my_clauses = {k: c for k, c in meta["clauses"].items() if prop in c["tags"]}
    my_fail = [f for f in failures if prop in f["tags"]]
    other_fail = [f for f in failures if prop not in f["tags"]]
    trusted = trusted_scan(woven)
    for r, l in lost.items():
        trusted.append({"kind": "degraded-recipe", "where": "specs/contracts/%s.py" % r,
                        "what": "on this tree the anchors of the recipe are gone (%s): its %d units are under TRUSTED contracts for this run" % (l["reason"][:120], len(l["units"]))})
    info = props.PROPS.get(prop, {})
    # ---- undecided?
    if undecided:
        # a compile error / unsupported construct anywhere makes the whole crate unverifiable.
        # Bounded stand-in: search the input families for a concrete failing input on the real code.
        ws = witness_search(prop, a.repo, rundir, seed) if prop in WITNESS_PROPS else {"cases": 0, "failures": [], "error": "no family"}
        if ws["failures"]:
            rp = write_replay(prop, [], cmd, diags, ws, note="deductive check UNDECIDED (%s); bounded differential check found a failing input" % "; ".join(u["reason"] for u in undecided[:3]))
            print("BOUNDED-CHECK property=%s cases=%d failing=%d first: expected %s, actual %s" % (prop, ws["cases"], len(ws["failures"]), ws["failures"][0]["expected"][:120], ws["failures"][0]["actual"][:160]))
            write_evidence(prop, tier, seed, info, meta, my_units, my_clauses, fres, [], trusted, cmd, time.time() - t0, out,
                           note="UNDECIDED deductively; bounded differential check (labelled bounded) found a failing input", undecided=True, witness=ws)
            print("VIOLATION property=%s replay=%s" % (prop, rp))
            return 1
        reasons = "; ".join("%s %s %s" % (u["reason"], u.get("message", "")[:160].replace("\n", " "), " ".join(u.get("where", []))) for u in undecided[:3])
        if any(u["reason"] in ("rlimit", "verus-crash", "unknown-diagnostic") for u in undecided):
            # resource / tool trouble is never turned into a verdict
            for u in undecided[:5]:
                print("UNDECIDED property=%s reason=%s %s %s" % (prop, u["reason"], u.get("message", "")[:200].replace("\n", " "), " ".join(u.get("where", []))))
            return 2
        return bounded_only(prop, tier, seed, reasons, ws, info, t0, cmd=cmd)
    if not vres or (not vres.get("success") and not failures):
        print("UNDECIDED property=%s reason=verus-no-result %s" % (prop, (se or "")[-400:].replace("\n", " ")))
        return 2
    # ---- vacuity guards
    if not my_units or not my_clauses:
        print("UNDECIDED property=%s reason=no-obligations (units=%d clauses=%d)" % (prop, len(my_units), len(my_clauses)))
        return 2
    missing = [u for u in my_units.values() if u["mode"] == "V" and unit_verus_name(u) not in fres]
    if missing:
        print("UNDECIDED property=%s reason=unit-not-seen-by-verus %s" % (prop, ",".join(m["unit"] for m in missing)))
        return 2
    # ---- known findings
    known = load_known()
    viol, kf = [], []
    for f in my_fail:
        k = match_known(f, known, prop)
        if k:
            kf.append((f, k))
        else:
            viol.append(f)
    seen_kf = set()
    for f, k in kf:
        if k.get("id") in seen_kf:
            continue
        seen_kf.add(k.get("id"))
        print("KNOWN-FINDING: property=%s %s" % (prop, k.get("what", f["message"])))
    write_evidence(prop, tier, seed, info, meta, my_units, my_clauses, fres, my_fail, trusted, cmd, time.time() - t0, out,
                   known=[k for _, k in kf], other=other_fail)
    if viol:
        ws = witness_search(prop, a.repo, rundir, seed) if prop in WITNESS_PROPS else {"cases": 0, "failures": [], "error": "no family"}
        rp = write_replay(prop, viol, cmd, diags, ws)
        for f in viol[:8]:
            print("FAILED-OBLIGATION property=%s unit=%s kind=%s clause=%s at=%s :: %s" % (
                prop, f["unit"], f["kind"], f.get("clause"), f.get("repo_loc") or f.get("woven_loc"), f["message"]))
        if ws["failures"]:
            w = ws["failures"][0]
            print("FAILING-INPUT property=%s ptr=%s expected: %s actual: %s" % (prop, w["ptr"], w["expected"][:160], w["actual"][:200]))
            print("VIOLATION property=%s replay=%s" % (prop, rp))
        else:
            print("VIOLATION property=%s replay=%s no-failing-input-found" % (prop, rp))
        return 1
    other_unknown = [f for f in other_fail if not any(match_known(f, known, p) for p in (f["tags"] or [prop]))]
    if other_unknown:
        # Modular proofs: every clause of this property was proved *assuming* the contracts of the functions it
        # calls.  An obligation of another property fails on this tree, so one of those contracts may be false and
        # nothing is counted as proved for this property either.  It is not reported as a violation of THIS property
        # (the failing clause is not part of its statement); the bounded stand-in decides what it can.
        f0 = other_unknown[0]
        why = "a contract outside this property's clauses fails on this tree (%s %s %s, tagged %s): the modular proof of %s may rely on it" % (
            f0["unit"], f0["kind"], (f0.get("clause") or "").split("::")[-1], ",".join(f0["tags"]), prop)
        print("DEPENDS-ON-FAILED-CONTRACT property=%s unit=%s kind=%s clause=%s tags=%s" % (prop, f0["unit"], f0["kind"], f0.get("clause"), ",".join(f0["tags"])))
        ws = witness_search(prop, a.repo, rundir, seed, quick=(tier != "thorough")) if prop in WITNESS_PROPS else {"cases": 0, "failures": [], "error": "no family"}
        if ws["failures"]:
            rp = write_replay(prop, [], cmd, diags, ws, note=why + "; the bounded differential check found a failing input on the real code")
            w = ws["failures"][0]
            print("FAILING-INPUT property=%s ptr=%s expected: %s actual: %s" % (prop, w["ptr"], w["expected"][:160], w["actual"][:200]))
            print("VIOLATION property=%s replay=%s" % (prop, rp))
            return 1
        return bounded_only(prop, tier, seed, why, ws, info, t0, cmd=cmd)
    canary = None
    mutants = None
    if tier == "thorough":
        # mutant self-test (DESIGN 3.6): seeded changes on scratch copies must each fail an obligation of this property
        if os.path.realpath(a.repo) == "/repo" and not os.environ.get("VERIF_NO_MUTANTS"):
            mj = os.path.join(rundir, "mutants.json")
            subprocess.run([sys.executable, os.path.join(HERE, "mutants.py"), "--props", prop, "-j", "8", "--json", mj],
                           capture_output=True, text=True, env=dict(os.environ, VERIF_NO_MUTANTS="1", VERIF_TIER="quick"))
            if os.path.exists(mj):
                mutants = json.load(open(mj))
                mutants["matrix"] = [x for x in mutants["matrix"] if x["property"] == prop]
                for x in mutants["matrix"]:
                    if x["result"] == "SURVIVED":
                        print("WEAK-CONTRACT property=%s mutant=%s survived (reported, does not fail the run)" % (prop, x["mutant"]))
        canary = canary_run(a, rundir)
        if canary["vacuous"] and not canary["undecided"]:
            print("UNDECIDED property=%s reason=vacuous-precondition units=%s" % (prop, ",".join(canary["vacuous"])))
            return 2
    if prop in WITNESS_PROPS:
        # bounded differential check (labelled bounded, never counted as proved): always run, a thinned slice
        # of the families in the quick tier, the full families in the thorough tier
        ws = witness_search(prop, a.repo, rundir, seed, quick=(tier != "thorough"))
        if ws["failures"]:
            rp = write_replay(prop, [], cmd, diags, ws, note="all obligations discharged, but the bounded differential check found a failing input on the real code")
            w = ws["failures"][0]
            print("FAILING-INPUT property=%s ptr=%s expected: %s actual: %s" % (prop, w["ptr"], w["expected"][:160], w["actual"][:200]))
            print("VIOLATION property=%s replay=%s" % (prop, rp))
            return 1
        write_evidence(prop, tier, seed, info, meta, my_units, my_clauses, fres, my_fail, trusted, cmd, time.time() - t0, out,
                       known=[k for _, k in kf], other=other_fail, witness=ws, canary=canary, mutants=mutants)
    nfun = sum(1 for u in my_units.values() if u["mode"] == "V")
    print("OK property=%s units=%d clauses=%d verified_functions_total=%s wall=%.1fs" % (prop, nfun, len(my_clauses), vres.get("verified"), time.time() - t0))
    return 0


VOCAB_PROPS = {
    "layout": ("C01", "C02", "C03", "C06", "C17", "C20"),
    "typedef": ("C01", "C02", "C03", "C05", "C06", "C07", "C15", "C17", "C20"),
    "function": ("C04", "C05", "C16", "C17", "C20"),
    "vftable": ("C02", "C04", "C06", "C10", "C14", "C16", "C17", "C19"),
    "enums": ("C08", "C20"),
    "builtins": ("C01", "C02", "C03"),
    "paths": ("C10", "C11", "C14", "C19"),
    "modules": ("C02", "C10", "C14", "C15"),
    "resolve": ("C10", "C11", "C19"),
    "inherit": ("C07", "C17"),
    "arith": ("C03", "C12"),
    "hierarchy": ("C07",),
    "render": ("C04", "C11", "C16"),
    "equiv": ("C20",),
}
WITNESS_PROPS = {"C07", "C01", "C02", "C03", "C04", "C05", "C06", "C08", "C10", "C11", "C12", "C14", "C15", "C16", "C17", "C19", "C20"}


def bounded_only(prop, tier, seed, reason, ws, info, t0, cmd=None):
    """The tree under check cannot be decided deductively (an anchor of the contract store is gone, or the woven
    crate falls outside what rustc / Verus accept) and the bounded differential check found no failing input.
    That is not a violation: the check reports what it explored - the bounded families only - and says so:
    the evidence of such a run is at exploration level, nothing is counted as proved.  With VERIF_STRICT=1
    (used by the mutant self-test and the seed scripts) the run exits 2 instead, so that 'undecided' stays
    distinguishable from 'held'."""
    print("UNDECIDED-DEDUCTIVE property=%s reason=%s" % (prop, reason[:400]))
    cases = ws.get("cases") or 0
    if ws.get("error") or cases == 0 or (ws.get("distinct_inputs_that_parse") or 0) < 2:
        print("UNDECIDED property=%s reason=no bounded stand-in ran (%s)" % (prop, ws.get("error")))
        return 2
    print("BOUNDED-ONLY property=%s cases=%d distinct_inputs=%d emitted_files_checked=%d failing=0 (labelled bounded; nothing proved on this tree)"
          % (prop, cases, ws.get("distinct_inputs") or 0, ws.get("emitted_files_checked") or 0))
    ev = {"property_id": prop, "tier": tier, "seed": seed, "level": "exploration",
          "coverage": {"evaluations": cases, "distinct_nontrivial": ws.get("distinct_inputs_that_parse") or 0,
                       "rule": "inputs of the generated families of tools/replay (layout / vftable / enum / function / inheritance / resolution / absurd / emit corpus / directory trees, see DESIGN.md 3.7, 3.7b), run through the real crate and compared with executable restatements of the property; distinct = distinct (module texts, pointer size), non-trivial = every module text is non-empty with balanced braces (a cheap stand-in for 'parses')",
                       "samples": ws.get("samples") or ["(no sample recorded)"],
                       "explanation": "the deductive check is UNDECIDED on this tree (%s); this run is the bounded stand-in only and proves nothing" % reason[:300],
                       "emitted_files_checked": ws.get("emitted_files_checked"), "checker_cmd": " ".join(cmd) if cmd else "(the woven crate could not be produced; no verifier run)",
                       "not_covered": info.get("not_covered", [])},
          "assumptions": list(info.get("assumptions", [])), "wall_s": round(time.time() - t0, 2), "violations": 0}
    evdir = os.path.join(VERIF, "evidence") if os.path.realpath(REPO[0]) == "/repo" else os.path.join(WORK, "evidence-scratch")
    os.makedirs(evdir, exist_ok=True)
    with open(os.path.join(evdir, "%s.json" % prop), "w") as f:
        json.dump(ev, f, indent=1)
    if os.environ.get("VERIF_STRICT") == "1" or tree_is_baseline(REPO[0]):
        # on the tree the contract store was written for, an undecided run means the machinery is broken
        print("UNDECIDED property=%s reason=undecided on the baseline tree (or VERIF_STRICT=1): %s" % (prop, reason[:200]))
        return 2
    return 0


def tree_is_baseline(repo):
    """is the source tree under check the one recorded in /verif/baseline_tree.txt (written by tools/allchecks.sh
    after every claimed check passed on it)?"""
    try:
        want = open(os.path.join(VERIF, "baseline_tree.txt")).read().split()[0]
        r = subprocess.run(["git", "-C", repo, "rev-parse", "HEAD:src"], capture_output=True, text=True)
        d = subprocess.run(["git", "-C", repo, "status", "--porcelain", "--", "src"], capture_output=True, text=True)
        return r.returncode == 0 and d.returncode == 0 and r.stdout.strip() == want and not d.stdout.strip()
    except (OSError, IndexError):
        return False


def write_replay(prop, viol, cmd, diags, ws, note=None):
    os.makedirs(os.path.join(VERIF, "replays"), exist_ok=True)
    key = json.dumps([viol, ws.get("failures", [])[:1]], sort_keys=True)
    rp = os.path.join(VERIF, "replays", "%s-%s.json" % (prop, hashlib.sha1(key.encode()).hexdigest()[:10]))
    w = ws["failures"][0] if ws.get("failures") else None
    json.dump({"property": prop, "note": note, "failed_obligations": viol, "checker_cmd": " ".join(cmd),
               "verus_stderr": [d.get("rendered") or d.get("message") for d in diags if d.get("level") == "error"][:20],
               "failing_input": ({"pyxis": w["input"], "pointer_size": w["ptr"], "expected": w["expected"], "actual": w["actual"], "family": w["family"]} if w else None),
               "other_failing_inputs": ws.get("failures", [])[1:6], "witness_search": {"cases": ws.get("cases"), "error": ws.get("error")}},
              open(rp, "w"), indent=1)
    return rp


def write_evidence(prop, tier, seed, info, meta, my_units, my_clauses, fres, my_fail, trusted, cmd, wall, out, note=None,
                   undecided=False, known=(), other=(), witness=None, canary=None, mutants=None):
    failed_units = {f["unit"] for f in my_fail}
    failed_clauses = {f["clause"] for f in my_fail if f.get("clause")}
    vunits = [u for u in my_units.values() if u["mode"] == "V"]
    tunits = [u for u in my_units.values() if u["mode"] == "T"]
    # vocabulary lemmas / verified helpers counted for a property: only those of the vocabulary modules it uses
    vmods = VOCAB_PROPS
    def _counts(v):
        m = v["module"]
        if m.startswith("verif_prelude"):
            return True
        if m.startswith("verif_specs::"):
            return prop in vmods.get(m.split("::")[1], ())
        return False
    lemma_fns = sorted(k for k, v in fres.items() if _counts(v) and v["success"])
    # obligations that are recorded known findings are listed separately and are not counted (neither as
    # obligations nor as discharged): a named clause, or - for a safety obligation without a clause - the unit
    def _is_known(f):
        return any(match_known(f, [k], prop) for k in known)
    kf_clauses = {f.get("clause") for f in my_fail if _is_known(f) and f.get("clause")}
    kf_units = {f["unit"] for f in my_fail if _is_known(f) and not f.get("clause")}
    n_obl = len(my_clauses) - len(kf_clauses) + len([u for u in vunits if u["unit"] not in kf_units]) + len(lemma_fns)
    failed_clauses = failed_clauses - kf_clauses
    n_fail = len(failed_clauses) + len({f["unit"] for f in my_fail if f["unit"] in my_units and not _is_known(f)})
    if undecided:
        n_dis = 0
    else:
        n_dis = n_obl - n_fail
    smt = (out or {}).get("times-ms", {}).get("smt", {})
    samples = []
    for c in list(my_clauses.values())[:12]:
        u = meta["units"].get(c["unit"], {})
        samples.append({"obligation": c["id"], "kind": c["kind"], "text": c["text"][:240], "function": "/repo/src/%s:%s" % (u.get("file"), u.get("line"))})
    rewrites = [{"rule": e["rule"], "at": "src/%s:%d" % (e["file"], e["line"]), "original": e["meta"].get("original", "")[:120], "becomes": e["text"][:120]}
                for e in meta["edits"] if e["kind"] == "replace" and e["rule"] != "W0"]
    moves = [{"rule": e["rule"], "at": "src/%s:%d" % (e["file"], e["line"]), "what": e["meta"].get("what", "")} for e in meta["edits"] if e["kind"] in ("move", "copy")]
    ev = {
        "property_id": prop, "tier": tier, "seed": seed, "level": "proof",
        "coverage": {
            "obligations": n_obl, "discharged": n_dis,
            "checker_cmd": " ".join(cmd),
            "trusted_base": sorted({"%s %s (%s)" % (t["kind"], t["what"], t["where"]) for t in trusted}) + list(info.get("assumptions", [])),
            "samples": samples,
            "functions_under_contract": [{"unit": u["unit"], "mode": {"V": "verified", "T": "trusted contract (assumption)"}[u["mode"]],
                                          "where": "/repo/src/%s:%s-%s" % (u["file"], u["line"], u["end_line"]),
                                          "smt_ms": fres.get(unit_verus_name(u), {}).get("ms"),
                                          "verified": fres.get(unit_verus_name(u), {}).get("success")} for u in my_units.values()],
            "vocabulary_lemmas_verified": lemma_fns,
            "backend": "Verus 0.2026.09.13 (VIR -> AIR -> bundled Z3)",
            "smt_time_ms": smt.get("smt-run"), "smt_rlimit": smt.get("rlimit-run"),
            "verus_verified_total": (out or {}).get("verification-results", {}).get("verified"),
            "verus_errors_total": (out or {}).get("verification-results", {}).get("errors"),
            "mechanical_rewrites": rewrites, "moves": moves,
            "failed_obligations": [{k: f.get(k) for k in ("unit", "kind", "clause", "repo_loc", "woven_loc", "message")} for f in my_fail],
            "failed_obligations_of_other_properties": [{k: f.get(k) for k in ("unit", "kind", "clause", "tags")} for f in other][:20],
            "known_findings_matched": [k.get("what") for k in known],
            "known_finding_obligations_not_counted": sorted(kf_clauses) + sorted(kf_units),
            "not_covered": info.get("not_covered", []),
        },
        "assumptions": list(info.get("assumptions", [])) + ["trusted contracts: " + ", ".join(u["unit"] for u in tunits)] if tunits else list(info.get("assumptions", [])),
        "wall_s": round(wall, 2),
        "violations": len([f for f in my_fail]) - len(known),
    }
    if canary is not None:
        ev["coverage"]["vacuity_canaries"] = canary
    if mutants is not None:
        ev["coverage"]["mutant_self_test"] = mutants
    if witness is not None:
        ev["coverage"]["bounded_differential_check"] = {
            "label": "bounded (not counted in obligations/discharged): inputs of the generated families run through the real crate and compared with an executable restatement of the property",
            "cases": witness.get("cases"), "failing": len(witness.get("failures", [])), "error": witness.get("error"),
            "bound": "single type, <= 2 fields exhaustively (10 field types x 8 addresses x size/align/packed/vftable), 6000 random 3-4 field types; vftables <= 3 functions; enums <= 3 variants; see tools/replay/src/main.rs",
            "backend_stand_in": {
                "label": "bounded stand-in for src/backends/rust.rs (quote!/proc_macro2 token streams are outside Verus' reach; never counted as proved)",
                "what": "the real write_module is run on accepted inputs; the written file is parsed with syn and each emitted item compared with the resolved item (visibility, derives, repr, docs, field order/types, size check, accessors, wrapper signature / address literal by value / ABI / call arguments, enum discriminants as rustc assigns them, AsRef/AsMut set, prologue/epilogue placement, one file per module); C19/C20 compare output bytes",
                "emitted_files_checked": witness.get("emitted_files_checked"),
                "bound": "the emit corpus of tools/replay/src/emit_corpus.rs (about 70 programs x pointer sizes 4 and 8), generated programs of tools/replay/src/gen.rs (150 per pointer size quick, 2500 thorough; only accepted ones are checked), plus every 13th (quick tier: 97th) accepted input of the other families"}}
    if note:
        ev["coverage"]["note"] = note
    evdir = os.path.join(VERIF, "evidence") if os.path.realpath(REPO[0]) == "/repo" else os.path.join(WORK, "evidence-scratch")
    os.makedirs(evdir, exist_ok=True)
    with open(os.path.join(evdir, "%s.json" % prop), "w") as f:
        json.dump(ev, f, indent=1)


if __name__ == "__main__":
    main()
