#!/usr/bin/env python3
"""mutant self-test: apply each seeded change of mutants/catalog.py to a scratch copy of /repo (never to
/repo itself), run the checks of the properties it should break, report the kill matrix.

usage: mutants.py [--only ID,ID] [--props C01,C04] [--tests]   (--tests also runs `cargo test` on each mutant)
"""
import argparse, importlib.util, json, os, shutil, subprocess, sys, tempfile
from concurrent.futures import ThreadPoolExecutor

HERE = os.path.dirname(os.path.abspath(__file__))
VERIF = os.path.dirname(HERE)


def load():
    spec = importlib.util.spec_from_file_location("catalog", os.path.join(VERIF, "mutants", "catalog.py"))
    mod = importlib.util.module_from_spec(spec)
    spec.loader.exec_module(mod)
    return mod.M


def run_one(mu, props_filter, tests):
    d = tempfile.mkdtemp(prefix="pyxmut-", dir="/tmp")
    try:
        shutil.copytree("/repo/src", os.path.join(d, "src"))
        for f in ("Cargo.toml", "Cargo.lock"):
            shutil.copy(os.path.join("/repo", f), d)
        p = os.path.join(d, mu["file"])
        s = open(p).read()
        if s.count(mu["old"]) != 1:
            return mu["id"], {"error": "anchor found %d times" % s.count(mu["old"])}
        open(p, "w").write(s.replace(mu["old"], mu["new"]))
        res = {}
        if tests:
            r = subprocess.run(["cargo", "test", "--offline", "-q"], cwd=d, capture_output=True, text=True,
                               env=dict(os.environ, CARGO_TARGET_DIR=os.path.join(d, "target")))
            res["_tests"] = "pass" if r.returncode == 0 else "FAIL"
        for prop in mu["expect"]:
            if props_filter and prop not in props_filter:
                continue
            r = subprocess.run([sys.executable, os.path.join(HERE, "runner.py"), prop, "quick", "--repo", d], capture_output=True, text=True,
                               env=dict(os.environ, VERIF_STRICT="1"))
            lines = [l for l in r.stdout.splitlines() if l.startswith(("VIOLATION", "UNDECIDED", "OK", "FAILED-OBLIGATION"))]
            res[prop] = {"exit": r.returncode, "lines": lines[:4]}
        return mu["id"], res
    finally:
        shutil.rmtree(d, ignore_errors=True)


def main():
    ap = argparse.ArgumentParser()
    ap.add_argument("--only")
    ap.add_argument("--props")
    ap.add_argument("--tests", action="store_true")
    ap.add_argument("-j", type=int, default=4)
    ap.add_argument("--json")
    a = ap.parse_args()
    ms = load()
    if a.only:
        ms = [m for m in ms if m["id"] in a.only.split(",")]
    pf = a.props.split(",") if a.props else None
    if pf:
        ms = [m for m in ms if set(m["expect"]) & set(pf)]
    killed = survived = undec = 0
    matrix = []
    with ThreadPoolExecutor(max_workers=a.j) as ex:
        for mid, res in ex.map(lambda m: run_one(m, pf, a.tests), ms):
            for prop, r in res.items():
                if prop == "_tests":
                    continue
                if prop == "error":
                    print("%-32s ERROR %s" % (mid, r)); continue
                st = {1: "KILLED", 0: "SURVIVED", 2: "UNDECIDED"}.get(r["exit"], "exit%d" % r["exit"])
                killed += r["exit"] == 1
                survived += r["exit"] == 0
                undec += r["exit"] == 2
                print("%-32s %s %-9s %s %s" % (mid, prop, st, res.get("_tests", ""), (r["lines"][0] if r["lines"] else "")[:150]))
                matrix.append({"mutant": mid, "property": prop, "result": st, "by": (r["lines"][0] if r["lines"] else "")[:200]})
    print("killed=%d survived=%d undecided=%d" % (killed, survived, undec))
    if a.json:
        json.dump({"killed": killed, "survived": survived, "undecided": undec, "matrix": matrix}, open(a.json, "w"), indent=1)


if __name__ == "__main__":
    main()
