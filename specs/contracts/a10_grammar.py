"""Leaf functions of grammar.rs used by the semantic layer (verified verbatim)."""
import rules
from rules import fn_into_verus

U = ("C04", "C05", "C08", "C11", "C12", "C14", "C15", "C16", "C17")


def apply(ctx, W):
    fw = W.file("grammar.rs")
    fn_into_verus(ctx, fw, "Ident::as_str", ret="r", tags=U, ensures=["r@ == self.0@"])
    fn_into_verus(ctx, fw, "ItemPathSegment::as_str", ret="r", tags=U, ensures=["r@ == self.0@"])
    fn_into_verus(ctx, fw, "Attribute::function", ret="r", tags=U, ensures=[
        "r == (match *self { Attribute::Function(ident, exprs) => Some((&ident, &exprs)), _ => None::<(&Ident, &Vec<Expr>)> })"])
    fn_into_verus(ctx, fw, "Attribute::assign", ret="r", tags=U, ensures=[
        "r == (match *self { Attribute::Assign(ident, expr) => Some((&ident, &expr)), _ => None::<(&Ident, &Expr)> })"])
    fn_into_verus(ctx, fw, "Expr::int_literal", ret="r", tags=U, ensures=[
        "r == (match *self { Expr::IntLiteral(v) => Some(v), _ => None::<isize> })"])
    fn_into_verus(ctx, fw, "Expr::string_literal", ret="r", tags=U, ensures=[
        "match *self { Expr::StringLiteral(v) => r is Some && r->0@ == v@, _ => r is None }"])
    fn_into_verus(ctx, fw, "ItemPath::len", ret="r", tags=U, ensures=["r == self.0@.len()"])
    fn_into_verus(ctx, fw, "ItemPath::is_empty", ret="r", tags=U, ensures=["r == (self.0@.len() == 0)"])
    # ItemPath::join / parent: verified against the path vocabulary (they used to be assumed contracts)
    fj, uj = fn_into_verus(ctx, fw, "ItemPath::join", ret="r", tags=U + ("C19",), ensures=["r == spec_join(*self, segment.0@)"])
    rules.ghost(ctx, fw, uj, fj["block_span"][0] + 1, "let ghost seg0 = segment;")
    rules.bind_tail(ctx, fw, uj, fj, "joined", """proof {
            assert(joined.0@ =~= self.0@.push(seg0));
            assert(path_view(joined) =~= path_view(*self).push(seg0.0@));
            axiom_spec_join(*self, seg0.0@);
            axiom_path_ext(joined, spec_join(*self, seg0.0@));
        }""", tags=U)
    fp, up = fn_into_verus(ctx, fw, "ItemPath::parent", ret="r", tags=U + ("C19",), ensures=["r == spec_parent(*self)"])
    cp = rules.closure_of_call(fw, fp, "then")
    rules.closure_annot(ctx, fw, up, cp, ret="q: ItemPath", requires=["self.0@.len() > 0"], ensures=["q.0@ =~= self.0@.drop_last()"], tags=U)
    rules.bind_tail(ctx, fw, up, fp, "par", """proof {
            axiom_spec_parent(*self);
            if self.0@.len() > 0 {
                let q = par->0;
                assert(path_view(q) =~= path_view(*self).drop_last());
                axiom_path_ext(q, spec_parent(*self)->0);
            }
        }""", tags=U)
