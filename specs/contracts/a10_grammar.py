"""Leaf functions of grammar.rs used by the semantic layer (verified verbatim)."""
import rules
from rules import fn_into_verus

U = ("C04", "C05", "C08", "C11", "C12", "C14", "C15", "C16", "C17")


def apply(ctx, W):
    fw = W.file("grammar.rs")
    fn_into_verus(ctx, fw, "Ident::as_str", ret="r", tags=U, ensures=["r@ == self.0@"])
    fn_into_verus(ctx, fw, "ItemPathSegment::as_str", ret="r", tags=U, ensures=["r@ == self.0@"])
    fn_into_verus(ctx, fw, "Attribute::function", ret="r", tags=U, ensures=[
        "r == (match *self { Attribute::Function(ident, exprs) => Some((&ident, &exprs)), _ => None::<(&Ident, &Vec<Expr>)> })"])
    fn_into_verus(ctx, fw, "Attribute::assign", ret="r", tags=U, ensures=[
        "r == (match *self { Attribute::Assign(ident, expr) => Some((&ident, &expr)), _ => None::<(&Ident, &Expr)> })"])
    fn_into_verus(ctx, fw, "Expr::int_literal", ret="r", tags=U, ensures=[
        "r == (match *self { Expr::IntLiteral(v) => Some(v), _ => None::<isize> })"])
    fn_into_verus(ctx, fw, "Expr::string_literal", ret="r", tags=U, ensures=[
        "match *self { Expr::StringLiteral(v) => r is Some && r->0@ == v@, _ => r is None }"])
    fn_into_verus(ctx, fw, "ItemPath::len", ret="r", tags=U, ensures=["r == self.0@.len()"])
    fn_into_verus(ctx, fw, "ItemPath::is_empty", ret="r", tags=U, ensures=["r == (self.0@.len() == 0)"])
