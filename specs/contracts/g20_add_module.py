"""SemanticState::add_module (C14 C15 C02 C12): extern value extraction, registration of definitions and
extern types, duplicate rejection."""
import rules
from rules import fn_into_verus, ghost, closure_annot, after, before, body_start, body_end, closure_of_call, loop_by_header

U = ("C02", "C12", "C14", "C15", "C19")


def apply(ctx, W):
    g = W.file("grammar.rs")
    rules.from_impl_into_verus(ctx, g, "&str", "ItemPathSegment", "crate::verif_specs::spec_segment(v@)", tags=("C14",), trusted=False)
    im_s = g.impls("ItemPathSegment", "From<&str>")[0]
    f_s = [n for n in g.nodes if n["kind"] == "fn" and g._impl_of(n) is im_s][0]
    rules.bind_tail(ctx, g, "grammar::<From<&str> for ItemPathSegment>::from", f_s, "seg", """proof {
            crate::verif_specs::axiom_spec_segment(value@);
            crate::verif_specs::axiom_segment_ext(seg, crate::verif_specs::spec_segment(value@));
        }""", tags=("C14",))
    m = W.file("semantic/module.rs")
    rules.plumbing_once(m)
    mn = m.fn("Module::new")
    # W5 (verified segment): the grouping of backend blocks by backend name.  The entry API is replaced by the
    # verified helper v_entry_push (R-std); the loop is proved against `spec_backend_group`
    l_bk = loop_by_header(m, mn, "backends")
    ub = rules.outline(ctx, m, mn, m.top_let(mn, "backends_map"), m.top_stmt_of(mn, l_bk), "new__backends", "backends: &[grammar::Backend]", "backends",
                       outs=["backends_map"], types=["HashMap<String, Vec<Backend>>"], kind="plain", mode="V", tags=("C14",),
                       ensures=[("backends_grouped(backends@, backends@.len() as int, res.0@)", ("C14",), "backends-grouped")])
    push_stmt = m.stmt_of(m.method_calls(mn, "or_default")[0]) if len(m.method_calls(mn, "or_default")) == 1 else None
    if push_stmt is None:
        raise rules.WeaveError("Module::new: expected one `.or_default()` call")
    rules.entry_or_default_push(m, mn)
    ghost(ctx, m, ub, before(m, push_stmt), "let ghost m0__ = backends_map@;")
    ghost(ctx, m, ub, after(m, push_stmt), """proof {
                let n = i_b as int;
                let bs = backends@;
                let k = bs[n - 1].name.0;
                let v = Backend { prologue: bs[n - 1].prologue, epilogue: bs[n - 1].epilogue };
                assert(crate::verif_prelude::entry_pushed(m0__, backends_map@, k, v));
                assert forall|name: String| #[trigger] backends_map@.contains_key(name) <==> spec_backend_group(bs, n, name).len() > 0 by {
                    if name == k { } else { assert(m0__.contains_key(name) <==> spec_backend_group(bs, n - 1, name).len() > 0); }
                }
                assert forall|name: String| #[trigger] backends_map@.contains_key(name) implies backends_map@[name]@ == spec_backend_group(bs, n, name) by {
                    if name == k {
                        if m0__.contains_key(k) { } else { assert(spec_backend_group(bs, n - 1, k).len() == 0); assert(spec_backend_group(bs, n, k) =~= seq![v]); }
                    } else { assert(m0__.contains_key(name)); }
                }
            }""")
    rules.for_to_index_loop(ctx, m, ub, l_bk, seq="backends", ivar="i_b", elem_ref=True)
    rules.index_loop_spec(ctx, m, ub, l_bk, tags=("C14",), invariants=[
        ("backends_grouped(backends@, i_b as int, backends_map@)", ("C14",)),
    ])
    fnn, un = fn_into_verus(ctx, m, "Module::new", ret="r", tags=("C05", "C10", "C12", "C14", "C15", "C17"), ensures=[
        ("""r is Ok ==> r->Ok_0.path == path && r->Ok_0.ast == ast && r->Ok_0.extern_values == extern_values
                && r->Ok_0.definition_paths@ == Set::<ItemPath>::empty()""", ("C14", "C15"), "module-fields"),
        ("r is Ok ==> impl_blocks_kept(path, impls@, r->Ok_0.impls@)", ("C05", "C10", "C14"), "impl-blocks-kept"),
        ("r is Ok ==> opt_string_view(r->Ok_0.doc) == spec_doc(ast.attributes.0@)", ("C17",), "module-doc"),
        ("r is Ok ==> backends_grouped(backends@, backends@.len() as int, r->Ok_0.backends@)", ("C14",), "backends-grouped"),
    ])
    l_im = loop_by_header(m, mn, "impls")
    rules.for_to_index_loop(ctx, m, un, l_im, seq="impls", ivar="i_i", elem_ref=True)
    rules.index_loop_spec(ctx, m, un, l_im, tags=("C05", "C14"), invariants=[
        ("forall|k: int| 0 <= k < i_i ==> impls_map@.contains_key(#[trigger] spec_join(path, impls@[k].name.0@)) && impls_map@[spec_join(path, impls@[k].name.0@)] == impls@[k]", ("C05", "C14")),
        ("forall|p: ItemPath| #[trigger] impls_map@.contains_key(p) ==> exists|k: int| 0 <= k < i_i && p == spec_join(path, #[trigger] impls@[k].name.0@)", ("C05", "C14")),
    ])

    ss = W.file("semantic/semantic_state.rs")
    fn, u = fn_into_verus(ctx, ss, "SemanticState::add_module", ret="res", tags=U, ensures=[
        ("""res is Ok ==> final(self).modules@.contains_key(*path)
                && extern_values_ok(module.extern_values@, final(self).modules@[*path].extern_values@)""", ("C15",), "extern-values"),
        ("res is Ok ==> definitions_registered(&final(self).type_registry, *path, module.definitions@, module.definitions@.len() as int)", ("C14",), "definitions-registered"),
        ("res is Ok ==> extern_types_registered(&final(self).type_registry, *path, module.extern_types@, module.extern_types@.len() as int)", ("C14", "C02"), "extern-types-registered"),
        ("res is Ok ==> registry_extends(&old(self).type_registry, &final(self).type_registry)", ("C14", "C19"), "no-silent-overwrite"),
        # the precondition of SemanticState::build (established by SemanticState::new) survives every add_module, failed or not
        ("reg_wf(&old(self).type_registry) ==> reg_wf(&final(self).type_registry)", ("C10", "C01", "C02"), "add-module-keeps-reg-wf"),
        ("""res is Ok ==> forall|j: int| 0 <= j < module.definitions@.len() ==>
                final(self).modules@[*path].definition_paths@.contains(#[trigger] spec_join(*path, module.definitions@[j].name.0@))""", ("C14",), "definition-paths"),
        ("res is Ok ==> impl_blocks_kept(*path, module.impls@, final(self).modules@[*path].impls@)", ("C05", "C10", "C14"), "impl-blocks-kept"),
        ("res is Ok ==> opt_string_view(final(self).modules@[*path].doc) == spec_doc(module.attributes.0@)", ("C17",), "module-doc"),
        ("res is Ok ==> backends_grouped(module.backends@, module.backends@.len() as int, final(self).modules@[*path].backends@)", ("C14",), "backends-grouped"),
        ("""res is Ok ==> forall|i: int, j: int| 0 <= i < j < module.extern_values@.len() ==>
                (#[trigger] module.extern_values@[i]).name.0@ != (#[trigger] module.extern_values@[j]).name.0@""", ("C14",), "extern-value-names-distinct"),
    ])
    # ---- extern values
    coll = [c for c in ss.method_calls(fn, "collect")]
    rules.map_collect_result(ss, fn, coll[0])
    cl = closure_of_call(ss, fn, "map", 1)
    closure_annot(ctx, ss, u, cl, params=["ev: &grammar::ExternValue"], ret="o: anyhow::Result<ExternValue>",
                  ensures=["o is Ok ==> extern_value_ok(*ev, o->Ok_0)"], tags=("C15",))
    l_ev = loop_by_header(ss, fn, "ev.attributes")
    rules.for_to_index_loop(ctx, ss, u, l_ev, seq="ev.attributes.0", ivar="i_v")
    rules.index_loop_spec(ctx, ss, u, l_ev, tags=("C15",), invariants=[
        ("""attr_usize(ev.attributes.0@, "address"@, i_v as int, address)""", ("C15",)),
    ])
    ghost(ctx, ss, u, body_start(l_ev), 'proof { reveal_strlit("address"); }')
    # ---- duplicate extern values are rejected (F18)
    l_x = loop_by_header(ss, fn, "&extern_values")
    rules.for_to_index_loop(ctx, ss, u, l_x, seq="extern_values", ivar="i_x")
    rules.index_loop_spec(ctx, ss, u, l_x, tags=("C14",), invariants=[
        ("forall|k: int| 0 <= k < i_x ==> extern_value_names@.contains((#[trigger] extern_values@[k]).name)", ("C14",)),
        ("forall|s: String| #[trigger] extern_value_names@.contains(s) ==> exists|k: int| 0 <= k < i_x && (#[trigger] extern_values@[k]).name == s", ("C14",)),
        ("forall|a: int, b: int| 0 <= a < b < i_x ==> (#[trigger] extern_values@[a]).name != (#[trigger] extern_values@[b]).name", ("C14",)),
    ])
    ghost(ctx, ss, u, after(ss, l_x), """proof {
            assert forall|i: int, j: int| 0 <= i < j < module.extern_values@.len() implies
                (#[trigger] module.extern_values@[i]).name.0@ != (#[trigger] module.extern_values@[j]).name.0@ by {
                assert(extern_value_ok(module.extern_values@[i], extern_values@[i]) && extern_value_ok(module.extern_values@[j], extern_values@[j]));
                assert(extern_values@[i].name != extern_values@[j].name);
                crate::verif_prelude::axiom_string_ext(extern_values@[i].name, extern_values@[j].name);
            }
        }""")
    # ---- definitions
    ghost(ctx, ss, u, after(ss, ss.top_let(fn, "extern_values")), "let ghost evs0 = extern_values;")
    l_d = loop_by_header(ss, fn, "module.definitions")
    ghost(ctx, ss, u, before(ss, l_d), """proof {
            assert(self.modules@.contains_key(*path));
        }""")
    rules.for_to_index_loop(ctx, ss, u, l_d, seq="module.definitions", ivar="i_d")
    common = [
        ("self.modules@.contains_key(*path)", ("C14",)),
        ("self.modules@[*path].extern_values == evs0", ("C15",)),
        ("impl_blocks_kept(*path, module.impls@, self.modules@[*path].impls@)", ("C05", "C14")),
        ("opt_string_view(self.modules@[*path].doc) == spec_doc(module.attributes.0@)", ("C17",)),
        ("backends_grouped(module.backends@, module.backends@.len() as int, self.modules@[*path].backends@)", ("C14",)),
        ("registry_extends(&old(self).type_registry, &self.type_registry)", ("C14", "C19")),
    ]
    rules.index_loop_spec(ctx, ss, u, l_d, tags=("C14",), invariants=common + [
        ("definitions_registered(&self.type_registry, *path, module.definitions@, i_d as int)", ("C14",)),
        ("forall|j: int| 0 <= j < i_d ==> self.modules@[*path].definition_paths@.contains(#[trigger] spec_join(*path, module.definitions@[j].name.0@))", ("C14",)),
    ])
    ghost(ctx, ss, u, body_start(l_d), "let ghost st0 = *self; proof { lemma_parent_of_join(*path, module.definitions@[i_d - 1].name.0@); }")
    # ---- extern types
    l_e = loop_by_header(ss, fn, "module.extern_types")
    rules.for_to_index_loop(ctx, ss, u, l_e, seq="module.extern_types", ivar="i_e")
    rules.index_loop_spec(ctx, ss, u, l_e, tags=("C14", "C02"), invariants=common + [
        ("definitions_registered(&self.type_registry, *path, module.definitions@, module.definitions@.len() as int)", ("C14",)),
        ("forall|j: int| 0 <= j < module.definitions@.len() ==> self.modules@[*path].definition_paths@.contains(#[trigger] spec_join(*path, module.definitions@[j].name.0@))", ("C14",)),
        ("extern_types_registered(&self.type_registry, *path, module.extern_types@, i_e as int)", ("C14", "C02")),
    ])
    ghost(ctx, ss, u, body_start(l_e), "let ghost st1 = *self; proof { lemma_parent_of_join(*path, module.extern_types@[i_e - 1].0.0@); }")
    ghost(ctx, ss, u, body_end(l_e), """proof {
                assert forall|j: int| 0 <= j < i_e - 1 implies #[trigger] extern_type_registered(&self.type_registry, *path, module.extern_types@[j]) by {
                    assert(extern_type_registered(&st1.type_registry, *path, module.extern_types@[j]));
                }
                assert(extern_type_registered(&self.type_registry, *path, module.extern_types@[i_e - 1]));
            }""")
    l_a = [l for l in ss.loops(fn) if l["kind"] == "for" and ss.text(l["expr_span"]).strip() == "attributes"]
    if len(l_a) != 1:
        raise rules.WeaveError("add_module: expected one `for attribute in attributes` loop")
    rules.for_to_index_loop(ctx, ss, u, l_a[0], seq="attributes.0", ivar="i_t")
    rules.index_loop_spec(ctx, ss, u, l_a[0], tags=("C02",), invariants=common + [
        ("0 < i_e <= module.extern_types.len()", ("C02",)),
        ("*attributes == module.extern_types@[i_e - 1].1", ("C02",)),
        ("""attr_usize(attributes.0@, "size"@, i_t as int, size)""", ("C02",)),
        ("""attr_usize(attributes.0@, "align"@, i_t as int, alignment)""", ("C02",)),
        ("definitions_registered(&self.type_registry, *path, module.definitions@, module.definitions@.len() as int)", ("C14",)),
        ("forall|j: int| 0 <= j < module.definitions@.len() ==> self.modules@[*path].definition_paths@.contains(#[trigger] spec_join(*path, module.definitions@[j].name.0@))", ("C14",)),
        ("extern_types_registered(&self.type_registry, *path, module.extern_types@, i_e - 1)", ("C14", "C02")),
        ("*self == st1", ("C14",)),
    ])
    ghost(ctx, ss, u, body_start(l_a[0]), 'proof { reveal_strlit("size"); reveal_strlit("align"); }')
    for p in ss.in_fn(fn, ("pat_slice",)):
        rules.slice1(ss, fn, p)
