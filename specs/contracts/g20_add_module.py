"""SemanticState::add_module (C14 C15 C02 C12): extern value extraction, registration of definitions and
extern types, duplicate rejection."""
import rules
from rules import fn_into_verus, ghost, closure_annot, after, before, body_start, body_end, closure_of_call, loop_by_header

U = ("C02", "C12", "C14", "C15", "C19")


def apply(ctx, W):
    g = W.file("grammar.rs")
    rules.from_impl_into_verus(ctx, g, "&str", "ItemPathSegment", "crate::verif_specs::spec_segment(v@)", tags=("C14",), trusted=True)
    m = W.file("semantic/module.rs")
    rules.plumbing_once(m)
    fn_into_verus(ctx, m, "Module::new", mode="T", ret="r", tags=("C14", "C15"), ensures=[
        """r is Ok ==> r->Ok_0.path == path && r->Ok_0.ast == ast && r->Ok_0.extern_values == extern_values
                && r->Ok_0.definition_paths@ == Set::<ItemPath>::empty()"""])

    ss = W.file("semantic/semantic_state.rs")
    fn, u = fn_into_verus(ctx, ss, "SemanticState::add_module", ret="res", tags=U, ensures=[
        ("""res is Ok ==> final(self).modules@.contains_key(*path)
                && extern_values_ok(module.extern_values@, final(self).modules@[*path].extern_values@)""", ("C15",), "extern-values"),
        ("res is Ok ==> definitions_registered(&final(self).type_registry, *path, module.definitions@, module.definitions@.len() as int)", ("C14",), "definitions-registered"),
        ("res is Ok ==> extern_types_registered(&final(self).type_registry, *path, module.extern_types@, module.extern_types@.len() as int)", ("C14", "C02"), "extern-types-registered"),
        ("res is Ok ==> registry_extends(&old(self).type_registry, &final(self).type_registry)", ("C14", "C19"), "no-silent-overwrite"),
        ("""res is Ok ==> forall|j: int| 0 <= j < module.definitions@.len() ==>
                final(self).modules@[*path].definition_paths@.contains(#[trigger] spec_join(*path, module.definitions@[j].name.0@))""", ("C14",), "definition-paths"),
    ])
    # ---- extern values
    coll = [c for c in ss.method_calls(fn, "collect")]
    rules.map_collect_result(ss, fn, coll[0])
    cl = closure_of_call(ss, fn, "map", 1)
    closure_annot(ctx, ss, u, cl, params=["ev: &grammar::ExternValue"], ret="o: anyhow::Result<ExternValue>",
                  ensures=["o is Ok ==> extern_value_ok(*ev, o->Ok_0)"], tags=("C15",))
    l_ev = loop_by_header(ss, fn, "ev.attributes")
    rules.for_to_index_loop(ctx, ss, u, l_ev, seq="ev.attributes.0", ivar="i_v")
    rules.index_loop_spec(ctx, ss, u, l_ev, tags=("C15",), invariants=[
        ("""attr_usize(ev.attributes.0@, "address"@, i_v as int, address)""", ("C15",)),
    ])
    ghost(ctx, ss, u, body_start(l_ev), 'proof { reveal_strlit("address"); }')
    # ---- definitions
    ghost(ctx, ss, u, after(ss, ss.top_let(fn, "extern_values")), "let ghost evs0 = extern_values;")
    l_d = loop_by_header(ss, fn, "module.definitions")
    ghost(ctx, ss, u, before(ss, l_d), """proof {
            assert(self.modules@.contains_key(*path));
        }""")
    rules.for_to_index_loop(ctx, ss, u, l_d, seq="module.definitions", ivar="i_d")
    common = [
        ("self.modules@.contains_key(*path)", ("C14",)),
        ("self.modules@[*path].extern_values == evs0", ("C15",)),
        ("registry_extends(&old(self).type_registry, &self.type_registry)", ("C14", "C19")),
    ]
    rules.index_loop_spec(ctx, ss, u, l_d, tags=("C14",), invariants=common + [
        ("definitions_registered(&self.type_registry, *path, module.definitions@, i_d as int)", ("C14",)),
        ("forall|j: int| 0 <= j < i_d ==> self.modules@[*path].definition_paths@.contains(#[trigger] spec_join(*path, module.definitions@[j].name.0@))", ("C14",)),
    ])
    ghost(ctx, ss, u, body_start(l_d), "let ghost st0 = *self; proof { lemma_parent_of_join(*path, module.definitions@[i_d - 1].name.0@); }")
    # ---- extern types
    l_e = loop_by_header(ss, fn, "module.extern_types")
    rules.for_to_index_loop(ctx, ss, u, l_e, seq="module.extern_types", ivar="i_e")
    rules.index_loop_spec(ctx, ss, u, l_e, tags=("C14", "C02"), invariants=common + [
        ("definitions_registered(&self.type_registry, *path, module.definitions@, module.definitions@.len() as int)", ("C14",)),
        ("forall|j: int| 0 <= j < module.definitions@.len() ==> self.modules@[*path].definition_paths@.contains(#[trigger] spec_join(*path, module.definitions@[j].name.0@))", ("C14",)),
        ("extern_types_registered(&self.type_registry, *path, module.extern_types@, i_e as int)", ("C14", "C02")),
    ])
    ghost(ctx, ss, u, body_start(l_e), "let ghost st1 = *self; proof { lemma_parent_of_join(*path, module.extern_types@[i_e - 1].0.0@); }")
    ghost(ctx, ss, u, body_end(l_e), """proof {
                assert forall|j: int| 0 <= j < i_e - 1 implies #[trigger] extern_type_registered(&self.type_registry, *path, module.extern_types@[j]) by {
                    assert(extern_type_registered(&st1.type_registry, *path, module.extern_types@[j]));
                }
                assert(extern_type_registered(&self.type_registry, *path, module.extern_types@[i_e - 1]));
            }""")
    l_a = [l for l in ss.loops(fn) if l["kind"] == "for" and ss.text(l["expr_span"]).strip() == "attributes"]
    if len(l_a) != 1:
        raise rules.WeaveError("add_module: expected one `for attribute in attributes` loop")
    rules.for_to_index_loop(ctx, ss, u, l_a[0], seq="attributes.0", ivar="i_t")
    rules.index_loop_spec(ctx, ss, u, l_a[0], tags=("C02",), invariants=common + [
        ("0 < i_e <= module.extern_types.len()", ("C02",)),
        ("*attributes == module.extern_types@[i_e - 1].1", ("C02",)),
        ("""attr_usize(attributes.0@, "size"@, i_t as int, size)""", ("C02",)),
        ("""attr_usize(attributes.0@, "align"@, i_t as int, alignment)""", ("C02",)),
        ("definitions_registered(&self.type_registry, *path, module.definitions@, module.definitions@.len() as int)", ("C14",)),
        ("forall|j: int| 0 <= j < module.definitions@.len() ==> self.modules@[*path].definition_paths@.contains(#[trigger] spec_join(*path, module.definitions@[j].name.0@))", ("C14",)),
        ("extern_types_registered(&self.type_registry, *path, module.extern_types@, i_e - 1)", ("C14", "C02")),
        ("*self == st1", ("C14",)),
    ])
    ghost(ctx, ss, u, body_start(l_a[0]), 'proof { reveal_strlit("size"); reveal_strlit("align"); }')
    for p in ss.in_fn(fn, ("pat_slice",)):
        rules.slice1(ss, fn, p)
