"""type_definition::build split into segments (W5): attrs, fields, (resolve_regions), functions, defaultable,
alignment + verified glue (C01 C02 C03 C05 C15 C17 C12)."""
import rules
from rules import fn_into_verus, ghost, closure_annot, after, before, body_start, body_end, fn_end, closure_of_call, loop_by_header

U = ("C01", "C02", "C03", "C12", "C15", "C17", "C20", "C10")


def apply(ctx, W):
    fw = W.file("semantic/type_definition/mod.rs")
    b = fw.fn("build")
    st = fw.top_stmts(b)

    def top_let(name, k=1):
        return fw.top_let(b, name, k)

    def stmt_with_loop(loop):
        return fw.top_stmt_of(b, loop)

    l_attrs = loop_by_header(fw, b, "definition.attributes")
    l_stmts = loop_by_header(fw, b, "definition.statements")
    l_fattr = loop_by_header(fw, b, "attributes", 2) if False else None
    inner = [l for l in fw.loops(b) if l["kind"] == "for" and fw.text(l["expr_span"]).strip() == "attributes"]
    if len(inner) != 2:
        raise rules.WeaveError("build: expected two `for attribute in attributes` loops, found %d" % len(inner))
    l_fattr, l_vattr = inner
    l_align = [l for l in fw.loops(b) if l["kind"] == "for" and fw.text(l["expr_span"]).replace(" ", "") == "&regions"]
    if len(l_align) != 2:
        raise rules.WeaveError("build: expected two `for region in &regions` loops, found %d" % len(l_align))
    l_align = l_align[1]

    # ------------------------------------------------------------------ S1 attrs
    u1 = rules.outline(ctx, fw, b, top_let("target_size"), stmt_with_loop(l_attrs), "build__attrs",
        "definition: &grammar::TypeDefinition, resolvee_path: &ItemPath", "definition, resolvee_path",
        outs=["target_size", "singleton", "copyable", "cloneable", "defaultable", "packed", "align", "doc"],
        types=["Option<usize>", "Option<usize>", "bool", "bool", "bool", "bool", "Option<usize>", "Option<String>"],
        kind="try", tags=("C02", "C03", "C12", "C15", "C17"), ensures=[
            ("""res is Ok ==> ({
                let a = definition.attributes.0@; let n = a.len() as int; let o = res->Ok_0;
                &&& attr_usize(a, "size"@, n, o.0)
                &&& attr_usize(a, "align"@, n, o.6)
            })""", ("C02", "C03"), "attrs-size-align"),
            ("""res is Ok ==> attr_usize(definition.attributes.0@, "singleton"@, definition.attributes.0@.len() as int, res->Ok_0.1)""", ("C15",), "attrs-singleton"),
            ("""res is Ok ==> ({
                let a = definition.attributes.0@; let n = a.len() as int; let o = res->Ok_0;
                &&& o.2 == has_ident(a, "copyable"@, n)
                &&& o.3 == (has_ident(a, "copyable"@, n) || has_ident(a, "cloneable"@, n))
                &&& o.4 == has_ident(a, "defaultable"@, n)
                &&& o.5 == has_ident(a, "packed"@, n)
                &&& opt_string_view(o.7) == spec_doc(a)
            })""", ("C17", "C03"), "attrs-flags-doc"),
            ("res is Err ==> attrs_bad(definition.attributes.0@)", ("C03",), "no-spurious-attribute-rejection"),
        ])
    rules.for_to_index_loop(ctx, fw, u1, l_attrs, seq="definition.attributes.0", ivar="i_a")
    rules.index_loop_spec(ctx, fw, u1, l_attrs, tags=("C02", "C03", "C15", "C17"), invariants=[
        ("""attr_usize(definition.attributes.0@, "size"@, i_a as int, target_size)""", ("C02", "C03")),
        ("""attr_usize(definition.attributes.0@, "singleton"@, i_a as int, singleton)""", ("C15",)),
        ("""attr_usize(definition.attributes.0@, "align"@, i_a as int, align)""", ("C02", "C03")),
        ("""copyable == has_ident(definition.attributes.0@, "copyable"@, i_a as int)""", ("C17",)),
        ("""cloneable == (has_ident(definition.attributes.0@, "copyable"@, i_a as int) || has_ident(definition.attributes.0@, "cloneable"@, i_a as int))""", ("C17",)),
        ("""defaultable == has_ident(definition.attributes.0@, "defaultable"@, i_a as int)""", ("C17",)),
        ("""packed == has_ident(definition.attributes.0@, "packed"@, i_a as int)""", ("C17", "C03")),
    ])
    ghost(ctx, fw, u1, body_start(l_attrs), """proof {
                let a = definition.attributes.0@; let k = i_a - 1;
                if is_int_attr(a[k], "size"@) && a[k]->Function_1@[0]->IntLiteral_0 < 0 { assert(neg_attr(a, "size"@)); }
                if is_int_attr(a[k], "singleton"@) && a[k]->Function_1@[0]->IntLiteral_0 < 0 { assert(neg_attr(a, "singleton"@)); }
                if is_int_attr(a[k], "align"@) && a[k]->Function_1@[0]->IntLiteral_0 < 0 { assert(neg_attr(a, "align"@)); }
            }""")
    ghost(ctx, fw, u1, body_start(l_attrs), 'proof { reveal_strlit("size"); reveal_strlit("singleton"); reveal_strlit("align"); reveal_strlit("copyable"); reveal_strlit("cloneable"); reveal_strlit("defaultable"); reveal_strlit("packed"); }')

    # ------------------------------------------------------------------ S2 fields
    u2 = rules.outline(ctx, fw, b, top_let("pending_regions"), stmt_with_loop(l_stmts), "build__fields",
        "semantic: &SemanticState, module: &crate::semantic::Module, resolvee_path: &ItemPath, definition: &grammar::TypeDefinition",
        "&*semantic, module, resolvee_path, definition",
        outs=["pending_regions", "vftable_functions"], types=["Vec<(Option<usize>, Region)>", "Option<Vec<Function>>"],
        kind="try-opt", tags=("C01", "C03", "C04", "C10", "C11", "C12", "C17", "C20"), requires=["reg_wf(&semantic.type_registry)"], ensures=[
            ("""res is Ok && res->Ok_0 is Some ==> fields_built(&semantic.type_registry, module_scope(module), definition.statements@, definition.statements@.len() as int, (res->Ok_0->0).0@)""",
             ("C01", "C03", "C10", "C11", "C17", "C20"), "fields-built"),
            ("""res is Ok && res->Ok_0 is Some ==> ((res->Ok_0->0).1 is Some <==> first_is_vftable(definition.statements@))""", ("C04", "C06"), "fields-vftable-present"),
            ("""res is Ok && res->Ok_0 is Some && (res->Ok_0->0).1 is Some ==> ({
                let fns = definition.statements@[0].field->Vftable_0@;
                let out = (res->Ok_0->0).1->0@;
                let a = definition.statements@[0].attributes.0@;
                exists|size: Option<usize>| #![trigger slots_total(fns, size)] attr_usize(a, "size"@, a.len() as int, size)
                    && slots_total(fns, size) == Some(out.len() as nat)
                    && slots_ok(&semantic.type_registry, module_scope(module), fns, fns.len() as int, out.take(slot_end(fns, fns.len() as int)->0 as int))
                    && forall|s: int| slot_end(fns, fns.len() as int)->0 <= s < out.len() ==> is_placeholder(#[trigger] out[s], s as nat)
            })""", ("C04",), "fields-vftable-slots"),
            ("res is Err ==> fields_bad(definition.statements@)", ("C03",), "no-spurious-field-rejection"),
            # C10: the field block defers only while the type of some field does not resolve in the module's scope
            ("""res is Ok && res->Ok_0 is None ==> field_unresolved(&semantic.type_registry, module_scope(module), definition.statements@)""", ("C10",), "fields-defer-only-while-unresolved"),
        ])
    rules.let_type(fw, top_let("vftable_functions"), "Option<Vec<Function>>")
    rules.for_to_index_loop(ctx, fw, u2, l_stmts, seq="definition.statements", ivar="i_s")
    rules.index_loop_spec(ctx, fw, u2, l_stmts, tags=("C01", "C03"), invariants=[
        ("reg_wf(&semantic.type_registry)", ("C01",)),
        ("fields_built(&semantic.type_registry, module_scope(module), definition.statements@, i_s as int, pending_regions@)", ("C01", "C03", "C10", "C11", "C17", "C20")),
        ("vftable_functions is Some <==> (i_s > 0 && first_is_vftable(definition.statements@))", ("C04", "C06")),
        ("""vftable_functions is Some ==> ({
                let fns = definition.statements@[0].field->Vftable_0@;
                let out = vftable_functions->0@;
                let a = definition.statements@[0].attributes.0@;
                exists|size: Option<usize>| #![trigger slots_total(fns, size)] attr_usize(a, "size"@, a.len() as int, size)
                    && slots_total(fns, size) == Some(out.len() as nat)
                    && slots_ok(&semantic.type_registry, module_scope(module), fns, fns.len() as int, out.take(slot_end(fns, fns.len() as int)->0 as int))
                    && forall|s: int| slot_end(fns, fns.len() as int)->0 <= s < out.len() ==> is_placeholder(#[trigger] out[s], s as nat)
            })""", ("C04",)),
    ])
    rules.for_to_index_loop(ctx, fw, u2, l_fattr, seq="attributes.0", ivar="i_b")
    rules.index_loop_spec(ctx, fw, u2, l_fattr, tags=("C01", "C03"), invariants=[
        ("reg_wf(&semantic.type_registry)", ("C01",)),
        ("0 < i_s <= definition.statements@.len() && *attributes == definition.statements@[i_s - 1].attributes", ("C03",)),
        ("""attr_usize(attributes.0@, "address"@, i_b as int, address)""", ("C01", "C03", "C20")),
        ("""is_base == has_ident(attributes.0@, "base"@, i_b as int)""", ("C06", "C07")),
    ])
    ghost(ctx, fw, u2, body_start(l_fattr), """proof {
                        let a = attributes.0@; let k = i_b - 1;
                        if is_int_attr(a[k], "address"@) && a[k]->Function_1@[0]->IntLiteral_0 < 0 {
                            assert(neg_attr(a, "address"@));
                            assert(field_stmt_bad(definition.statements@[i_s - 1]));
                        }
                    }""")
    ghost(ctx, fw, u2, body_start(l_fattr), 'proof { reveal_strlit("address"); reveal_strlit("base"); }')
    rules.for_to_index_loop(ctx, fw, u2, l_vattr, seq="attributes.0", ivar="i_c")
    rules.index_loop_spec(ctx, fw, u2, l_vattr, tags=("C04",), invariants=[
        ("reg_wf(&semantic.type_registry)", ("C01",)),
        ("0 < i_s <= definition.statements@.len() && definition.statements@[i_s - 1].field is Vftable", ("C03",)),
        ("""attr_usize(attributes.0@, "size"@, i_c as int, size)""", ("C04",)),
    ])
    ghost(ctx, fw, u2, body_start(l_vattr), 'proof { reveal_strlit("size"); }')
    thens = [c for c in fw.in_fn(b, ("closure",)) if l_stmts["span"][0] <= c["span"][0] < l_stmts["span"][1]]
    for c in thens:
        if "ident.0.clone()" in fw.text(c["span"]):
            closure_annot(ctx, fw, u2, c, ret="s: String", ensures=["s == ident.0"], tags=("C17",))
    ghost(ctx, fw, u2, after(fw, fw.let(b, "ident")), 'proof { reveal_strlit("_"); }')
    rules.string_cmp_literal(fw, b, fw.let(b, "ident")["span"])

    for p in fw.in_fn(b, ("pat_slice",)):
        if top_let("target_size")["span"][0] <= p["span"][0] < stmt_with_loop(l_stmts)["span"][1]:
            rules.slice1(fw, b, p)

    # ------------------------------------------------------------------ S4 functions (trusted stub), S5 defaultable (trusted stub)
    l_impl = loop_by_header(fw, b, "type_impl.functions")
    # S4a: injection of base members (C07): W8 closure inlining + R-idx-filter, verified
    l_bases = loop_by_header(fw, b, "regions.iter().filter")
    u4a = rules.outline(ctx, fw, b, top_let("associated_functions"), stmt_with_loop(l_bases), "build__base_functions",
        "semantic: &SemanticState, resolvee_path: &ItemPath, regions: &Vec<Region>, vftable: &Option<TypeVftable>",
        "&*semantic, resolvee_path, &regions, &vftable", outs=["mut associated_functions", "mut associated_functions_used_names"],
        types=["Vec<Function>", "HashSet<String>"], kind="try", tags=("C07", "C12", "C17"), ensures=[
            ("res is Ok ==> base_functions_ok(&semantic.type_registry, regions@, vftable_names(*vftable), res->Ok_0.0@)", ("C07", "C17"), "base-functions"),
            ("res is Ok ==> res->Ok_0.1@ =~= vftable_names(*vftable).union(names_set(res->Ok_0.0@))", ("C07",), "used-names"),
            ("res is Err ==> has_base_region(regions@)", ("C03",), "base-functions-error-only-with-bases"),
            ("res is Ok ==> names_fresh(vftable_names(*vftable), res->Ok_0.0@)", ("C07",), "re-exposed-names-distinct"),
        ])
    # used names start with the type's own vftable function names
    un = top_let("associated_functions_used_names")
    colls = [c for c in fw.method_calls(b, "collect") if un["span"][0] <= c["span"][0] < un["span"][1]]
    if len(colls) != 1:
        raise rules.WeaveError("build: used-names initialiser has no single collect()")
    mp = rules._recv_call(fw, colls[0], "map")
    it = rules._recv_call(fw, mp, "iter")
    x = " ".join(fw.text(it["receiver_span"]).split())
    fw.replace(colls[0]["span"][0], mp["paren_span"][0] + 1, "crate::verif_prelude::v_map_collect_string_set(%s.as_slice(), " % x, "W9-R-std-map-collect-set")
    fw.replace(mp["paren_span"][1] - 1, colls[0]["span"][1], ", Ghost(names_of(%s@)))" % x, "W9-R-std-map-collect-set")
    closure_annot(ctx, fw, u4a, [c for c in fw.closures(b) if c["span"] == mp["args"][0]["span"]][0], params=["f: &Function"], ret="s: String", ensures=["s == f.name"], tags=("C07",))
    outer_map = [m_ for m_ in fw.method_calls(b, "map") if un["span"][0] <= m_["span"][0] < un["span"][1] and m_ is not mp and m_["id"] != mp["id"]]
    outer_map = [m_ for m_ in outer_map if m_["span"][0] < mp["span"][0]]
    if len(outer_map) != 1:
        raise rules.WeaveError("build: used-names initialiser has an unexpected shape")
    closure_annot(ctx, fw, u4a, [c for c in fw.closures(b) if c["span"] == outer_map[0]["args"][0]["span"]][0], params=["v: &TypeVftable"],
                  ret="st: HashSet<String>", ensures=["st@ == names_set(v.functions@)"], tags=("C07",))
    ghost(ctx, fw, u4a, after(fw, un), """let ghost used0 = associated_functions_used_names@;
    let ghost mut srcs: Seq<(Function, String)> = Seq::empty();
    proof { assert(used0 =~= vftable_names(*vftable)); assert(names_set(associated_functions@) =~= Set::<String>::empty()); }""")
    rules.for_filter_to_index_loop(ctx, fw, u4a, l_bases, seq="regions", ivar="i_b", cvar="i_n")
    base_inv = [
        ("names_fresh(used0, associated_functions@)", ("C07",)),
        ("injected_seq(srcs, used0, associated_functions@)", ("C07", "C17")),
        ("associated_functions_used_names@ =~= used0.union(names_set(associated_functions@))", ("C07",)),
    ]
    rules.index_loop_spec(ctx, fw, u4a, l_bases, tags=("C07",), invariants=[
        ("i_n == bases_of(regions@, i_b as int).len()", ("C07",)),
        ("srcs == sources_of(&semantic.type_registry, bases_of(regions@, i_b as int), i_n as int)", ("C07",)),
    ] + base_inv)
    ghost(ctx, fw, u4a, body_start(l_bases), """let ghost bases0 = bases_of(regions@, i_b - 1); let ghost srcs0 = srcs;
        proof {
            assert(regions@[i_b - 1].is_base);
            assert(has_base_region(regions@));
            assert(bases_of(regions@, i_b as int) == bases0.push(*base_region));
            lemma_sources_prefix(&semantic.type_registry, bases0.push(*base_region), bases0, i_n - 1);
        }""")
    ghost(ctx, fw, u4a, body_end(l_bases), """proof {
            let reg = &semantic.type_registry;
            let bases1 = bases0.push(*base_region);
            assert(base_type_of(reg, bases1[i_n - 1]) == Some(Some((base_name, *base_type))));
            assert(srcs == srcs0 + base_sources(*base_type, i_n - 1, base_name));
            assert(srcs == sources_of(reg, bases1, i_n as int));
        }""")
    # W8: inline `add_functions`
    cl = rules.inline_closure(fw, b, "add_functions", "functions: &[Function]", result_type="anyhow::Result<()>")
    l_in = [l for l in fw.loops(b) if l["kind"] == "for" and cl["body_span"][0] <= l["span"][0] < cl["body_span"][1]]
    if len(l_in) != 1:
        raise rules.WeaveError("build: closure add_functions has no single loop")
    l_in = l_in[0]
    ghost(ctx, fw, u4a, cl["body_span"][0] + 1, "let ghost mark = srcs;")
    rules.for_filter_to_index_loop(ctx, fw, u4a, l_in, seq="functions", ivar="i_f", cvar="i_p")
    rules.index_loop_spec(ctx, fw, u4a, l_in, tags=("C07",), invariants=[
        ("srcs == mark + tagged(publics(functions@, i_f as int), base_name)", ("C07",)),
        ("has_base_region(regions@)", ("C03",)),
    ] + base_inv)
    bst = rules.body_stmts(fw, l_in)
    ghost(ctx, fw, u4a, bst[0]["span"][0], """let ghost out_before = associated_functions@; let ghost src = functions@[i_f - 1];
                proof { assert(publics(functions@, i_f as int) == publics(functions@, i_f - 1).push(src)); }""")
    ghost(ctx, fw, u4a, bst[-1]["span"][0], "let ghost newf = function;")
    ghost(ctx, fw, u4a, body_end(l_in), """proof {
                    lemma_injected_seq_push(srcs, used0, out_before, src, base_name, newf);
                    lemma_names_fresh_push(used0, out_before, newf);
                    lemma_names_set_push(out_before, newf);
                    assert(tagged(publics(functions@, i_f as int), base_name) =~= tagged(publics(functions@, i_f - 1), base_name).push((src, base_name)));
                    srcs = srcs.push((src, base_name));
                }""")
    mac = [m_ for m_ in fw.in_fn(b, ("macro",)) if m_["path"] == "format" and cl["body_span"][0] <= m_["span"][0] < cl["body_span"][1]]
    if len(mac) != 1:
        raise rules.WeaveError("build: closure add_functions has no single format!")
    rules.fmt_value(fw, mac[0], "v_format2_str", str_args=True)
    rules.strip_prefix_or_self(fw, fw.let(b, "unprefixed_name"))
    fb = [c for c in fw.calls(b, "FunctionBody::field") if cl["body_span"][0] <= c["span"][0] < cl["body_span"][1]]
    if len(fb) != 1:
        raise rules.WeaveError("build: closure add_functions has no single FunctionBody::field call")
    rules.redirect_call(fw, fb[0], "v_function_body_field")
    anys = [c for c in fw.method_calls(b, "any") if cl["body_span"][0] <= c["span"][0] < cl["body_span"][1]]
    if len(anys) != 1:
        raise rules.WeaveError("build: closure add_functions has no single `.any(..)` receiver test")
    rules.iter_any(fw, b, anys[0])
    closure_annot(ctx, fw, u4a, [c for c in fw.closures(b) if c["span"] == anys[0]["args"][0]["span"]][0], params=["a: &crate::semantic::types::Argument"], ret="rb: bool",
                  ensures=["rb == arg_is_self(*a)"], tags=("C07",))

    # S4b: the functions of the type's impl block (verified)
    u4b = rules.outline(ctx, fw, b, stmt_with_loop(l_impl), stmt_with_loop(l_impl), "build__impl_functions",
        "module: &crate::semantic::Module, semantic: &SemanticState, resolvee_path: &ItemPath, mut associated_functions: Vec<Function>, mut associated_functions_used_names: HashSet<String>",
        "module, &*semantic, resolvee_path, associated_functions, associated_functions_used_names", outs=["associated_functions"], types=["Vec<Function>"],
        kind="try", tags=("C05", "C10", "C12", "C16", "C17"), requires=["reg_wf(&semantic.type_registry)"], ensures=[
            ("res is Ok ==> impl_functions_attached(&semantic.type_registry, module_scope(module), impl_block_of(module, *resolvee_path), res->Ok_0.0@)", ("C05", "C16", "C17"), "impl-functions-attached"),
            ("""res is Ok ==> match impl_block_of(module, *resolvee_path) {
                    Some(b) => forall|j: int, k: int| 0 <= j < k < b.functions@.len() ==> (#[trigger] b.functions@[j]).name.0 != (#[trigger] b.functions@[k]).name.0,
                    None => true }""", ("C05",), "impl-no-duplicate-names"),
            ("res is Ok ==> res->Ok_0.0@.len() >= associated_functions@.len() && res->Ok_0.0@.take(associated_functions@.len() as int) == associated_functions@", ("C07",), "impl-keeps-base-functions"),
            ("res is Err ==> impl_block_of(module, *resolvee_path) is Some", ("C03",), "impl-functions-error-only-with-impl-block"),
        ])
    ghost(ctx, fw, u4b, stmt_with_loop(l_impl)["span"][0], "let ghost base0 = associated_functions@;")
    rules.for_to_index_loop(ctx, fw, u4b, l_impl, seq="type_impl.functions", ivar="i_m")
    rules.index_loop_spec(ctx, fw, u4b, l_impl, tags=("C05",), invariants=[
        ("reg_wf(&semantic.type_registry)", ("C05",)),
        ("*type_impl == module.impls@[*resolvee_path] && module.impls@.contains_key(*resolvee_path)", ("C05",)),
        ("associated_functions@.len() == base0.len() + i_m", ("C05",)),
        ("associated_functions@.take(base0.len() as int) == base0", ("C07",)),
        ("forall|k: int| 0 <= k < i_m ==> associated_functions_used_names@.contains((#[trigger] type_impl.functions@[k]).name.0)", ("C05",)),
        ("forall|j: int, k: int| 0 <= j < k < i_m ==> (#[trigger] type_impl.functions@[j]).name.0 != (#[trigger] type_impl.functions@[k]).name.0", ("C05",)),
        ("forall|k: int| 0 <= k < i_m ==> fn_built(&semantic.type_registry, module_scope(module), false, #[trigger] type_impl.functions@[k], associated_functions@[base0.len() + k])", ("C05", "C16", "C17")),
    ])

    defl = [s for s in st if s["kind"] == "stmt_expr" and fw.text(s["span"]).startswith("if defaultable")]
    if len(defl) != 1:
        raise rules.WeaveError("build: `if defaultable` statement not found")
    # S5: the defaultable check - verified (it used to be a trusted segment): the regions come back unchanged, and an
    # accepted defaultable type has no pointer / function field and only defaultable named field types
    rules.hoist_fn(ctx, fw, "build/get_defaultable_type_path", b["span"][0])
    fn_into_verus(ctx, fw, "build/get_defaultable_type_path", hoisted=True, ret="r", unit="semantic::type_definition::get_defaultable_type_path",
                  tags=("C12", "C17"), ensures=[("r == (match defaultable_path_of(*type_ref) { Some(p) => Some(&p), None => None::<&ItemPath> })", ("C17",), "defaultable-path")],
                  decreases="type_ref")
    fw_t = W.file("semantic/types.rs")
    fn_into_verus(ctx, fw_t, "ItemDefinitionInner::defaultable", ret="r", tags=("C17",), ensures=[
        "r == (match *self { ItemDefinitionInner::Type(td) => td.defaultable, ItemDefinitionInner::Enum(ed) => ed.defaultable && ed.default_index is Some })"])
    l_def = [l for l in fw.loops(b) if l["kind"] == "for" and defl[0]["span"][0] <= l["span"][0] < defl[0]["span"][1]]
    if len(l_def) != 1:
        raise rules.WeaveError("build: the defaultable check has no single loop")
    u5 = rules.outline(ctx, fw, b, defl[0], defl[0], "build__defaultable",
        "defaultable: bool, regions: Vec<Region>, semantic: &SemanticState, resolvee_path: &ItemPath",
        "defaultable, regions, &*semantic, resolvee_path", outs=["regions"], types=["Vec<Region>"], kind="try", tags=("C12", "C17"),
        ensures=[("res is Ok ==> res->Ok_0.0 == regions", ("C01", "C02"), "defaultable-check-keeps-regions"),
                 ("res is Ok && defaultable ==> forall|k: int| 0 <= k < regions@.len() ==> field_defaultable(&semantic.type_registry, (#[trigger] regions@[k]).type_ref)", ("C17",), "defaultable-fields"),
                 ("res is Err ==> defaultable", ("C03",), "defaultable-error-only-if-defaultable")])
    rules.for_to_index_loop(ctx, fw, u5, l_def[0], seq="regions", ivar="i_q")
    rules.index_loop_spec(ctx, fw, u5, l_def[0], tags=("C17",), invariants=[
        ("defaultable", ("C03",)),
        ("forall|k: int| 0 <= k < i_q ==> field_defaultable(&semantic.type_registry, (#[trigger] regions@[k]).type_ref)", ("C17",)),
    ])

    # ------------------------------------------------------------------ S7 alignment
    # the alignment segment: everything between the defaultable check and `let alignment` (inclusive)
    first7 = st[st.index(defl[0]) + 1]
    u7 = rules.outline(ctx, fw, b, first7, top_let("alignment"), "build__alignment",
        "packed: bool, align: Option<usize>, regions: &Vec<Region>, size: usize, semantic: &SemanticState, resolvee_path: &ItemPath",
        "packed, align, &regions, size, &*semantic, resolvee_path", outs=["alignment"], types=["usize"], kind="try", attrs=["verifier::rlimit(300)"],
        tags=("C01", "C02", "C03", "C12"),
        requires=["all_sized(regions@, &semantic.type_registry)", "size == sum_sizes(regions@, &semantic.type_registry)"],
        ensures=[
            ("res is Ok ==> res->Ok_0.0 == chosen_alignment(packed, align, regions@, &semantic.type_registry)", ("C02",), "alignment-chosen"),
            ("res is Ok ==> !(packed && align is Some) && (align is Some ==> is_pow2(align->0 as nat))", ("C03",), "alignment-attr-valid"),
            ("res is Ok && !packed ==> offsets_aligned_upto(regions@, regions@.len() as int, &semantic.type_registry)", ("C01", "C03"), "alignment-offsets"),
            ("res is Ok && !packed ==> aligns_le(regions@, res->Ok_0.0, &semantic.type_registry)", ("C02", "C03"), "alignment-lower-bound"),
            ("res is Ok && !packed ==> res->Ok_0.0 > 0 && size % res->Ok_0.0 == 0", ("C02", "C03"), "alignment-divides-size"),
            ("res is Ok ==> alignment_accepts(packed, align, regions@, size, &semantic.type_registry)", ("C03",), "alignment-accepted-only-if"),
            ("res is Err ==> !alignment_accepts(packed, align, regions@, size, &semantic.type_registry)", ("C03",), "no-spurious-alignment-rejection"),
        ])
    closure_annot(ctx, fw, u7, closure_of_call(fw, b, "then", 2), ret="o: Option<usize>", requires=["regions@.len() == 1"],
                  ensures=["o == ty_align(regions@[0].type_ref, &semantic.type_registry)"], tags=("C02",))
    lcm = [c for c in fw.calls(b, "util::lcm")]
    if len(lcm) != 1:
        raise rules.WeaveError("build: util::lcm call not found")
    fm = [m for m in fw.method_calls(b, "flat_map") if lcm[0]["span"][0] <= m["span"][0] < lcm[0]["span"][1]]
    if len(fm) != 1 or " ".join(fw.text(fm[0]["receiver_span"]).split()).replace(" ", "") != "regions.iter()":
        raise rules.WeaveError("build: util::lcm argument is not regions.iter().flat_map(..)")
    fw.replace(lcm[0]["span"][0], fm[0]["paren_span"][0] + 1, "crate::verif_prelude::v_lcm_flat_map(regions.as_slice(), ", "W9-R-std-lcm-flat-map")
    fw.replace(fm[0]["paren_span"][1] - 1, lcm[0]["span"][1], ", Ghost(Seq::new(regions@.len(), |i: int| ty_align(regions@[i].type_ref, &semantic.type_registry))))", "W9-R-std-lcm-flat-map")
    closure_annot(ctx, fw, u7, closure_of_call(fw, b, "flat_map"), params=["r: &Region"], ret="o: Option<usize>",
                  ensures=["o == ty_align(r.type_ref, &semantic.type_registry)"], tags=("C03",))
    ghost(ctx, fw, u7, before(fw, l_align), "proof { lemma_sum_empty(&semantic.type_registry); assert(regions@.take(0) =~= Seq::<Region>::empty()); }")
    rules.for_to_index_loop(ctx, fw, u7, l_align, seq="regions", ivar="i_r")
    rules.index_loop_spec(ctx, fw, u7, l_align, tags=("C01", "C03"), invariants=[
        ("!packed", ("C03",)),
        ("all_sized(regions@, &semantic.type_registry)", ("C01",)),
        ("size == sum_sizes(regions@, &semantic.type_registry)", ("C01",)),
        ("last_address == offset_of(regions@, i_r as int, &semantic.type_registry)", ("C01", "C03")),
        ("offsets_aligned_upto(regions@, i_r as int, &semantic.type_registry)", ("C01", "C03")),
    ])
    ghost(ctx, fw, u7, body_start(l_align), """proof {
                    lemma_sized_aligned(regions@[i_r - 1].type_ref, &semantic.type_registry);
                    lemma_offset_step(regions@, i_r - 1, &semantic.type_registry);
                    lemma_offset_mono(regions@, i_r as int, &semantic.type_registry);
                }""")

    ghost(ctx, fw, u7, rules.body_stmts(fw, l_align)[-1]["span"][0], "proof { lemma_off_aligned(last_address, alignment); }")
    ifs_in = [n for n in fw.in_fn(b, ("if",)) if l_align["body_span"][0] <= n["span"][0] < l_align["body_span"][1]]
    if len(ifs_in) != 2:
        raise rules.WeaveError("build: the per-field alignment loop no longer has two rejection tests")
    for n in ifs_in:
        ghost(ctx, fw, u7, n["then_span"][0] + 1, "proof { lemma_not_aligned(regions@, i_r - 1, &semantic.type_registry); }")
    ghost(ctx, fw, u7, after(fw, l_align), """proof {
                let reg = &semantic.type_registry;
                let vals = Seq::new(regions@.len(), |i: int| ty_align(regions@[i].type_ref, reg));
                assert forall|j: int| 0 <= j < regions@.len() implies ty_align(#[trigger] regions@[j].type_ref, reg) is Some
                    && ty_align(regions@[j].type_ref, reg)->0 > 0 by {
                    lemma_off_aligned_pos(offset_of(regions@, j, reg), ty_align(regions@[j].type_ref, reg)->0);
                }
                assert(required_alignment != 0) by {
                    if required_alignment == 0 {
                        let j = choose|j: int| 0 <= j < vals.len() && #[trigger] vals[j] == Some(0usize);
                        assert(ty_align(regions@[j].type_ref, reg)->0 > 0);
                    }
                }
                assert forall|i: int| 0 <= i < regions@.len() implies ty_align(#[trigger] regions@[i].type_ref, reg)->0 <= alignment by {
                    assert(vals[i] == ty_align(regions@[i].type_ref, reg));
                }
            }""")

    # ------------------------------------------------------------------ glue
    fn, u = fn_into_verus(ctx, fw, "build", ret="res", tags=U + ("C05", "C16"), unit="semantic::type_definition::build",
        requires=["reg_wf(&old(semantic).type_registry)"],
        ensures=[
            ("reg_wf(&final(semantic).type_registry)", ("C10",), "build-keeps-reg-wf"),
            ("keys_kept(&old(semantic).type_registry, &final(semantic).type_registry)", ("C10", "C14"), "build-keys-kept"),
            ("modules_frame(old(semantic).modules@, final(semantic).modules@)", ("C05", "C10", "C14", "C15"), "build-keeps-modules"),
            ("final(semantic).type_registry.pointer_size == old(semantic).type_registry.pointer_size", ("C10",), "build-keeps-pointer-size"),
            ("registry_frame(&old(semantic).type_registry, &final(semantic).type_registry, *resolvee_path)", ("C10", "C19"), "build-attempt-frame"),
            ("entries_kept(&old(semantic).type_registry, &final(semantic).type_registry)", ("C14", "C17"), "build-attempt-keeps-entries"),
            ("""res is Ok && res->Ok_0 is Some ==> ({
                let isr = res->Ok_0->0; let reg = &final(semantic).type_registry;
                &&& isr.inner is Type
                &&& all_sized(isr.inner->Type_0.regions@, reg)
                &&& isr.size == sum_sizes(isr.inner->Type_0.regions@, reg)
                &&& attr_usize(definition.attributes.0@, "size"@, definition.attributes.0@.len() as int, Some(isr.size)) || attr_int(definition.attributes.0@, "size"@, definition.attributes.0@.len() as int) is None
            })""", ("C02", "C03"), "build-size"),
            ("""res is Ok && res->Ok_0 is Some ==> ({
                let isr = res->Ok_0->0; let td = isr.inner->Type_0; let reg = &final(semantic).type_registry;
                let a = definition.attributes.0@; let n = a.len() as int;
                &&& td.packed == has_ident(a, "packed"@, n)
                &&& (td.packed ==> isr.alignment == 1 && attr_int(a, "align"@, n) is None)
                &&& (!td.packed ==> offsets_aligned_upto(td.regions@, td.regions@.len() as int, reg) && aligns_le(td.regions@, isr.alignment, reg)
                        && isr.alignment > 0 && isr.size % isr.alignment == 0)
                &&& (attr_int(a, "align"@, n) is Some ==> attr_int(a, "align"@, n)->0 >= 0 && isr.alignment == attr_int(a, "align"@, n)->0 as usize && is_pow2(isr.alignment as nat))
            })""", ("C01", "C02", "C03"), "build-alignment"),
            ("""res is Ok && res->Ok_0 is Some ==> declared_fields_placed(&old(semantic).type_registry, module_scope(&module_of(old(semantic), *resolvee_path)->0),
                    definition.statements@, res->Ok_0->0.inner->Type_0.regions@, &final(semantic).type_registry)""", ("C01", "C03", "C20"), "build-placement"),
            ("""res is Ok && res->Ok_0 is Some ==> build_base_functions_ok(&final(semantic).type_registry, res->Ok_0->0.inner->Type_0.regions@,
                    res->Ok_0->0.inner->Type_0.vftable, res->Ok_0->0.inner->Type_0.associated_functions@)""", ("C07", "C17"), "build-base-functions"),
            ("""res is Ok && res->Ok_0 is Some ==> module_of(final(semantic), *resolvee_path) is Some && ({
                let m = module_of(final(semantic), *resolvee_path)->0;
                impl_functions_attached(&final(semantic).type_registry, module_scope(&m), impl_block_of(&m, *resolvee_path), res->Ok_0->0.inner->Type_0.associated_functions@) })""",
             ("C05", "C16"), "build-impl-functions"),
            ("""res is Ok && res->Ok_0 is Some ==> build_vftable_ok(&old(semantic).type_registry, module_scope(&module_of(old(semantic), *resolvee_path)->0),
                    definition.statements@, &final(semantic).type_registry, *resolvee_path, res->Ok_0->0.inner->Type_0.vftable, res->Ok_0->0.inner->Type_0.regions@)""", ("C06",), "build-vftable"),
            ("""res is Ok && res->Ok_0 is Some ==> exists|target: Option<usize>| #![trigger attr_usize(definition.attributes.0@, "size"@, definition.attributes.0@.len() as int, target)]
                    attr_usize(definition.attributes.0@, "size"@, definition.attributes.0@.len() as int, target)
                    && build_regions_ok(&old(semantic).type_registry, module_scope(&module_of(old(semantic), *resolvee_path)->0),
                        definition.statements@, target, &final(semantic).type_registry, *resolvee_path, res->Ok_0->0.inner->Type_0.vftable, res->Ok_0->0.inner->Type_0.regions@, res->Ok_0->0.size)""",
             ("C01", "C17", "C20"), "build-regions-spec"),
            ("""res is Ok && res->Ok_0 is Some ==> ({
                let td = res->Ok_0->0.inner->Type_0; let a = definition.attributes.0@; let n = a.len() as int;
                &&& attr_usize(a, "singleton"@, n, td.singleton)
                &&& td.copyable == has_ident(a, "copyable"@, n)
                &&& td.cloneable == (has_ident(a, "copyable"@, n) || has_ident(a, "cloneable"@, n))
                &&& td.defaultable == has_ident(a, "defaultable"@, n)
                &&& opt_string_view(td.doc) == spec_doc(a)
            })""", ("C15", "C17"), "build-flags"),
            # C03 "every other description fails", read backwards through the glue: an error of the whole function has one of
            # the reasons the segments give (the converse direction used to be proved per segment only)
            # C10 "every type gets resolved however long the dependency chains are", per attempt: a deferral (Ok(None)) means that
            # a field type does not resolve yet, the first base is unsized, or some field cannot be placed because its type has no
            # size yet (or the running address would overflow) - reasons that resolving the dependencies removes
            ("""res is Ok && res->Ok_0 is None ==> module_of(old(semantic), *resolvee_path) is Some && ({
                    let reg0 = &old(semantic).type_registry; let sc = module_scope(&module_of(old(semantic), *resolvee_path)->0);
                    ||| field_unresolved(reg0, sc, definition.statements@)
                    ||| exists|pend: Seq<(Option<usize>, Region)>| #![trigger fields_built(reg0, sc, definition.statements@, definition.statements@.len() as int, pend)]
                            fields_built(reg0, sc, definition.statements@, definition.statements@.len() as int, pend)
                            && ((first_base_of(pend) is Some && ty_size(first_base_of(pend)->0.type_ref, reg0) is None)
                                || layout_defers(pend, &final(semantic).type_registry))
                })""", ("C10",), "build-defers-only-while-dependencies-unresolved"),
            ("""res is Err ==> module_of(old(semantic), *resolvee_path) is None || type_rejection_explained(&old(semantic).type_registry,
                    module_scope(&module_of(old(semantic), *resolvee_path)->0), *definition, impl_block_of(&module_of(old(semantic), *resolvee_path)->0, *resolvee_path),
                    &final(semantic).type_registry, *resolvee_path)""", ("C03",), "build-no-spurious-rejection"),
        ])

    ghost(ctx, fw, u, stmt_with_loop(l_stmts)["span"][1], "let ghost pend = pending_regions@; let ghost own0 = vftable_functions;")
    ghost(ctx, fw, u, stmt_with_loop(l_bases)["span"][1], "let ghost basef = associated_functions@;")
    ghost(ctx, fw, u, st[-1]["span"][0], """proof {
        assert(placement_exists(pend, regions@, &semantic.type_registry));
        assert(base_functions_ok(&semantic.type_registry, regions@, vftable_names(vftable), associated_functions@.take(basef.len() as int)));
        assert(build_base_functions_ok(&semantic.type_registry, regions@, vftable, associated_functions@));
        assert(vftable_of_first_base(&semantic.type_registry, *resolvee_path, pend, own0, vftable, regions@));
        assert(build_vftable_ok(&old(semantic).type_registry, module_scope(&module_of(old(semantic), *resolvee_path)->0), definition.statements@, &semantic.type_registry, *resolvee_path, vftable, regions@));
        assert(resolve_regions_spec(&semantic.type_registry, *resolvee_path, pend, own0, target_size, vftable, regions@, size));
        assert(build_regions_ok(&old(semantic).type_registry, module_scope(&module_of(old(semantic), *resolvee_path)->0), definition.statements@, target_size,
                &semantic.type_registry, *resolvee_path, vftable, regions@, size));
        assert(declared_fields_placed(&old(semantic).type_registry, module_scope(&module_of(old(semantic), *resolvee_path)->0), definition.statements@, regions@, &semantic.type_registry));
    }""")
