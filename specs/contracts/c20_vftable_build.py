"""vftable inheritance: vftable::build, get_(optional_)region_name_and_vftable, get_region_name_and_type_definition,
SemanticState::add_item (trusted frame), first-base selection in resolve_regions (C06 C10 C14 C12)."""
import rules
from rules import fn_into_verus, ghost, closure_annot, after, before, body_start, body_end, fn_end, closure_of_call

U = ("C06", "C10", "C12", "C14")


def apply(ctx, W):
    ty = W.file("semantic/types.rs")
    fn_into_verus(ctx, ty, "Type::human_friendly_type", tags=("C12",))
    fn_into_verus(ctx, ty, "ItemDefinitionInner::human_friendly_type", tags=("C12",))
    fn_into_verus(ctx, ty, "ItemDefinitionInner::as_type", ret="r", tags=("C06", "C12"), ensures=[
        "r == (match *self { ItemDefinitionInner::Type(v) => Some(&v), _ => None::<&TypeDefinition> })"])

    td = W.file("semantic/type_definition/mod.rs")
    fn_into_verus(ctx, td, "get_region_name_and_type_definition", ret="res", tags=("C06", "C07", "C12"), ensures=[
        ("""match base_type_of(type_registry, *region) {
            None => res is Err,
            Some(None) => res is Ok && res->Ok_0 is None,
            Some(Some((n, d))) => res is Ok && res->Ok_0 is Some && (res->Ok_0->0).0 == n && *(res->Ok_0->0).1 == d,
        }""", ("C06", "C07"), "base-type-of"),
    ])

    ss = W.file("semantic/semantic_state.rs")
    fn_into_verus(ctx, ss, "SemanticState::add_item", ret="res", tags=("C06", "C14", "C19"), ensures=[
        """res is Ok ==> ({
            &&& final(self).type_registry.pointer_size == old(self).type_registry.pointer_size
            &&& final(self).type_registry.types@ == old(self).type_registry.types@.insert(item_definition.path, item_definition)
            &&& final(self).modules@.dom() == old(self).modules@.dom()
            &&& modules_frame(old(self).modules@, final(self).modules@)
            &&& final(self).modules@[spec_parent(item_definition.path)->0].ast == old(self).modules@[spec_parent(item_definition.path)->0].ast
            &&& spec_parent(item_definition.path) is Some && old(self).modules@.contains_key(spec_parent(item_definition.path)->0)
            &&& forall|k: ItemPath| #![trigger final(self).modules@[k]] old(self).modules@.contains_key(k) && Some(k) != spec_parent(item_definition.path)
                    ==> final(self).modules@[k] == old(self).modules@[k]
            &&& module_scope(&final(self).modules@[spec_parent(item_definition.path)->0]) == module_scope(&old(self).modules@[spec_parent(item_definition.path)->0])
            &&& final(self).modules@[spec_parent(item_definition.path)->0].extern_values == old(self).modules@[spec_parent(item_definition.path)->0].extern_values
            &&& final(self).modules@[spec_parent(item_definition.path)->0].impls == old(self).modules@[spec_parent(item_definition.path)->0].impls
            &&& final(self).modules@[spec_parent(item_definition.path)->0].backends == old(self).modules@[spec_parent(item_definition.path)->0].backends
            &&& final(self).modules@[spec_parent(item_definition.path)->0].doc == old(self).modules@[spec_parent(item_definition.path)->0].doc
            &&& final(self).modules@[spec_parent(item_definition.path)->0].path == old(self).modules@[spec_parent(item_definition.path)->0].path
            &&& final(self).modules@[spec_parent(item_definition.path)->0].definition_paths@ == old(self).modules@[spec_parent(item_definition.path)->0].definition_paths@.insert(item_definition.path)
        })""",
        "res is Err ==> *final(self) == *old(self)",
        "spec_parent(item_definition.path) is Some && old(self).modules@.contains_key(spec_parent(item_definition.path)->0) ==> res is Ok",
    ])

    vf = W.file("semantic/type_definition/vftable.rs")
    fn, u = fn_into_verus(ctx, vf, "get_region_name_and_vftable", ret="res", tags=("C06", "C12"), ensures=[
        ("""match base_vftable_of(type_registry, Some(*region)) {
            None => res is Err,
            Some(None) => res is Ok && res->Ok_0 is None,
            Some(Some((n, v))) => res is Ok && res->Ok_0 is Some && (res->Ok_0->0).0 == n && *(res->Ok_0->0).1 == v,
        }""", ("C06",), "base-vftable-of-region"),
    ])
    c1 = closure_of_call(vf, fn, "and_then")
    closure_annot(ctx, vf, u, c1, params=["p__: (String, &'a TypeDefinition)"], ret="o: Option<(String, &'a TypeVftable)>",
                  ensures=["match p__.1.vftable { Some(v) => o is Some && (o->0).0 == p__.0 && *(o->0).1 == v, None => o is None }"], tags=("C06",))
    c2 = closure_of_call(vf, fn, "map")
    closure_annot(ctx, vf, u, c2, params=["vftable: &'a TypeVftable"], ret="q: (String, &'a TypeVftable)", ensures=["q.0 == name && q.1 == vftable"], tags=("C06",))

    fn, u = fn_into_verus(ctx, vf, "get_optional_region_name_and_vftable", ret="res", tags=("C06", "C12"), ensures=[
        ("""match base_vftable_of(type_registry, (match region { Some(r) => Some(*r), None => None::<Region> })) {
            None => res is Err,
            Some(None) => res is Ok && res->Ok_0 is None,
            Some(Some((n, v))) => res is Ok && res->Ok_0 is Some && (res->Ok_0->0).0 == n && *(res->Ok_0->0).1 == v,
        }""", ("C06",), "base-vftable-of"),
    ])
    closure_annot(ctx, vf, u, closure_of_call(vf, fn, "map"), params=["b: &Region"], ret="o: anyhow::Result<Option<(String, &'a TypeVftable)>>",
                  ensures=["""match base_vftable_of(type_registry, Some(*b)) {
            None => o is Err,
            Some(None) => o is Ok && o->Ok_0 is None,
            Some(Some((n, v))) => o is Ok && o->Ok_0 is Some && (o->Ok_0->0).0 == n && *(o->Ok_0->0).1 == v,
        }"""], tags=("C06",))

    # ---- vftable::build (replaces the trusted stub of b10_layout)
    fn, u = fn_into_verus(ctx, vf, "build", ret="res", tags=U + ("C01", "C02", "C03"), unit="semantic::type_definition::vftable::build", attrs=["verifier::loop_isolation(false)"],
        requires=["reg_wf(&old(semantic).type_registry)"],
        ensures=[
            ("reg_wf(&final(semantic).type_registry)", ("C01", "C02", "C03"), "build-keeps-reg-wf"),
            ("modules_frame(old(semantic).modules@, final(semantic).modules@)", ("C05", "C10", "C12", "C14", "C15"), "build-keeps-modules"),
            ("registry_frame(&old(semantic).type_registry, &final(semantic).type_registry, *resolvee_path)", ("C10", "C19"), "attempt-frame"),
            ("keys_kept(&old(semantic).type_registry, &final(semantic).type_registry)", ("C10", "C14"), "keys-kept"),
            ("vftable_functions is None && first_base is None ==> res is Ok", ("C03",), "no-vftable-no-error"),
            ("""res is Ok ==> vftable_result_ok(&final(semantic).type_registry, *resolvee_path,
                    (match first_base { Some(r) => Some(*r), None => None::<Region> }), vftable_functions, res->Ok_0)""", ("C06",), "vftable-result"),
            # C16 "the same function has the same convention in every derived vftable": the convention-only part of the
            # slot equality, as a clause of its own so that a comparison that forgets the convention fails *this* property
            ("""res is Ok && res->Ok_0.0 is Some ==> match base_vftable_of(&final(semantic).type_registry, (match first_base { Some(r) => Some(*r), None => None::<Region> })) {
                    Some(Some((_, bv))) => forall|i: int| 0 <= i < bv.functions@.len() ==> i < res->Ok_0.0->0.functions@.len()
                        && (#[trigger] res->Ok_0.0->0.functions@[i]).calling_convention == bv.functions@[i].calling_convention,
                    _ => true,
                }""", ("C16",), "vftable-conventions-shared"),
            ("final(semantic).type_registry.types@.dom() == old(semantic).type_registry.types@.dom()", ("C10",), "attempt-keeps-key-set"),
            ("""forall|q: ItemPath| #![trigger final(semantic).type_registry.types@[q]] old(semantic).type_registry.types@.contains_key(q)
                    ==> final(semantic).type_registry.types@[q] == old(semantic).type_registry.types@[q]""", ("C14",), "generated-item-does-not-overwrite"),
        ])
    lp = rules.loop_by_header(vf, fn, "zip")
    rules.for_to_index_loop(ctx, vf, u, lp, seq="base_vftable.functions", ivar="i_z", zip_with="vftable_functions")
    rules.index_loop_spec(ctx, vf, u, lp, tags=("C06",), invariants=[
        ("forall|i: int| 0 <= i < i_z ==> #[trigger] vftable_functions@[i] == base_vftable.functions@[i]", ("C06",)),
        ("forall|i: int| 0 <= i < i_z ==> (#[trigger] vftable_functions@[i]).calling_convention == base_vftable.functions@[i].calling_convention", ("C16",)),
    ])

    ai = [m for m in vf.method_calls(fn, "add_item")]
    ghost(ctx, vf, u, after(vf, ai[0]), """proof {
            let vp = vft_path(*resolvee_path)->0;
            assert(vp != u8_path()) by {
                if vp == u8_path() {
                    assert(path_view(vp).last() == "u8"@);
                }
            }
        }""")
