"""Layout units: Type::size/alignment, Region::size, Regions::push, resolve_regions (C01 C02 C03 C12 C20)."""
import rules
from rules import fn_into_verus, loop_spec, ghost, closure_annot, after, before, body_start, body_end, fn_end

L = ("C01", "C02", "C03", "C12", "C20")


def apply(ctx, W):
    # ------------------------------------------------------------------ semantic/types.rs
    fw = W.file("semantic/types.rs")
    fn, u = fn_into_verus(ctx, fw, "ItemDefinition::resolved", ret="r", tags=L, ensures=[
        "r == (match self.state { ItemState::Resolved(x) => Some(&x), _ => None::<&ItemStateResolved> })"])
    fn, u = fn_into_verus(ctx, fw, "ItemDefinition::size", ret="r", tags=L, ensures=[
        "r == (match self.state { ItemState::Resolved(x) => Some(x.size), _ => None::<usize> })"])
    closure_annot(ctx, fw, u, fw.closure(fn, 1), params=["r: &ItemStateResolved"], ret="o: usize", ensures=["o == r.size"])
    fn, u = fn_into_verus(ctx, fw, "ItemDefinition::alignment", ret="r", tags=L, ensures=[
        "r == (match self.state { ItemState::Resolved(x) => Some(x.alignment), _ => None::<usize> })"])
    closure_annot(ctx, fw, u, fw.closure(fn, 1), params=["r: &ItemStateResolved"], ret="o: usize", ensures=["o == r.alignment"])
    fn_into_verus(ctx, fw, "Type::is_array", ret="r", tags=L, ensures=["r == (self is Array)"])

    fn, u = fn_into_verus(ctx, fw, "Type::size", ret="r", tags=L, decreases="self", ensures=[
        ("r == ty_size(*self, type_registry)", L)])
    closure_annot(ctx, fw, u, fw.closure(fn, 1), params=["t: &ItemDefinition"], ret="r: Option<usize>",
                  ensures=["r == (match t.state { ItemState::Resolved(x) => Some(x.size), _ => None::<usize> })"])
    closure_annot(ctx, fw, u, fw.closure(fn, 2), params=["s: usize"], ret="r: usize",
                  ensures=["r == s * *count"])
    fn, u = fn_into_verus(ctx, fw, "Type::alignment", ret="r", tags=L, decreases="self", ensures=[
        ("r == ty_align(*self, type_registry)", L)])
    closure_annot(ctx, fw, u, fw.closure(fn, 1), params=["t: &ItemDefinition"], ret="r: Option<usize>",
                  ensures=["r == (match t.state { ItemState::Resolved(x) => Some(x.alignment), _ => None::<usize> })"])

    # ------------------------------------------------------------------ semantic/type_registry.rs
    fw = W.file("semantic/type_registry.rs")
    fn_into_verus(ctx, fw, "TypeRegistry::pointer_size", ret="r", tags=L, ensures=["r == self.pointer_size"])
    fn_into_verus(ctx, fw, "TypeRegistry::get", ret="r", tags=L, ensures=[
        "r == (if self.types@.contains_key(*item_path) { Some(&self.types@[*item_path]) } else { None::<&ItemDefinition> })"])
    fn_into_verus(ctx, fw, "TypeRegistry::padding_type", mode="T", ret="r", tags=L,
                  requires=["reg_wf(self)"], ensures=["r == pad_type(bytes as nat)"])

    # ------------------------------------------------------------------ semantic/type_definition/mod.rs
    fw = W.file("semantic/type_definition/mod.rs")
    fn_into_verus(ctx, fw, "Region::size", ret="r", tags=L, ensures=["r == ty_size(self.type_ref, type_registry)"])
    fn_into_verus(ctx, fw, "Region::unnamed_field", ret="r", tags=L, ensures=[
        "r == (Region { visibility: Visibility::Private, name: None, doc: None, type_ref, is_base: false })"])
