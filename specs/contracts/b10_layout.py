"""Layout units: Type::size/alignment, Region::size, Regions::push, resolve_regions (C01 C02 C03 C12 C20)."""
import rules
from rules import fn_into_verus, loop_spec, ghost, closure_annot, after, before, body_start, body_end, fn_end

U = ("C01", "C02", "C03", "C12", "C20")   # unit tags (C12: Verus' own safety obligations)
L = ("C01", "C02", "C03", "C20")          # functional clauses


def apply(ctx, W):
    # ------------------------------------------------------------------ semantic/types.rs
    fw = W.file("semantic/types.rs")
    fn, u = fn_into_verus(ctx, fw, "ItemDefinition::resolved", ret="r", tags=U, ensures=[
        "r == (match self.state { ItemState::Resolved(x) => Some(&x), _ => None::<&ItemStateResolved> })"])
    fn, u = fn_into_verus(ctx, fw, "ItemDefinition::size", ret="r", tags=U, ensures=[
        "r == (match self.state { ItemState::Resolved(x) => Some(x.size), _ => None::<usize> })",
        ("(r is Some) == (self.state is Resolved)", ("C10",), "size-iff-resolved")])
    closure_annot(ctx, fw, u, fw.closure(fn, 1), params=["r: &ItemStateResolved"], ret="o: usize", ensures=["o == r.size"])
    fn, u = fn_into_verus(ctx, fw, "ItemDefinition::alignment", ret="r", tags=U, ensures=[
        "r == (match self.state { ItemState::Resolved(x) => Some(x.alignment), _ => None::<usize> })",
        ("(r is Some) == (self.state is Resolved)", ("C10",), "alignment-iff-resolved")])
    closure_annot(ctx, fw, u, fw.closure(fn, 1), params=["r: &ItemStateResolved"], ret="o: usize", ensures=["o == r.alignment"])
    fn_into_verus(ctx, fw, "Type::is_array", ret="r", tags=U, ensures=["r == (self is Array)"])

    fn, u = fn_into_verus(ctx, fw, "Type::size", ret="r", tags=U, decreases="self", ensures=[
        ("r == ty_size(*self, type_registry)", L),
        # C10 consumes only *whether* a type is sized yet (deferral, cycles): a clause of its own
        ("(r is Some) == (ty_size(*self, type_registry) is Some)", ("C10",), "sized-iff")])
    closure_annot(ctx, fw, u, fw.closure(fn, 1), params=["t: &ItemDefinition"], ret="r: Option<usize>",
                  ensures=["r == (match t.state { ItemState::Resolved(x) => Some(x.size), _ => None::<usize> })"])
    closure_annot(ctx, fw, u, fw.closure(fn, 2), params=["s: usize"], ret="r: Option<usize>",
                  ensures=["r == (if s * *count <= usize::MAX { Some((s * *count) as usize) } else { None::<usize> })"])
    fn, u = fn_into_verus(ctx, fw, "Type::alignment", ret="r", tags=U, decreases="self", ensures=[
        ("r == ty_align(*self, type_registry)", L),
        ("(r is Some) == (ty_align(*self, type_registry) is Some)", ("C10",), "aligned-iff")])
    closure_annot(ctx, fw, u, fw.closure(fn, 1), params=["t: &ItemDefinition"], ret="r: Option<usize>",
                  ensures=["r == (match t.state { ItemState::Resolved(x) => Some(x.alignment), _ => None::<usize> })"])

    # ------------------------------------------------------------------ semantic/type_registry.rs
    fw = W.file("semantic/type_registry.rs")
    fn_into_verus(ctx, fw, "TypeRegistry::pointer_size", ret="r", tags=U, ensures=["r == self.pointer_size"])
    fn_into_verus(ctx, fw, "TypeRegistry::get", ret="r", tags=U + ("C06", "C07", "C10", "C11", "C14", "C19"), ensures=[
        ("r == (if self.types@.contains_key(*item_path) { Some(&self.types@[*item_path]) } else { None::<&ItemDefinition> })",
         L + ("C06", "C07", "C10", "C11", "C14", "C19"), "registry-get")])

    fn_gm, u_gm = fn_into_verus(ctx, fw, "TypeRegistry::get_mut", ret="r", tags=("C10", "C12", "C14"), ensures=[
        ("final(self).pointer_size == old(self).pointer_size", ("C10",), "get-mut-keeps-pointer-size"),
        ("""match r {
                Some(v) => old(self).types@.contains_key(*item_path) && *v == old(self).types@[*item_path]
                    && final(self).types@.dom() == old(self).types@.dom()
                    && final(self).types@[*item_path] == *final(v)
                    && (forall|j: ItemPath| #![trigger final(self).types@[j]] old(self).types@.contains_key(j) && j != *item_path ==> final(self).types@[j] == old(self).types@[j]),
                None => !old(self).types@.contains_key(*item_path) && final(self).types@ == old(self).types@,
            }""", ("C10", "C14"), "get-mut-frame"),
    ])
    ghost(ctx, fw, u_gm, fn_gm["block_span"][0] + 1, "broadcast use vstd::std_specs::hash::group_hash_axioms;")
    # ------------------------------------------------------------------ semantic/type_definition/mod.rs
    fw = W.file("semantic/type_definition/mod.rs")
    fn_into_verus(ctx, fw, "Region::size", ret="r", tags=U, ensures=["r == ty_size(self.type_ref, type_registry)"])
    fn_into_verus(ctx, fw, "Region::unnamed_field", ret="r", tags=U, ensures=[
        "r == (Region { visibility: Visibility::Private, name: None, doc: None, type_ref, is_base: false })"])

    # W4: hoist `struct Regions` + `impl Regions` out of resolve_regions
    rr = fw.fn("resolve_regions")
    top = rr["span"][0]
    rules.type_into_verus(ctx, fw, "Regions", hoist_to=top, within=rr)
    rules.hoist_impl(ctx, fw, "Regions", rr, top)
    rules.module_ghost(fw, top, """
pub assume_specification [<Regions as Default>::default] () -> (r: Regions)
    ensures r.regions@.len() == 0, r.last_address == 0;
""")
    fn, u = fn_into_verus(ctx, fw, "resolve_regions/Regions::push", ret="r", tags=U, unit="semantic::type_definition::Regions::push",
        requires=["old(self).last_address == sum_sizes(old(self).regions@, type_registry)",
                  "all_sized(old(self).regions@, type_registry)"],
        ensures=[
            ("final(self).last_address == sum_sizes(final(self).regions@, type_registry)", L),
            ("all_sized(final(self).regions@, type_registry)", L),
            ("r is Some ==> ty_size(region.type_ref, type_registry) is Some", L),
            ("r is None ==> *final(self) == *old(self)", L),
            # C10 / C03 consume *when* a region defers its type: only while its type is unsized (or the running address overflows)
            ("""ty_size(region.type_ref, type_registry) is Some
                    && old(self).last_address + ty_size(region.type_ref, type_registry)->0 <= usize::MAX ==> r is Some""", ("C10", "C03"), "push-defers-only-unsized"),
            ("r is Some ==> ty_size(region.type_ref, type_registry) is Some", ("C10",), "push-needs-sized"),
            ("""r is Some ==> (if ty_size(region.type_ref, type_registry) == Some(0usize) && region.type_ref is Array {
                        *final(self) == *old(self)
                    } else {
                        final(self).regions@ == old(self).regions@.push(region)
                        && final(self).last_address == old(self).last_address + ty_size(region.type_ref, type_registry)->0
                    })""", L),
            ("r is Some ==> (final(self).regions@, final(self).last_address as nat) == place((old(self).regions@, old(self).last_address as nat), region, type_registry)", L),
        ])
    ghost(ctx, fw, u, before(fw, fw.method_calls(fn, "push")[0]),
          "proof { lemma_sum_push(self.regions@, region, type_registry); }")

    fn, u = fn_into_verus(ctx, fw, "resolve_regions", ret="res", tags=U,
        requires=["reg_wf(&old(semantic).type_registry)"],
        ensures=[
            ("""res is Ok && res->Ok_0 is Some ==> ({
            let out = (res->Ok_0->0).0@;
            let size = (res->Ok_0->0).2;
            let reg = &final(semantic).type_registry;
            &&& all_sized(out, reg)
            &&& size == sum_sizes(out, reg)
            &&& (target_size is Some ==> size == target_size->0)
            &&& placement_exists(regions@, out, reg)
        })""", L),
            ("""res is Ok && res->Ok_0 is Some ==> vftable_of_first_base(&final(semantic).type_registry, *resolvee_path, regions@, vftable_functions,
                    (res->Ok_0->0).1, (res->Ok_0->0).0@)""", ("C06",), "vftable-of-first-base"),
            ("""res is Ok && res->Ok_0 is Some ==> resolve_regions_spec(&final(semantic).type_registry, *resolvee_path, regions@, vftable_functions,
                    target_size, (res->Ok_0->0).1, (res->Ok_0->0).0@, (res->Ok_0->0).2)""", ("C01", "C17", "C20"), "regions-functional-spec"),
            ("""res is Err && vftable_functions is None && first_base_of(regions@) is None ==> !layout_accepts(regions@, target_size, &final(semantic).type_registry)""",
             ("C03",), "no-spurious-layout-rejection"),
            ("""res is Ok && res->Ok_0 is Some && vftable_functions is None && first_base_of(regions@) is None ==> layout_accepts(regions@, target_size, &final(semantic).type_registry)""",
             ("C03",), "layout-accepted-only-if"),
            ("""first_base_of(regions@) is Some && ty_size(first_base_of(regions@)->0.type_ref, &old(semantic).type_registry) is None
                    ==> res is Ok && res->Ok_0 is None && *final(semantic) == *old(semantic)""", ("C10", "C06"), "unresolved-first-base-defers"),
            # C10 "every type gets resolved however long the chains": a deferral has a reason that resolution removes
            ("""res is Ok && res->Ok_0 is None ==>
                    (first_base_of(regions@) is Some && ty_size(first_base_of(regions@)->0.type_ref, &old(semantic).type_registry) is None)
                    || layout_defers(regions@, &final(semantic).type_registry)""", ("C10",), "defers-only-while-a-field-is-unsized"),
            ("modules_frame(old(semantic).modules@, final(semantic).modules@)", ("C05", "C10", "C12", "C14", "C15"), "keeps-modules"),
            ("reg_wf(&final(semantic).type_registry)", ("C10",), "keeps-reg-wf"),
            ("keys_kept(&old(semantic).type_registry, &final(semantic).type_registry)", ("C10", "C14"), "keys-kept"),
            ("final(semantic).type_registry.pointer_size == old(semantic).type_registry.pointer_size", ("C10",), "keeps-pointer-size"),
            ("registry_frame(&old(semantic).type_registry, &final(semantic).type_registry, *resolvee_path)", ("C10", "C19"), "attempt-frame"),
            ("entries_kept(&old(semantic).type_registry, &final(semantic).type_registry)", ("C14", "C17"), "attempt-keeps-entries"),
        ])
    # first base: `regions.iter().map(|t| &t.1).find(|r| r.is_base)`
    fnd = fw.method_calls(fn, "find")
    if len(fnd) != 1:
        raise rules.WeaveError("resolve_regions: expected one .find(..) call")
    rules.map_find(fw, fn, fnd[0], "Seq::new(regions@.len(), |i: int| regions@[i].1)", "base_marks(regions@)")
    closure_annot(ctx, fw, u, rules.closure_of_call(fw, fn, "map"), params=["t: &(Option<usize>, Region)"], ret="o: &Region", ensures=["*o == t.1"], tags=("C06",))
    closure_annot(ctx, fw, u, rules.closure_of_call(fw, fn, "find"), params=["r: &&Region"], ret="b: bool", ensures=["b == r.is_base"], tags=("C06",))
    ghost(ctx, fw, u, after(fw, fw.top_let(fn, "first_base")),
          "assert(first_base_of(regions@) == (match first_base { Some(r) => Some(*r), None => None::<Region> }));", tags=("C06",), kind="assert")
    l1 = fw.loop(fn, 1)
    l2 = fw.loop(fn, 2)
    ghost(ctx, fw, u, after(fw, fw.top_let(fn, "vftable")), """let ghost vr0 = vftable_region; let ghost vft0 = vftable;""")
    ghost(ctx, fw, u, after(fw, fw.top_let(fn, "vftable")), """proof { lemma_sum_empty(&semantic.type_registry); assert(resolved.regions@ =~= Seq::<Region>::empty()); }""")
    ghost(ctx, fw, u, before(fw, l1), """let ghost mut pos: Seq<int> = Seq::empty();
    let ghost init_acc = (resolved.regions@, resolved.last_address as nat);
    proof { assert((vftable_functions is None && first_base_of(regions@) is None) ==> vr0 is None); }
    proof { assert(init_acc == (match vr0 { Some(r) => place((Seq::<Region>::empty(), 0nat), r, &semantic.type_registry), None => (Seq::<Region>::empty(), 0nat) })); }""")
    loop_spec(ctx, fw, u, l1, label="it", tags=L, invariants=[
        ("first_base_of(regions@) is Some ==> ty_size(first_base_of(regions@)->0.type_ref, &old(semantic).type_registry) is Some", ("C10", "C06")),
        "reg_wf(&semantic.type_registry)",
        ("vr0 is Some ==> resolved.regions@.len() > 0 && resolved.regions@[0] == vr0->0", ("C06",)),
        ("it.seq() == regions@", ("C03",)),
        ("init_acc == init_of(vr0, &semantic.type_registry)", ("C10",)),
        ("(vftable_functions is None && first_base_of(regions@) is None) ==> init_acc == (Seq::<Region>::empty(), 0nat)", ("C03",)),
        ("modules_frame(old(semantic).modules@, semantic.modules@)", ("C05", "C10", "C14", "C15")),
        ("registry_frame(&old(semantic).type_registry, &semantic.type_registry, *resolvee_path)", ("C10", "C19")),
        ("keys_kept(&old(semantic).type_registry, &semantic.type_registry)", ("C10",)),
        ("entries_kept(&old(semantic).type_registry, &semantic.type_registry)", ("C14", "C17")),
        ("semantic.type_registry.pointer_size == old(semantic).type_registry.pointer_size", ("C10",)),
        "resolved.last_address == sum_sizes(resolved.regions@, &semantic.type_registry)",
        "all_sized(resolved.regions@, &semantic.type_registry)",
        "pos.len() == it.index()",
        "Some((resolved.regions@, resolved.last_address as nat)) == layout_fields(it.seq(), it.index() as int, init_acc, &semantic.type_registry)",
        "forall|k: int| 0 <= k < it.index() ==> #[trigger] placed_ok(it.seq(), k, resolved.regions@, pos[k], &semantic.type_registry)",
    ])
    ghost(ctx, fw, u, body_start(l1), """let ghost old_regions = resolved.regions@;
        let ghost old_last = resolved.last_address;
        let ghost old_pos = pos;
        proof { if resolved.regions@.len() == 0 { assert(resolved.regions@ =~= Seq::<Region>::empty()); lemma_sum_empty(&semantic.type_registry); } }""")
    ghost(ctx, fw, u, after(fw, fw.let(fn, "size")), "proof { lemma_pad_size(size, &semantic.type_registry); }")
    let_size = fw.let(fn, "size")
    if let_size["else_span"] is None:
        raise rules.WeaveError("resolve_regions: overlap test is no longer a let-else")
    ghost(ctx, fw, u, let_size["else_span"][0] + 1, """proof {
                    assert(layout_fields(regions@, it.index() as int + 1, init_acc, &semantic.type_registry) is None);
                    lemma_layout_none_stable(regions@, it.index() as int + 1, regions@.len() as int, init_acc, &semantic.type_registry);
                }""")
    st = rules.body_stmts(fw, l1)
    ghost(ctx, fw, u, st[-1]["span"][0], """let ghost before = resolved.regions@;
        proof { lemma_offset_full(before, &semantic.type_registry); }""")
    # the deferral exit of the field itself: its type is unsized, or the running address would overflow
    ifs_push = [n for n in fw.in_fn(fn, ("if",)) if st[-1]["span"][0] <= n["span"][0] < st[-1]["span"][1]]
    if len(ifs_push) != 1:
        raise rules.WeaveError("resolve_regions: the push of the field is no longer `if resolved.push(..).is_none() { return Ok(None); }`")
    ghost(ctx, fw, u, ifs_push[0]["then_span"][0] + 1, """proof {
                let reg = &semantic.type_registry; let k0 = it.index() as int;
                assert(layout_fields(regions@, k0, init_of(vr0, reg), reg) == Some((old_regions, old_last as nat)));
                assert(defers_at(regions@, k0, init_of(vr0, reg), reg));
                assert(layout_defers(regions@, reg));
            }""", tags=("C10",))
    pr2 = fw.let(fn, "padding_region", 2)
    ghost(ctx, fw, u, pr2["span"][0], "proof { lemma_pad_size((target_size - resolved.last_address) as usize, &semantic.type_registry); }")
    ghost(ctx, fw, u, body_end(l1), """proof {
            let reg = &semantic.type_registry;
            let k0 = it.index() as int;
            if resolved.regions@.len() == before.len() {
                pos = pos.push(-1);
            } else {
                pos = pos.push(before.len() as int);
                lemma_sum_take_push(before, region, before.len() as int, reg);
            }
            assert forall|k: int| 0 <= k < k0 + 1 implies #[trigger] placed_ok(it.seq(), k, resolved.regions@, pos[k], reg) by {
                if k < k0 {
                    assert(placed_ok(it.seq(), k, old_regions, old_pos[k], reg));
                    if old_pos[k] >= 0 {
                        lemma_prefix_stable(old_regions, resolved.regions@, old_pos[k], reg);
                    }
                }
            }
        }""")
    ghost(ctx, fw, u, after(fw, l1), """let ghost pre_pad = resolved.regions@; let ghost pre_pad_end = resolved.last_address;
    proof { assert(Some((pre_pad, pre_pad_end as nat)) == layout_fields(regions@, regions@.len() as int, init_acc, &semantic.type_registry)); }""")
    ghost(ctx, fw, u, after(fw, fw.top_let(fn, "size")), """let ghost pre = resolved.regions@;
    let ghost reg = &semantic.type_registry;
    proof { lemma_sum_empty(reg); assert(pre.take(0) =~= Seq::<Region>::empty());
            assert((pre, resolved.last_address as nat) == tail_pad((pre_pad, pre_pad_end as nat), target_size, reg)); }""")
    mac = [m for m in fw.in_fn(fn, ("macro",)) if m["path"] == "format" and l2["span"][0] <= m["span"][0] < l2["span"][1]]
    if len(mac) != 1:
        raise rules.WeaveError("resolve_regions: expected one format! in the renaming loop")
    rules.fmt_value(fw, mac[0], "v_format1_usize")
    rules.for_mut_to_iter_mut(fw, l2)
    loop_spec(ctx, fw, u, l2, label="it2", tags=L, invariants=[
        ("first_base_of(regions@) is Some ==> ty_size(first_base_of(regions@)->0.type_ref, &old(semantic).type_registry) is Some", ("C10", "C06")),

        "reg == &semantic.type_registry",
        ("entries_kept(&old(semantic).type_registry, &semantic.type_registry)", ("C14", "C17")),
        ("keys_kept(&old(semantic).type_registry, &semantic.type_registry)", ("C10",)),
        ("semantic.type_registry.pointer_size == old(semantic).type_registry.pointer_size", ("C10",)),
        ("vr0 is Some ==> pre.len() > 0 && pre[0] == vr0->0", ("C06",)),
        ("modules_frame(old(semantic).modules@, semantic.modules@)", ("C05", "C10", "C14", "C15")),
        ("registry_frame(&old(semantic).type_registry, &semantic.type_registry, *resolvee_path)", ("C10", "C19")),
        "all_sized(pre, reg)",
        "resolved.last_address == sum_sizes(pre, reg)",
        "it2.seq().len() == pre.len()",
        "forall|i: int| 0 <= i < pre.len() ==> *(#[trigger] it2.seq()[i]) == pre[i]",
        "size == offset_of(pre, it2.index() as int, reg)",
        """forall|i: int| 0 <= i < it2.index() ==> (#[trigger] final(it2.seq()[i])).type_ref == pre[i].type_ref
                && (pre[i].name is Some ==> *final(it2.seq()[i]) == pre[i])""",
        ("""forall|i: int| 0 <= i < it2.index() ==> (pre[i].name is None ==> anon_ok(*#[trigger] final(it2.seq()[i]), pre[i].type_ref, offset_of(pre, i, reg)))""", ("C17", "C20")),
    ])
    ghost(ctx, fw, u, body_start(l2), """proof {
            lemma_offset_step(pre, it2.index() as int, reg);
            lemma_offset_mono(pre, it2.index() as int + 1, reg);
        }""")
    ghost(ctx, fw, u, rules.body_stmts(fw, fn)[-2]["span"][0], """proof {
        lemma_offset_full(pre, reg);
        if target_size is Some && pre_pad_end < target_size->0 { lemma_pad_size((target_size->0 - pre_pad_end) as usize, reg); }
        assert((target_size is Some && size != target_size->0) ==> pre_pad_end > target_size->0);
    }""")
    ghost(ctx, fw, u, rules.body_stmts(fw, fn)[-1]["span"][0], """proof {
        let out = resolved.regions@;
        assert(out.len() == pre.len());
        assert forall|i: int| 0 <= i < pre.len() implies (#[trigger] out[i]).type_ref == pre[i].type_ref by {}
        lemma_same_types_same_sums(pre, out, reg);
        lemma_offset_full(pre, reg);
        assert(all_placed_final(regions@, out, pos, reg)) by {
            assert forall|k: int| 0 <= k < regions@.len() implies #[trigger] placed_ok_final(regions@, k, out, pos[k], reg) by {
                assert(placed_ok(regions@, k, pre_pad, pos[k], reg));
                if pos[k] >= 0 {
                    lemma_prefix_stable(pre_pad, pre, pos[k], reg);
                    lemma_same_types_same_offsets(pre, out, pos[k], reg);
                }
            }
        }
        assert(placement_exists(regions@, resolved.regions@, &semantic.type_registry));
        assert(vftable_result_ok(reg, *resolvee_path, first_base_of(regions@), vftable_functions, (vft0, vr0)));
        assert(vr0 is Some ==> out[0] == vr0->0);
        assert(vftable_of_first_base(reg, *resolvee_path, regions@, vftable_functions, vft0, out));
        assert(finalized_from(pre, out, reg));
        assert(regions_spec(regions@, vr0, target_size, out, size, reg));
        assert(resolve_regions_spec(reg, *resolvee_path, regions@, vftable_functions, target_size, vft0, out, size));
    }""")

