"""enum_definition::build (C08 C02 C12 C15 C17 C20) and its trusted callees."""
import rules
from rules import fn_into_verus, ghost, closure_annot, after, before, body_start, body_end, fn_end, closure_of_call

U = ("C02", "C08", "C12", "C15", "C17", "C20", "C10")


def apply(ctx, W):
    # ---- callees (trusted contracts for now)
    g = W.file("grammar.rs")
    # Attributes::doc: verified against the property's "line for line and in order" (spec_doc is the join of
    # the doc lines with newlines, written from the property text, not from the code)
    fd, ud = fn_into_verus(ctx, g, "Attributes::doc", ret="r", tags=("C17", "C12"), ensures=[
        ("r is Ok ==> opt_string_view(r->Ok_0) == spec_doc(self.0@)", ("C17",), "doc-lines-joined-in-order"),
        ("r is Ok ==> forall|k: int| 0 <= k < self.0@.len() ==> !doc_bad(#[trigger] self.0@[k])", ("C17",), "doc-non-string-rejected"),
        ("r is Err ==> has_doc_bad(self.0@)", ("C03", "C17"), "doc-error-only-if-non-string"),
    ])
    ld = rules.loop_by_header(g, fd, "self.0")
    rules.for_to_index_loop(ctx, g, ud, ld, seq="self.0", ivar="i_d")
    rules.index_loop_spec(ctx, g, ud, ld, tags=("C17",), invariants=[
        ("opt_string_view(doc) == spec_doc_upto(self.0@, i_d as int)", ("C17",)),
        ("forall|k: int| 0 <= k < i_d ==> !doc_bad(#[trigger] self.0@[k])", ("C17",)),
    ])
    ghost(ctx, g, ud, body_start(ld), 'proof { reveal_strlit("doc"); }')
    ty = W.file("semantic/types.rs")
    rules.from_impl_into_verus(ctx, ty, "EnumDefinition", "ItemDefinitionInner", "ItemDefinitionInner::Enum(v)", tags=("C08",))
    rules.from_impl_into_verus(ctx, ty, "TypeDefinition", "ItemDefinitionInner", "ItemDefinitionInner::Type(v)", tags=("C01", "C02"))

    # ---- enum_definition::build
    fw = W.file("semantic/enum_definition.rs")
    rules.plumbing_once(fw)
    stm = "definition.statements@"
    fn, u = fn_into_verus(ctx, fw, "build", ret="res", tags=U, requires=["reg_wf(&semantic.type_registry)"], ensures=[
        # C10: an enum is deferred only while its base type does not resolve or has no size yet
        ("""res is Ok && res->Ok_0 is None ==> module_of(semantic, *resolvee_path) is Some && ({
            let t = spec_resolve_type(&semantic.type_registry, module_scope(&module_of(semantic, *resolvee_path)->0), definition.type_);
            t is None || ty_size(t->0, &semantic.type_registry) is None })""", ("C10",), "enum-defers-only-while-base-unresolved"),
        ("""res is Ok && res->Ok_0 is Some ==> ({
            let isr = res->Ok_0->0;
            let reg = &semantic.type_registry;
            &&& isr.inner is Enum
            &&& module_of(semantic, *resolvee_path) is Some
            &&& Some(isr.inner->Enum_0.type_) == spec_resolve_type(reg, module_scope(&module_of(semantic, *resolvee_path)->0), definition.type_)
            &&& Some(isr.size) == ty_size(isr.inner->Enum_0.type_, reg)
            &&& Some(isr.alignment) == ty_align(isr.inner->Enum_0.type_, reg)
        })""", ("C02", "C08", "C11"), "enum-base-size-align"),
        ("res is Ok && res->Ok_0 is Some ==> is_int_base(res->Ok_0->0.inner->Enum_0.type_)", ("C08",), "enum-base-is-integer"),
        ("""res is Ok && res->Ok_0 is Some ==> ({
            let ed = res->Ok_0->0.inner->Enum_0;
            &&& ed.fields@.len() == definition.statements@.len()
            &&& forall|k: int| 0 <= k < ed.fields@.len() ==> enum_value(definition.statements@, k) == Some((#[trigger] ed.fields@[k]).1)
                    && ed.fields@[k].0 == definition.statements@[k].name.0
        })""", ("C08", "C20"), "enum-values"),
        ("""res is Ok && res->Ok_0 is Some ==> ({
            let ed = res->Ok_0->0.inner->Enum_0;
            &&& ed.defaultable == has_ident(definition.attributes.0@, "defaultable"@, definition.attributes.0@.len() as int)
            &&& (ed.defaultable <==> ed.default_index is Some)
            &&& forall|k: int| 0 <= k < definition.statements@.len() ==> (stmt_is_default(#[trigger] definition.statements@[k]) <==> ed.default_index == Some(k as usize))
        })""", ("C08",), "enum-default"),
        ("""res is Ok && res->Ok_0 is Some ==> ({
            let ed = res->Ok_0->0.inner->Enum_0;
            let n = definition.attributes.0@.len() as int;
            &&& ed.copyable == has_ident(definition.attributes.0@, "copyable"@, n)
            &&& ed.cloneable == (has_ident(definition.attributes.0@, "copyable"@, n) || has_ident(definition.attributes.0@, "cloneable"@, n))
            &&& opt_string_view(ed.doc) == spec_doc(definition.attributes.0@)
        })""", ("C17",), "enum-flags-doc"),
        ("""res is Ok && res->Ok_0 is Some ==> ({
            let ed = res->Ok_0->0.inner->Enum_0;
            match attr_int(definition.attributes.0@, "singleton"@, definition.attributes.0@.len() as int) {
                Some(v) => v >= 0 && ed.singleton == Some(v as usize),
                None => ed.singleton is None,
            }
        })""", ("C15",), "enum-singleton"),
        ("""res is Ok && res->Ok_0 is Some ==> ({
            let ed = res->Ok_0->0.inner->Enum_0;
            forall|k: int| 0 <= k < ed.fields@.len() ==> fits_base(ed.type_, (#[trigger] ed.fields@[k]).1)
        })""", ("C08",), "enum-value-fits-base"),
        ("""res is Ok && res->Ok_0 is Some ==> ({
            let isr = res->Ok_0->0; let ed = isr.inner->Enum_0;
            forall|k: int| 0 <= k < ed.fields@.len() ==> fits_width(isr.size, base_is_signed(ed.type_), (#[trigger] ed.fields@[k]).1)
        })""", ("C08",), "enum-value-fits-width"),
    ])
    ghost(ctx, fw, u, before(fw, fw.top_let(fn, "is_signed")), 'proof { reveal_strlit("i8"); reveal_strlit("i16"); reveal_strlit("i32"); reveal_strlit("i64"); reveal_strlit("i128"); }')
    ghost(ctx, fw, u, after(fw, fw.top_let(fn, "is_signed")), "proof { assert(is_signed == base_is_signed(ty)); }")
    # the base-type test (F23): the last path segment matched against the ten integer names
    ghost(ctx, fw, u, before(fw, fw.top_let(fn, "is_integer")), 'proof { reveal_strlit("u8"); reveal_strlit("u16"); reveal_strlit("u32"); reveal_strlit("u64"); reveal_strlit("u128"); reveal_strlit("i8"); reveal_strlit("i16"); reveal_strlit("i32"); reveal_strlit("i64"); reveal_strlit("i128"); }')
    l1, l2, l3 = fw.loop(fn, 1), fw.loop(fn, 2), fw.loop(fn, 3)
    rules.for_to_index_loop(ctx, fw, u, l1, seq="definition.statements", ivar="i_s")
    rules.index_loop_spec(ctx, fw, u, l1, tags=("C08", "C20"), invariants=[
        "fields@.len() == i_s",
        ("forall|k: int| 0 <= k < i_s ==> fits_width(size, is_signed, (#[trigger] fields@[k]).1)", ("C08",)),
        ("min_value == width_min(size, is_signed) && max_value == width_max(size, is_signed)", ("C08",)),
        "forall|k: int| 0 <= k < i_s ==> enum_value(definition.statements@, k) == Some((#[trigger] fields@[k]).1) && fields@[k].0 == definition.statements@[k].name.0",
        "last_field == (if i_s == 0 { Some(0isize) } else { let p = enum_value(definition.statements@, i_s - 1)->0; if p + 1 <= isize::MAX { Some((p + 1) as isize) } else { None::<isize> } })",
        "forall|k: int| 0 <= k < i_s ==> (stmt_is_default(#[trigger] definition.statements@[k]) <==> default_index == Some(k as usize))",
        "default_index is Some ==> default_index->0 < i_s",
    ])
    ghost(ctx, fw, u, body_start(l1), "proof { if i_s > 1 { assert(enum_value(definition.statements@, i_s - 2) == Some(fields@[i_s - 2].1)); } }")
    rules.for_to_index_loop(ctx, fw, u, l2, seq="attributes.0", ivar="i_a")
    rules.index_loop_spec(ctx, fw, u, l2, tags=("C08",), invariants=[
        "0 < i_s <= definition.statements.len()",
        "fields@.len() == i_s",
        ("forall|k: int| 0 <= k < i_s ==> fits_width(size, is_signed, (#[trigger] fields@[k]).1)", ("C08",)),
        "*attributes == definition.statements@[i_s - 1].attributes",
        "forall|k: int| 0 <= k < i_s - 1 ==> (stmt_is_default(#[trigger] definition.statements@[k]) <==> default_index == Some(k as usize))",
        """has_ident(attributes.0@, "default"@, i_a as int) <==> default_index == Some((i_s - 1) as usize)""",
        "default_index is Some ==> default_index->0 < i_s",
    ])
    ghost(ctx, fw, u, body_start(l2), 'proof { reveal_strlit("default"); }')
    rules.for_to_index_loop(ctx, fw, u, l3, seq="definition.attributes.0", ivar="i_d")
    rules.index_loop_spec(ctx, fw, u, l3, tags=("C08", "C15", "C17"), invariants=[
        """copyable == has_ident(definition.attributes.0@, "copyable"@, i_d as int)""",
        """cloneable == (has_ident(definition.attributes.0@, "copyable"@, i_d as int) || has_ident(definition.attributes.0@, "cloneable"@, i_d as int))""",
        """defaultable == has_ident(definition.attributes.0@, "defaultable"@, i_d as int)""",
        """match attr_int(definition.attributes.0@, "singleton"@, i_d as int) { Some(v) => v >= 0 && singleton == Some(v as usize), None => singleton is None }""",
    ])
    ghost(ctx, fw, u, body_start(l3), 'proof { reveal_strlit("copyable"); reveal_strlit("cloneable"); reveal_strlit("defaultable"); reveal_strlit("singleton"); }')
    rules.slice1_all(fw, fn)
