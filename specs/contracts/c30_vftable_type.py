"""the generated vftable struct: build_type, function_to_region (C02 C04 C14 C16 C17 C19)."""
import rules
from rules import fn_into_verus, ghost, closure_annot, after, before, closure_of_call


def apply(ctx, W):
    g = W.file("grammar.rs")
    fn_into_verus(ctx, g, "ItemPath::last", ret="r", tags=("C14", "C11"), ensures=[
        "r == (if self.0@.len() > 0 { Some(&self.0@[self.0@.len() - 1]) } else { None::<&ItemPathSegment> })"])
    rules.from_impl_into_verus(ctx, g, "String", "ItemPathSegment", "ItemPathSegment(v)", tags=("C14",))

    vf = W.file("semantic/type_definition/vftable.rs")
    fn, u = fn_into_verus(ctx, vf, "function_to_region", ret="r", tags=("C04", "C16", "C17", "C12"), ensures=[
        ("slot_region_ok(*resolvee_path, *function, r)", ("C04", "C16", "C17"), "slot-region"),
    ])
    coll = vf.method_calls(fn, "collect")
    rules.map_collect_result(vf, fn, coll[0], plain_vec=True)
    closure_annot(ctx, vf, u, closure_of_call(vf, fn, "map", 1), params=["a: &Argument"], ret="q: (String, Box<Type>)",
                  ensures=["slot_param_ok(*resolvee_path, *a, q)"], tags=("C04",))
    closure_annot(ctx, vf, u, closure_of_call(vf, fn, "map", 2), params=["t: &Type"], ret="b: Box<Type>", ensures=["*b == *t"], tags=("C04",))
    ghost(ctx, vf, u, after(vf, vf.top_let(fn, "arguments")), 'proof { reveal_strlit("this"); }')

    fn, u = fn_into_verus(ctx, vf, "build_type", ret="r", tags=("C02", "C04", "C06", "C14", "C19", "C12"), unit="semantic::type_definition::vftable::build_type",
        ensures=[
            ("r is Ok ==> match vft_path(*resolvee_path) { None => r->Ok_0 is None, Some(vp) => r->Ok_0 is Some && r->Ok_0->0.path == vp }", ("C14", "C19", "C06"), "vftable-item-path"),
            ("r is Ok && r->Ok_0 is Some ==> vftable_item_ok(type_registry, *resolvee_path, visibility, functions@, r->Ok_0->0)", ("C02", "C04", "C16", "C17"), "vftable-item"),
            ("r is Ok && r->Ok_0 is Some ==> functions@.len() * type_registry.pointer_size <= usize::MAX", ("C02", "C12"), "vftable-size-fits"),
            ("r is Err ==> functions@.len() * type_registry.pointer_size > usize::MAX", ("C03", "C12"), "vftable-error-only-if-too-large"),
        ])
    mac = [m for m in vf.in_fn(fn, ("macro",)) if m["path"] == "format" and "Vftable" in vf.text(m["span"])]
    if len(mac) != 1:
        raise rules.WeaveError("build_type: expected one format! call for the name of the generated item")
    rules.fmt_value(vf, mac[0], "v_format1_str")
    coll = vf.method_calls(fn, "collect")
    rules.map_collect_result(vf, fn, coll[0], plain_vec=True, slice_recv=True)
    closure_annot(ctx, vf, u, closure_of_call(vf, fn, "map", 1), params=["f: &Function"], ret="q: Region", ensures=["slot_region_ok(*resolvee_path, *f, q)"], tags=("C04",))
    # the size of the generated struct: a checked sum over the slot regions (F13: it used to be an unchecked `.sum()`)
    lp = rules.loop_by_header(vf, fn, "regions")
    rules.for_to_index_loop(ctx, vf, u, lp, seq="regions", ivar="i_g")
    rules.index_loop_spec(ctx, vf, u, lp, tags=("C02", "C12"), invariants=[
        ("forall|k: int| 0 <= k < regions@.len() ==> (#[trigger] regions@[k]).type_ref is Function", ("C02",)),
        ("size == i_g * type_registry.pointer_size", ("C02", "C12")),
        ("regions@.len() == functions@.len()", ("C02",)),
    ])
    ghost(ctx, vf, u, rules.body_start(lp), """proof {
            let p = type_registry.pointer_size as int; let i = i_g as int; let n = regions@.len() as int;
            assert((i - 1) * p + p == i * p) by (nonlinear_arith);
            assert(i * p <= n * p) by (nonlinear_arith) requires i <= n, p >= 0;
        }""")
    ghost(ctx, vf, u, rules.body_end(lp), """proof {
            assert((i_g - 1) * type_registry.pointer_size + type_registry.pointer_size == i_g * type_registry.pointer_size) by (nonlinear_arith);
            assert(i_g <= regions@.len() ==> i_g * type_registry.pointer_size <= regions@.len() * type_registry.pointer_size) by (nonlinear_arith);
        }""")
