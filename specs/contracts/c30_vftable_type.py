"""the generated vftable struct: build_type, function_to_region (C02 C04 C14 C16 C17 C19)."""
import rules
from rules import fn_into_verus, ghost, closure_annot, after, before, closure_of_call


def apply(ctx, W):
    g = W.file("grammar.rs")
    fn_into_verus(ctx, g, "ItemPath::last", ret="r", tags=("C14", "C11"), ensures=[
        "r == (if self.0@.len() > 0 { Some(&self.0@[self.0@.len() - 1]) } else { None::<&ItemPathSegment> })"])
    rules.from_impl_into_verus(ctx, g, "String", "ItemPathSegment", "ItemPathSegment(v)", tags=("C14",))

    vf = W.file("semantic/type_definition/vftable.rs")
    fn, u = fn_into_verus(ctx, vf, "function_to_region", ret="r", tags=("C04", "C16", "C17", "C12"), ensures=[
        ("slot_region_ok(*resolvee_path, *function, r)", ("C04", "C16", "C17"), "slot-region"),
    ])
    coll = vf.method_calls(fn, "collect")
    rules.map_collect_result(vf, fn, coll[0], plain_vec=True)
    closure_annot(ctx, vf, u, closure_of_call(vf, fn, "map", 1), params=["a: &Argument"], ret="q: (String, Box<Type>)",
                  ensures=["slot_param_ok(*resolvee_path, *a, q)"], tags=("C04",))
    closure_annot(ctx, vf, u, closure_of_call(vf, fn, "map", 2), params=["t: &Type"], ret="b: Box<Type>", ensures=["*b == *t"], tags=("C04",))
    ghost(ctx, vf, u, after(vf, vf.top_let(fn, "arguments")), 'proof { reveal_strlit("this"); }')

    fn, u = fn_into_verus(ctx, vf, "build_type", ret="r", tags=("C02", "C04", "C06", "C14", "C19", "C12"), unit="semantic::type_definition::vftable::build_type",
        ensures=[
            ("match vft_path(*resolvee_path) { None => r is None, Some(vp) => r is Some && r->0.path == vp }", ("C14", "C19", "C06"), "vftable-item-path"),
            ("r is Some ==> vftable_item_ok(type_registry, *resolvee_path, visibility, functions@, r->0)", ("C02", "C04", "C16", "C17"), "vftable-item"),
        ])
    mac = [m for m in vf.in_fn(fn, ("macro",)) if m["path"] == "format"]
    if len(mac) != 1:
        raise rules.WeaveError("build_type: expected one format! call")
    rules.fmt_value(vf, mac[0], "v_format1_str")
    coll = vf.method_calls(fn, "collect")
    rules.map_collect_result(vf, fn, coll[0], plain_vec=True, slice_recv=True)
    closure_annot(ctx, vf, u, closure_of_call(vf, fn, "map", 1), params=["f: &Function"], ret="q: Region", ensures=["slot_region_ok(*resolvee_path, *f, q)"], tags=("C04",))
    sm = vf.method_calls(fn, "sum")
    if len(sm) != 1:
        raise rules.WeaveError("build_type: expected one .sum() call")
    rules.map_sum(vf, fn, sm[0], "Seq::new(regions@.len(), |i: int| type_registry.pointer_size)")
    closure_annot(ctx, vf, u, closure_of_call(vf, fn, "map", 2), params=["r: &Region"], ret="n: usize",
                  requires=["r.type_ref is Function"], ensures=["n == type_registry.pointer_size"], tags=("C02",))
    ghost(ctx, vf, u, after(vf, vf.top_let(fn, "regions")), """proof {
        lemma_seq_sum_const(Seq::new(regions@.len(), |i: int| type_registry.pointer_size), type_registry.pointer_size);
    }""")
