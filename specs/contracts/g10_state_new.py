"""SemanticState::new: the built-in type table (C02), discharging reg_wf for every later call."""
import rules
from rules import fn_into_verus, ghost, closure_annot, after, before, body_start, body_end, fn_end

U = ("C01", "C02", "C03", "C12")


def apply(ctx, W):
    tr = W.file("semantic/type_registry.rs")
    fn_into_verus(ctx, tr, "TypeRegistry::new", ret="r", tags=("C02",), ensures=["r.types@ == Map::<ItemPath, ItemDefinition>::empty()", "r.pointer_size == pointer_size"])
    fn_into_verus(ctx, tr, "TypeRegistry::add", tags=("C02", "C14"), ensures=[
        "final(self).types@ == old(self).types@.insert(type_.path, type_)", "final(self).pointer_size == old(self).pointer_size"])
    g = W.file("grammar.rs")
    fn_into_verus(ctx, g, "ItemPath::empty", ret="r", tags=("C02", "C11"), ensures=["r.0@.len() == 0"])
    ss = W.file("semantic/semantic_state.rs")
    rules.plumbing_once(ss)
    fn, u = fn_into_verus(ctx, ss, "SemanticState::new", ret="r", tags=U, ensures=[
        ("builtins_registered(&r.type_registry, 14)", ("C02",), "builtin-table"),
        ("r.type_registry.pointer_size == pointer_size", ("C02",), "pointer-size"),
        ("reg_wf(&r.type_registry)", ("C01", "C02", "C03"), "reg-wf"),
        ("r.modules@.contains_key(spec_empty_path())", ("C14",), "root-module"),
    ])
    cs = ss.calls(fn, "ItemPath::from")
    if len(cs) != 1:
        raise rules.WeaveError("SemanticState::new: expected one ItemPath::from call")
    rules.redirect_call(ss, cs[0], "v_item_path_from_str")
    ghost(ctx, ss, u, before(ss, ss.top_let(fn, "predefined_types")),
          "proof { assert forall|p: ItemPath| #![trigger p.0@.len()] p.0@.len() == 0 implies p == spec_empty_path() by { lemma_empty_path_unique(p); } }")
    lp = rules.loop_by_header(ss, fn, "predefined_types")
    rules.for_to_index_loop(ctx, ss, u, lp, seq="predefined_types", ivar="i_p", elem_ref=False)
    rules.index_loop_spec(ctx, ss, u, lp, tags=("C02",), invariants=[
        "predefined_types@.len() == 14",
        "forall|k: int| 0 <= k < 14 ==> (#[trigger] predefined_types@[k]).0@ == builtin_name(k) && predefined_types@[k].1 == builtin_size(k)",
        "builtins_registered(&semantic_state.type_registry, i_p as int)",
        "semantic_state.type_registry.pointer_size == pointer_size",
        "semantic_state.modules@.contains_key(spec_empty_path())",
    ])
    ghost(ctx, ss, u, body_start(lp), "let ghost st0 = semantic_state;")
    ghost(ctx, ss, u, body_start(lp), """proof {
                axiom_builtin_path(i_p - 1);
                lemma_builtin_parent(i_p - 1);
                assert forall|k: int| 0 <= k < i_p - 1 implies #[trigger] builtin_path(k) != builtin_path(i_p - 1) by { lemma_builtin_names_distinct(k, i_p - 1); }
            }""")
    ghost(ctx, ss, u, body_end(lp), """proof {
                assert(builtin_registered(&semantic_state.type_registry, i_p - 1));
                assert forall|k: int| 0 <= k < i_p - 1 implies #[trigger] builtin_registered(&semantic_state.type_registry, k) by {
                    assert(builtin_registered(&st0.type_registry, k));
                    assert(builtin_path(k) != builtin_path(i_p - 1));
                }
            }""")
    ghost(ctx, ss, u, after(ss, lp), "proof { lemma_builtins_give_reg_wf(&semantic_state.type_registry); }")
