"""Module::resolve_extern_values (C15 C10 C11): after the types, the type of every extern value is resolved in the
scope of its module; name, visibility and address are kept; the registry is only read."""
import rules
from rules import fn_into_verus, ghost, closure_annot, after, before, body_start, closure_of_call, loop_by_header

U = ("C10", "C11", "C12", "C15")


def apply(ctx, W):
    m = W.file("semantic/module.rs")
    fn, u = fn_into_verus(ctx, m, "Module::resolve_extern_values", ret="res", tags=U,
        requires=["reg_wf(&*old(type_registry))"],
        ensures=[
            ("*final(type_registry) == *old(type_registry)", ("C10", "C19"), "externs-registry-unchanged"),
            ("res is Ok ==> module_externs_resolved(&*old(type_registry), *old(self), *final(self))", ("C10", "C11", "C15"), "extern-values-resolved"),
            ("""res is Err ==> extern_value_unresolvable(&*old(type_registry), module_scope(&*old(self)), old(self).extern_values@,
                    old(self).extern_values@.len() as int)""", ("C10",), "extern-error-only-if-unresolvable"),
        ])
    lp = loop_by_header(m, fn, "extern_values")
    rules.for_mut_to_iter_mut(m, lp)
    ghost(ctx, m, u, before(m, lp), """let ghost pre = self.extern_values@;
        let ghost sc = module_scope(&*self);
        let ghost reg0 = *type_registry;""")
    rules.loop_spec(ctx, m, u, lp, label="it", tags=("C15", "C10", "C11"), invariants=[
        "scope@ == sc",
        "sc == module_scope(&*old(self))",
        "pre == old(self).extern_values@",
        "reg0 == *old(type_registry)",
        "*type_registry == reg0",
        "reg_wf(&reg0)",
        "it.seq().len() == pre.len()",
        "forall|i: int| 0 <= i < pre.len() ==> *(#[trigger] it.seq()[i]) == pre[i]",
        ("forall|i: int| 0 <= i < it.index() ==> extern_value_resolved(&reg0, sc, pre[i], *#[trigger] final(it.seq()[i]))", ("C15", "C10", "C11")),
    ])
    ghost(ctx, m, u, body_start(lp), """proof {
                assert(*ev == pre[it.index() as int]);
                assert(old(self).extern_values@[it.index() as int] == pre[it.index() as int]);
            }""")
    rg = m.method_calls(fn, "resolve_grammar_type")
    if len(rg) != 1:
        raise rules.WeaveError("Module::resolve_extern_values: expected one call of resolve_grammar_type")
    ghost(ctx, m, u, before(m, rg[0]), """proof {
                    let k = it.index() as int;
                    assert(pre[k].type_ == Type::Unresolved(*type_ref));
                    assert(reg0 == *old(type_registry));
                    assert(sc == module_scope(&*old(self)));
                    assert(pre == old(self).extern_values@);
                    if spec_resolve_type(&reg0, sc, *type_ref) is None {
                        assert(pre[k].type_ is Unresolved && spec_resolve_type(&reg0, sc, pre[k].type_->Unresolved_0) is None);
                        assert(extern_value_unresolvable(&reg0, sc, pre, pre.len() as int));
                    }
                }""")
