"""W2: the data types the contracts talk about become transparent to Verus (moved into verus!{},
`#[verifier::external_derive]`, field visibility widened to `pub`)."""
import rules

TYPES = {
    "grammar.rs": ["Ident", "Type", "ItemPathSegment", "ItemPath", "Expr", "Attribute", "Attributes", "Visibility",
                   "Argument", "Function", "ExprField", "TypeField", "TypeStatement", "TypeDefinition", "EnumStatement",
                   "EnumDefinition", "ItemDefinitionInner", "ItemDefinition", "FunctionBlock", "Backend", "ExternValue",
                   "Module"],
    "semantic/types.rs": ["Visibility", "Type", "ItemDefinitionInner", "ItemStateResolved", "ItemState", "ItemCategory",
                          "ItemDefinition", "Backend", "ExternValue"],
    "semantic/function.rs": ["Argument", "CallingConvention", "FunctionBody", "Function"],
    "semantic/enum_definition.rs": ["EnumDefinition"],
    "semantic/type_definition/mod.rs": ["Region", "TypeDefinition"],
    "semantic/type_definition/vftable.rs": ["TypeVftable"],
    "semantic/type_registry.rs": ["TypeRegistry"],
    "semantic/module.rs": ["Module"],
    "semantic/semantic_state.rs": ["SemanticState", "ResolvedSemanticState"],
}


def apply(ctx, W):
    for rel, names in TYPES.items():
        fw = W.file(rel)
        rules.plumbing(fw)
        for n in names:
            rules.type_into_verus(ctx, fw, n)
    rules.plumbing(W.file("util.rs"))
