"""SemanticState::build: the resolution loop as a `&mut self` method segment (W5), C10 C12."""
import rules
from rules import fn_into_verus, ghost, closure_annot, after, before, body_start, body_end, closure_of_call, loop_by_header

U = ("C10", "C12")


def apply(ctx, W):
    tr = W.file("semantic/type_registry.rs")
    ty = W.file("semantic/types.rs")
    fn_into_verus(ctx, ty, "ItemDefinition::is_resolved", ret="r", tags=("C10",), ensures=["r == (self.state is Resolved)"])
    fn_into_verus(ctx, ty, "ItemDefinition::is_predefined", ret="r", tags=("C10",), ensures=["r == (self.category == ItemCategory::Predefined)"])
    fu, uu = fn_into_verus(ctx, tr, "TypeRegistry::unresolved", ret="r", tags=("C10", "C12"), ensures=[
        # what C10 needs, and no more (whether the built-ins category is filtered out is an implementation detail: the
        # built-ins are always resolved): every listed path is a registered item that is not resolved, and no
        # registered, non-predefined, unresolved item is missing
        ("forall|p: ItemPath| #![trigger r@.contains(p)] r@.contains(p) ==> self.types@.contains_key(p) && !(self.types@[p].state is Resolved)", ("C10",), "unresolved-only"),
        ("forall|p: ItemPath| #![trigger r@.contains(p)] is_unresolved_item(self, p) ==> r@.contains(p)", ("C10",), "unresolved-complete")])
    mp, v, pred, (a, b) = rules.filter_keys_collect(tr, fu)
    tr.replace(a, b, "crate::verif_prelude::v_filter_keys(&%s, |%s: &ItemDefinition| -> (keep: bool) ensures keep ==> !(%s.state is Resolved), !keep ==> (%s.category == crate::semantic::types::ItemCategory::Predefined || %s.state is Resolved), { %s })" % (mp, v, v, v, v, pred), "W9-R-std-filter-keys")
    ss = W.file("semantic/semantic_state.rs")
    b = ss.fn("SemanticState::build")
    loops = [l for l in ss.in_fn(b, ("loop",))]
    if len(loops) != 1:
        raise rules.WeaveError("SemanticState::build: expected one `loop`")
    lp = loops[0]
    st = ss.top_stmt_of(b, lp)
    inner = loop_by_header(ss, b, "to_resolve")
    # the no-progress exit builds its message with iterator adapters: trusted stub (W5 outline), message text not specified
    ifs = [s for s in rules.body_stmts(ss, lp) if s["kind"] == "stmt_expr" and "unresolved()" in ss.text(s["span"]) and ss.text(s["span"]).lstrip().startswith("if ")]
    if len(ifs) != 1:
        raise rules.WeaveError("SemanticState::build: no-progress check not found")
    rules.outline(ctx, ss, b, ifs[0], ifs[0], "build__no_progress", "to_resolve: Vec<ItemPath>", "to_resolve", outs=[], types=[], kind="try", mode="T",
                  method="&self", tags=("C10", "C12"))
    # ---- the tail: `for module in self.modules.values_mut() { module.resolve_extern_values(&mut self.type_registry)?; }`
    # vstd has no model of `HashMap::values_mut`; the loop becomes a *trusted* segment whose contract says what a loop
    # over all values does given the verified contract of Module::resolve_extern_values (g25_externs)
    vm = ss.method_calls(b, "values_mut")
    if len(vm) != 1:
        raise rules.WeaveError("SemanticState::build: expected one `values_mut()` loop")
    st_ext = ss.top_stmt_of(b, vm[0])
    if "resolve_extern_values" not in ss.text(st_ext["span"]) or not ss.text(st_ext["span"]).lstrip().startswith("for "):
        raise rules.WeaveError("SemanticState::build: the extern-value loop has an unexpected shape")
    rules.outline(ctx, ss, b, st_ext, st_ext, "build__externs", "", "", outs=[], types=[], kind="try", mode="T", method="&mut self", recv="this__",
                  call_pre="let ghost mods_mid__ = this__.modules@;\n        ", tags=("C10", "C15"),
                  requires=["reg_wf(&old(self).type_registry)"],
                  ensures=[
                      ("final(self).type_registry == old(self).type_registry", ("C10",), "externs-keep-registry"),
                      ("final(self).modules@.dom() == old(self).modules@.dom()", ("C10", "C14"), "externs-keep-modules"),
                      ("res is Ok ==> modules_externs_resolved(&old(self).type_registry, old(self).modules@, final(self).modules@)", ("C10", "C15"), "externs-resolved"),
                  ])
    u = rules.outline(ctx, ss, b, st, st, "build__resolve", "", "", outs=[], types=[], kind="try", method="&mut self", tags=U, recv="this__",
        attrs=["verifier::exec_allows_no_decreases_clause"],
        requires=["reg_wf(&old(self).type_registry)"],
        ensures=[
            ("res is Ok ==> all_resolved(&final(self).type_registry)", ("C10",), "no-type-left-out"),
            ("reg_wf(&final(self).type_registry)", ("C10",), "keeps-reg-wf"),
            ("keys_kept(&old(self).type_registry, &final(self).type_registry)", ("C10", "C14"), "keys-kept"),
            ("items_kept(&old(self).type_registry, &final(self).type_registry)", ("C14", "C17"), "items-kept"),
            ("modules_frame(old(self).modules@, final(self).modules@)", ("C05", "C10", "C14", "C15"), "keeps-modules"),
            ("final(self).type_registry.pointer_size == old(self).type_registry.pointer_size", ("C10",), "keeps-pointer-size"),
        ])
    rules.self_reborrow(ss, st["span"])
    common = [
        ("reg_wf(&self.type_registry)", ("C10",)),
        ("keys_kept(&old(self).type_registry, &self.type_registry)", ("C10", "C14")),
        ("items_kept(&old(self).type_registry, &self.type_registry)", ("C14", "C17")),
        ("modules_frame(old(self).modules@, self.modules@)", ("C05", "C10", "C14", "C15")),
        ("self.type_registry.pointer_size == old(self).type_registry.pointer_size", ("C10",)),
    ]
    rules.loop_spec(ctx, ss, u, lp, tags=("C10",), invariants=common, ensures=[("all_resolved(&self.type_registry)", ("C10",))])
    rules.for_to_index_loop(ctx, ss, u, inner, seq="to_resolve", ivar="i_r")
    rules.index_loop_spec(ctx, ss, u, inner, tags=("C10",), invariants=common)
    # `self.type_registry.get_mut(p).unwrap().state = V;` stays as written: TypeRegistry::get_mut is under contract
    # (b10_layout) on the std contract of HashMap::get_mut; only a ghost assertion names the resulting map
    gm = ss.method_calls(b, "get_mut")
    if len(gm) != 1:
        raise rules.WeaveError("SemanticState::build: expected one get_mut call")
    stmt = ss.stmt_of(gm[0])
    ghost(ctx, ss, u, before(ss, stmt), "let ghost m0__ = self.type_registry.types@;")
    ghost(ctx, ss, u, after(ss, stmt), """proof {
                    assert(m0__.contains_key(*resolvee_path));
                    assert(self.type_registry.types@ =~= m0__.insert(*resolvee_path, ItemDefinition { state: self.type_registry.types@[*resolvee_path].state, ..m0__[*resolvee_path] }));
                }""")
    ghost(ctx, ss, u, body_start(inner), "let ghost st0 = *self;")

    ghost(ctx, ss, u, after(ss, ss.let(b, "to_resolve")), """proof {
                if to_resolve@.len() == 0 {
                    assert forall|p: ItemPath| #![trigger self.type_registry.types@[p]] #![trigger self.type_registry.types@.contains_key(p)]
                        self.type_registry.types@.contains_key(p) && self.type_registry.types@[p].category != ItemCategory::Predefined
                        implies self.type_registry.types@[p].state is Resolved by { assert(!to_resolve@.contains(p)); }
                }
            }""")

    # ---- the host: `pub fn build(mut self)`.  R-mut-self, then the three remaining statements are verified:
    # the resolution loop (segment), the extern values (trusted segment), the construction of the resolved state
    tail = ss.top_stmts(b)[-1]
    if "ResolvedSemanticState" not in ss.text(tail["span"]):
        raise rules.WeaveError("SemanticState::build: does not end in the construction of the resolved state")
    rules.mut_self_to_local(ss, b, "this__", [tail])
    fn_into_verus(ctx, ss, "SemanticState::build", ret="res", tags=("C10", "C15", "C14", "C17"), no_fallback=True,
        requires=["reg_wf(&self.type_registry)"],
        ensures=[
            ("res is Ok ==> all_resolved(&res->Ok_0.type_registry)", ("C10",), "build-no-type-left-out"),
            ("res is Ok ==> keys_kept(&self.type_registry, &res->Ok_0.type_registry)", ("C10", "C14"), "build-keeps-items"),
            ("res is Ok ==> items_kept(&self.type_registry, &res->Ok_0.type_registry)", ("C14", "C17"), "build-items-keep-path-visibility-category"),
            ("res is Ok ==> res->Ok_0.type_registry.pointer_size == self.type_registry.pointer_size", ("C10",), "build-keeps-pointer-size"),
            ("res is Ok ==> modules_defs_kept(self.modules@, res->Ok_0.modules@)", ("C14", "C10"), "build-module-definitions"),
            ("res is Ok ==> modules_externs_built(&res->Ok_0.type_registry, self.modules@, res->Ok_0.modules@)", ("C10", "C15"), "build-module-extern-values"),
            ("res is Ok ==> modules_backends_kept(self.modules@, res->Ok_0.modules@)", ("C14",), "build-module-backends"),
            ("res is Ok ==> modules_doc_kept(self.modules@, res->Ok_0.modules@)", ("C17",), "build-module-doc"),
        ])
    ghost(ctx, ss, "semantic::semantic_state::SemanticState::build", tail["span"][0], """proof {
            assert forall|k: ItemPath| #![trigger this__.modules@[k]] self.modules@.contains_key(k)
                implies self.modules@[k].definition_paths@.subset_of(this__.modules@[k].definition_paths@)
                    && this__.modules@[k].backends == self.modules@[k].backends && this__.modules@[k].doc == self.modules@[k].doc
                    && extern_values_resolved(&this__.type_registry, module_scope(&self.modules@[k]), self.modules@[k].extern_values@,
                            this__.modules@[k].extern_values@, self.modules@[k].extern_values@.len() as int) by {
                let mid = mods_mid__[k];
                assert(module_kept(self.modules@[k], mid));
                assert(module_externs_resolved(&this__.type_registry, mid, this__.modules@[k]));
            }
        }""")
