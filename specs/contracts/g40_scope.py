"""Module::{uses, scope}, SemanticState::get_module_for_path, TypeRegistry::{resolve_grammar_type, padding_type} (C11 C10 C19)."""
import rules
from rules import fn_into_verus, ghost, closure_annot, after, before, closure_of_call

U = ("C05", "C08", "C10", "C11", "C19", "C12")


def apply(ctx, W):
    m = W.file("semantic/module.rs")
    fn_into_verus(ctx, m, "Module::uses", ret="r", tags=("C11",), ensures=["r@ == self.ast.uses@"])
    fn, u = fn_into_verus(ctx, m, "Module::scope", ret="r", tags=("C11", "C04", "C05", "C19"), ensures=[("r@ == module_scope(self)", ("C11", "C19"), "scope-order")])
    # R-std: once(A).chain(B.iter().cloned()).collect()
    coll = m.method_calls(fn, "collect")
    ch = m.method_calls(fn, "chain")
    on = m.calls(fn, "std::iter::once")
    cl = m.method_calls(fn, "cloned")
    if not (len(coll) == len(ch) == len(on) == len(cl) == 1):
        raise rules.WeaveError("Module::scope: not of the form once(A).chain(B.iter().cloned()).collect()")
    it = [c for c in m.children.get(cl[0]["id"], []) if c["kind"] == "method_call" and c["method"] == "iter"]
    if len(it) != 1:
        raise rules.WeaveError("Module::scope: chain argument is not B.iter().cloned()")
    a_txt = " ".join(m.text(on[0]["args"][0]["span"]).split())
    b_txt = " ".join(m.text(it[0]["receiver_span"]).split())
    m.replace(coll[0]["span"][0], coll[0]["span"][1], "crate::verif_prelude::v_once_chain_cloned_paths(%s, %s)" % (a_txt, b_txt), "W9-R-std-once-chain-cloned")

    ss = W.file("semantic/semantic_state.rs")
    fn_into_verus(ctx, ss, "SemanticState::get_module_for_path", ret="r", tags=("C08", "C19", "C11"),
                  ensures=[("match r { Some(m) => module_of(self, *path) == Some(*m), None => module_of(self, *path) is None }", ("C19", "C11"), "module-of")])

    tr = W.file("semantic/type_registry.rs")
    fn, u = fn_into_verus(ctx, tr, "TypeRegistry::resolve_grammar_type", ret="r", tags=U, decreases="type_", requires=["reg_wf(self)"],
                          ensures=[("r == spec_resolve_type(self, scope@, *type_)", ("C05", "C08", "C10", "C11"), "resolve-type")])
    for c in tr.method_calls(fn, "as_ref"):
        rules.box_as_ref(tr, c)
    for k, ctor in ((1, "ConstPointer"), (2, "MutPointer")):
        closure_annot(ctx, tr, u, closure_of_call(tr, fn, "map", k), params=["t: Type"], ret="o: Type", ensures=["o == Type::%s(Box::new(t))" % ctor], tags=("C11",))
    closure_annot(ctx, tr, u, closure_of_call(tr, fn, "map", 3), params=["t: Type"], ret="o: Type", ensures=["o == Type::Array(Box::new(t), *size)"], tags=("C11",))
    fn_into_verus(ctx, tr, "TypeRegistry::resolve_string", mode="T", ret="r", tags=("C11", "C19", "C10"),
                  ensures=["r == spec_resolve_string(self, scope@, name@)"])
