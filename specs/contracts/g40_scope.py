"""Module::{uses, scope}, SemanticState::get_module_for_path, TypeRegistry::{resolve_grammar_type, padding_type} (C11 C10 C19)."""
import rules
from rules import fn_into_verus, ghost, closure_annot, after, before, closure_of_call

U = ("C05", "C08", "C10", "C11", "C19", "C12")


def apply(ctx, W):
    m = W.file("semantic/module.rs")
    fn_into_verus(ctx, m, "Module::uses", ret="r", tags=("C11",), ensures=["r@ == self.ast.uses@"])
    fn, u = fn_into_verus(ctx, m, "Module::scope", ret="r", tags=("C11", "C04", "C05", "C19"), ensures=[("r@ == module_scope(self)", ("C11", "C19", "C04", "C05", "C08"), "scope-order")])
    # R-std: once(A).chain(B.iter().cloned()).collect()
    coll = m.method_calls(fn, "collect")
    ch = m.method_calls(fn, "chain")
    on = m.calls(fn, "std::iter::once")
    cl = m.method_calls(fn, "cloned")
    if not (len(coll) == len(ch) == len(on) == len(cl) == 1):
        raise rules.WeaveError("Module::scope: not of the form once(A).chain(B.iter().cloned()).collect()")
    it = [c for c in m.children.get(cl[0]["id"], []) if c["kind"] == "method_call" and c["method"] == "iter"]
    if len(it) != 1:
        raise rules.WeaveError("Module::scope: chain argument is not B.iter().cloned()")
    # the ORDER matters: `once(A)` must be the receiver of `.chain(..)` and `B.iter().cloned()` its argument, and the
    # chain must be what is collected (a swapped chain is a different function and must not be rewritten into this one)
    if tuple(ch[0]["receiver_span"]) != tuple(on[0]["span"]) or tuple(ch[0]["args"][0]["span"]) != tuple(cl[0]["span"]) \
            or tuple(coll[0]["receiver_span"]) != tuple(ch[0]["span"]):
        raise rules.WeaveError("Module::scope: not of the form once(A).chain(B.iter().cloned()).collect() (operands in another order)")
    a_txt = " ".join(m.text(on[0]["args"][0]["span"]).split())
    b_txt = " ".join(m.text(it[0]["receiver_span"]).split())
    m.replace(coll[0]["span"][0], coll[0]["span"][1], "crate::verif_prelude::v_once_chain_cloned_paths(%s, %s)" % (a_txt, b_txt), "W9-R-std-once-chain-cloned")

    ss = W.file("semantic/semantic_state.rs")
    fn_into_verus(ctx, ss, "SemanticState::get_module_for_path", ret="r", tags=("C08", "C19", "C11"),
                  ensures=[("match r { Some(m) => module_of(self, *path) == Some(*m), None => module_of(self, *path) is None }", ("C19", "C11"), "module-of")])

    tr = W.file("semantic/type_registry.rs")
    fn, u = fn_into_verus(ctx, tr, "TypeRegistry::resolve_grammar_type", ret="r", tags=U, decreases="type_", requires=["reg_wf(self)"],
                          ensures=[("r == spec_resolve_type(self, scope@, *type_)", ("C01", "C02", "C04", "C05", "C08", "C10", "C11", "C20"), "resolve-type")])
    for c in tr.method_calls(fn, "as_ref"):
        rules.box_as_ref(tr, c)
    for k, ctor in ((1, "ConstPointer"), (2, "MutPointer")):
        closure_annot(ctx, tr, u, closure_of_call(tr, fn, "map", k), params=["t: Type"], ret="o: Type", ensures=["o == Type::%s(Box::new(t))" % ctor], tags=("C11",))
    closure_annot(ctx, tr, u, closure_of_call(tr, fn, "map", 3), params=["t: Type"], ret="o: Type", ensures=["o == Type::Array(Box::new(t), *size)"], tags=("C11",))
    # ---- TypeRegistry::resolve_string (C11): partition / rfind / once-chain pipeline against the precedence list
    fn, u = fn_into_verus(ctx, tr, "TypeRegistry::resolve_string", ret="r", tags=("C11", "C19", "C10", "C12"),
                          ensures=[("r == spec_resolve_string(self, scope@, name@)", ("C11", "C19", "C10"), "resolve-string")])
    part = tr.method_calls(fn, "partition")
    finds = tr.method_calls(fn, "find")
    if len(part) != 1 or len(finds) != 2:
        raise rules.WeaveError("resolve_string: expected one partition and two find calls")
    rules.iter_partition(tr, part[0], "type_marks(self, scope@)")
    closure_annot(ctx, tr, u, closure_of_call(tr, fn, "partition"), params=["ip: &&ItemPath"], ret="b: bool",
                  ensures=["b == self.types@.contains_key(**ip)"], tags=("C11",))
    f_outer = [f for f in finds if any(c["kind"] == "method_call" and c["method"] == "rev" for c in tr.children.get(f["id"], []))]
    f_inner = [f for f in finds if f not in f_outer]
    if len(f_outer) != 1 or len(f_inner) != 1:
        raise rules.WeaveError("resolve_string: find calls have an unexpected shape")
    rules.into_iter_rev_find(tr, f_outer[0], "name_marks(scope_types@, name@)")
    cl_outer = [c for c in tr.closures(fn) if c["span"] == f_outer[0]["args"][0]["span"]][0]
    closure_annot(ctx, tr, u, cl_outer, params=["st: &&ItemPath"], ret="b: bool", ensures=["b == last_seg_is(**st, name@)"], tags=("C11",))
    maps = tr.method_calls(fn, "map")
    m_asstr = [m for m in maps if "as_str" in tr.text(m["args"][0]["span"])]
    m_raw_clone = [m for m in maps if "clone" in tr.text(m["args"][0]["span"]) and m["args"][0]["is_closure"]]
    m_eta = [m for m in maps if m["args"][0]["is_path"]]
    if not (len(m_asstr) == len(m_raw_clone) == len(m_eta) == 1):
        raise rules.WeaveError("resolve_string: map calls have an unexpected shape")
    closure_annot(ctx, tr, u, [c for c in tr.closures(fn) if c["span"] == m_asstr[0]["args"][0]["span"]][0],
                  params=["i: &crate::grammar::ItemPathSegment"], ret="s: &str", ensures=["s@ == i.0@"], tags=("C11",))
    closure_annot(ctx, tr, u, [c for c in tr.closures(fn) if c["span"] == m_raw_clone[0]["args"][0]["span"]][0],
                  params=["ip: &ItemPath"], ret="t: Type", ensures=["t == Type::Raw(*ip)"], tags=("C11",))
    US = "({ let e = spec_empty_path(); joined(seq![&e] + scope_modules@, name@) })"
    PS = "({ let e = spec_empty_path(); key_marks(self, joined(seq![&e] + scope_modules@, name@)) })"
    rules.once_chain_map_find(tr, f_inner[0], US, PS)
    mp_join = [m for m in maps if "join" in tr.text(m["args"][0]["span"])][0]
    closure_annot(ctx, tr, u, [c for c in tr.closures(fn) if c["span"] == mp_join["args"][0]["span"]][0],
                  params=["ip: &ItemPath"], ret="p: ItemPath", ensures=["p == spec_join(*ip, name@)"], tags=("C11",))
    closure_annot(ctx, tr, u, [c for c in tr.closures(fn) if c["span"] == f_inner[0]["args"][0]["span"]][0],
                  params=["ip: &ItemPath"], ret="b: bool", ensures=["b == self.types@.contains_key(*ip)"], tags=("C11",))
    eta = [n for n in tr.in_fn(fn, ("path",)) if n["span"] == m_eta[0]["args"][0]["span"]][0]
    rules.eta_ctor(tr, eta, "p__", "ItemPath", "Type::Raw(p__)", "t: Type", "t == Type::Raw(p__)")
    oe = closure_of_call(tr, fn, "or_else")
    closure_annot(ctx, tr, u, oe, ret="o: Option<Type>", ensures=["""o == ({
                let e = spec_empty_path(); let us = joined(seq![&e] + scope_modules@, name@);
                match first_true(key_marks(self, us), us.len() as int) { Some(j) => Some(Type::Raw(us[j])), None => None::<Type> } })"""], tags=("C11",))
    ghost(ctx, tr, u, after(tr, tr.top_let(fn, "scope_types")), "proof { lemma_resolve_op_is_decl(self, scope@, name@); }")

    fn_into_verus(ctx, tr, "TypeRegistry::padding_type", ret="r", tags=("C01", "C02", "C12"), requires=["reg_wf(self)"],
                  ensures=[("r == pad_type(bytes as nat)", ("C01",), "padding-type")])
