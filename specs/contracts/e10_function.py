"""function::build, CallingConvention::{from_str, as_str} (C05 C16 C17 C10 C12)."""
import rules
from rules import fn_into_verus, ghost, closure_annot, after, before, body_start, body_end, fn_end, closure_of_call

U = ("C04", "C05", "C10", "C12", "C16", "C17")


def apply(ctx, W):
    fw = W.file("semantic/function.rs")
    rules.plumbing_once(fw)
    # ---- CallingConvention
    fn_into_verus(ctx, fw, "CallingConvention::as_str", ret="r", tags=("C16", "C12"), ensures=[("r@ == spec_cc_as_str(*self)", ("C16",))])
    fs = fw.fn("<FromStr for CallingConvention>::from_str")
    rules.outline_tail_expr(ctx, fw, fs, "cc_from_str__v", "s: &str", "s", "Result<CallingConvention, ()>", tags=("C16", "C12"),
                            ensures=[("match spec_cc_from_str(s@) { Some(c) => res == Ok::<CallingConvention, ()>(c), None => res is Err }", ("C16",))])
    fn_into_verus(ctx, fw, "Argument::is_self", ret="r", tags=("C16", "C07"), ensures=["r == arg_is_self(*self)"])
    fn_into_verus(ctx, fw, "Function::is_public", ret="r", tags=("C07", "C17"), ensures=["r == (self.visibility == Visibility::Public)"])
    rules.from_impl_into_verus(ctx, W.file("semantic/types.rs"), "grammar::Visibility", "Visibility", "crate::verif_specs::vis_of(v)", tags=("C17",))

    # small helpers that new code in verified functions may call: under contract so that such code stays decidable
    fn_into_verus(ctx, fw, "FunctionBody::is_field", ret="r", tags=("C07",), ensures=["r == (*self is Field)"])
    fn_into_verus(ctx, fw, "Function::is_internal", mode="T", ret="r", tags=("C04", "C06", "C07"),
                  ensures=["r == spec_name_is_internal(self.name@)"])
    # ---- function::build
    b = fw.fn("build")
    # the doc line builds an ItemPath through FromIterator/Into, only used in an error message: that one expression goes
    # through a trusted wrapper (R-std), the statement itself is verified against Attributes::doc's contract
    doc_let = fw.top_let(b, "doc")
    import re as _re
    t_doc = fw.text(doc_let["init_span"])
    m_doc = _re.search(r"ItemPath::from_iter\(\[\s*([\w.]+\.clone\(\))\.into\(\)\s*\]\)", t_doc)
    if not m_doc:
        raise rules.WeaveError("function::build: the doc path is no longer ItemPath::from_iter([<name>.clone().into()])")
    a0 = doc_let["init_span"][0]
    fw.replace(a0 + m_doc.start(), a0 + m_doc.end(), "crate::verif_prelude::v_item_path_single(%s)" % m_doc.group(1), "W9-R-std-path-single")
    fn, u = fn_into_verus(ctx, fw, "build", ret="res", tags=U, unit="semantic::function::build", requires=["reg_wf(type_registry)"], ensures=[
        ("res is Ok ==> fn_built(type_registry, scope@, is_vfunc, *function, res->Ok_0)", ("C04", "C05", "C10", "C16", "C17"), "fn-built"),
        ("res is Ok ==> forall|k: int| 1 <= k < function.arguments@.len() ==> !((#[trigger] function.arguments@[k]) is ConstSelf || function.arguments@[k] is MutSelf)", ("C05", "C16"), "receiver-first"),
    ])
    # the receiver-position check (F24): `for (index, argument) in function.arguments.iter().enumerate()`
    l_rcv = rules.loop_by_header(fw, fn, "function.arguments.iter().enumerate()")
    rules.for_to_index_loop(ctx, fw, u, l_rcv, seq="function.arguments", ivar="i_r")
    rules.index_loop_spec(ctx, fw, u, l_rcv, tags=("C05", "C16"), invariants=[
        ("forall|k: int| 1 <= k < i_r ==> !((#[trigger] function.arguments@[k]) is ConstSelf || function.arguments@[k] is MutSelf)", ("C05", "C16")),
    ])
    closure_annot(ctx, fw, u, closure_of_call(fw, fn, "then"), ret="b: FunctionBody",
                  ensures=["b == (FunctionBody::Vftable { function_name: function.name.0 })"], tags=("C04", "C05"))
    l1 = fw.loop(fn, 1)
    rules.for_to_index_loop(ctx, fw, u, l1, seq="function.attributes.0", ivar="i_a")
    rules.index_loop_spec(ctx, fw, u, l1, tags=("C05", "C16"), invariants=[
        ("""!is_vfunc ==> !has_fn(function.attributes.0@, "index"@, i_a as int)""", ("C05",)),
        ("""match attr_int(function.attributes.0@, "address"@, i_a as int) {
                Some(a) => !is_vfunc && a >= 0 && body == Some(FunctionBody::Address { address: a as usize }),
                None => body == (if is_vfunc { Some(FunctionBody::Vftable { function_name: function.name.0 }) } else { None::<FunctionBody> }),
            }""", ("C05", "C04")),
        ("""match attr_str(function.attributes.0@, "calling_convention"@, i_a as int) {
                Some(s) => calling_convention is Some && Some(calling_convention->0) == spec_cc_from_str(s@),
                None => calling_convention is None,
            }""", ("C16",)),
    ])
    ghost(ctx, fw, u, body_start(l1), 'proof { reveal_strlit("address"); reveal_strlit("index"); reveal_strlit("calling_convention"); }')
    rules.slice1_all(fw, fn)
    rules.str_parse(fw, fw.method_calls(fn, "parse")[0], "cc_from_str__v")
    closure_annot(ctx, fw, u, closure_of_call(fw, fn, "map_err"), params=["_e: ()"])
    # arguments
    coll = [m for m in fw.method_calls(fn, "collect")]
    mp = rules.map_collect_result(fw, fn, coll[0])
    closure_annot(ctx, fw, u, closure_of_call(fw, fn, "map", 1), params=["a: &grammar::Argument"], ret="o: anyhow::Result<Argument>", requires=["reg_wf(type_registry)"],
                  ensures=["o is Ok ==> arg_built(type_registry, scope@, *a, o->Ok_0)"], tags=("C05", "C10"))
    # return type
    closure_annot(ctx, fw, u, closure_of_call(fw, fn, "map", 2), params=["t: &grammar::Type"], ret="o: anyhow::Result<Type>", requires=["reg_wf(type_registry)"],
                  ensures=["o is Ok ==> Some(o->Ok_0) == spec_resolve_type(type_registry, scope@, *t)"], tags=("C05", "C10"))
    # calling convention default
    closure_annot(ctx, fw, u, closure_of_call(fw, fn, "unwrap_or_else"), ret="c: CallingConvention",
                  ensures=["c == default_cc(has_self(arguments@))"], tags=("C16",))
    rules.iter_any(fw, fn, fw.method_calls(fn, "any")[0])
    closure_annot(ctx, fw, u, closure_of_call(fw, fn, "any"), params=["a: &Argument"], ret="b: bool", ensures=["b == arg_is_self(*a)"], tags=("C16",))
