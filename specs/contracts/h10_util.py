"""util::gcd (verified: divides both arguments, non-zero unless both are zero) and the fold step of util::lcm
(outlined closure body, verified: at least both operands) (C03 C12).  `util::lcm` itself is the one-liner
`iter.try_fold(1usize, <step>)`; the verified text reaches the step through `v_lcm_flat_map` (W9), after checking
textually that the one-liner still has that shape."""
import rules
from rules import fn_into_verus, loop_spec, ghost


def apply(ctx, W):
    fw = W.file("util.rs")
    fn, u = fn_into_verus(ctx, fw, "gcd", ret="r", tags=("C12", "C03"), ensures=[
        ("(a != 0 || b != 0) ==> r != 0", ("C12",), "gcd-nonzero"),
        ("r != 0 ==> divides(r as nat, a as nat) && divides(r as nat, b as nat)", ("C03",), "gcd-divides"),
        ("r == spec_gcd(a as nat, b as nat)", ("C03",), "gcd-is-euclid"),
    ])
    lp = fw.loop(fn, 1)
    ghost(ctx, fw, u, rules.before(fw, lp), "let ghost a0 = a; let ghost b0 = b;")
    loop_spec(ctx, fw, u, lp, tags=("C12",), invariants=[
        "(a0 != 0 || b0 != 0) ==> (a != 0 || b != 0)",
        "forall|d: nat| d > 0 ==> (#[trigger] common_divisor(d, a as nat, b as nat) <==> common_divisor(d, a0 as nat, b0 as nat))",
        "spec_gcd(a as nat, b as nat) == spec_gcd(a0 as nat, b0 as nat)",
    ], decreases="b")
    ghost(ctx, fw, u, rules.body_start(lp), """proof {
            assert forall|d: nat| d > 0 implies (#[trigger] common_divisor(d, b as nat, (a % b) as nat) <==> common_divisor(d, a0 as nat, b0 as nat)) by {
                lemma_euclid_step(a as nat, b as nat, d);
            }
        }""")
    ghost(ctx, fw, u, rules.after(fw, lp), """proof {
        if a != 0 {
            assert(common_divisor(a as nat, a as nat, b as nat)) by { assert(a % a == 0) by (nonlinear_arith) requires a != 0; }
            assert(common_divisor(a as nat, a0 as nat, b0 as nat));
        }
    }""")
    l = fw.fn("lcm")
    tf = fw.method_calls(l, "try_fold")
    if len(fw.top_stmts(l)) != 1 or len(tf) != 1 or " ".join(fw.text(tf[0]["receiver_span"]).split()) != "iter" \
            or " ".join(fw.text(tf[0]["args"][0]["span"]).split()) != "1usize" or len(tf[0]["args"]) != 2 or not tf[0]["args"][1]["is_closure"]:
        raise rules.WeaveError("util::lcm is no longer `iter.try_fold(1usize, |acc, x| ..)`")
    c = rules.closure_of_call(fw, l, "try_fold")
    rules.outline_closure_body(ctx, fw, c, "lcm_step__v", "acc: usize, x: usize", "acc, x", "Option<usize>", tags=("C12", "C03"), vis="pub(crate) ", ensures=[
        ("(acc == 0 || x == 0) ==> res == Some(0usize)", ("C03",), "lcm-step-zero"),
        ("res == spec_lcm_step(acc, x)", ("C03",), "lcm-step-spec"),
        ("acc != 0 && x != 0 && res is Some ==> res->0 >= acc && res->0 >= x", ("C03",), "lcm-step-bounds"),
        ("acc != 0 && x != 0 && res is Some ==> res->0 % acc == 0 && res->0 % x == 0", ("C03",), "lcm-step-common-multiple"),
    ])
    # hints inside the step: the gcd divides both operands
    ifs = fw.in_fn(l, ("if",))
    if len(ifs) != 1 or ifs[0]["else_span"] is None:
        raise rules.WeaveError("util::lcm step is not an if/else")
    ghost(ctx, fw, "util::lcm_step__v", ifs[0]["else_span"][0] + 1, """proof {
                assert forall|g: nat| #[trigger] divides(g, acc as nat) && divides(g, x as nat) implies
                    (acc as nat / g) * (x as nat) >= acc && (acc as nat / g) * (x as nat) >= x by { lemma_lcm_step_bounds(acc as nat, x as nat, g); }
                assert forall|g: nat| #[trigger] divides(g, acc as nat) && divides(g, x as nat) implies
                    ((acc as nat / g) * (x as nat)) % (acc as nat) == 0 && ((acc as nat / g) * (x as nat)) % (x as nat) == 0 by { lemma_lcm_step_multiple(acc as nat, x as nat, g); }
            }""")
