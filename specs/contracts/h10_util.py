"""util::gcd (verified) and the fold step of util::lcm (outlined closure body, verified) (C12 C03)."""
import rules
from rules import fn_into_verus, loop_spec, ghost


def apply(ctx, W):
    fw = W.file("util.rs")
    fn, u = fn_into_verus(ctx, fw, "gcd", ret="r", tags=("C12", "C03"), ensures=[
        ("(a != 0 || b != 0) ==> r != 0", ("C12",), "gcd-nonzero"),
    ])
    lp = fw.loop(fn, 1)
    ghost(ctx, fw, u, rules.before(fw, lp), "let ghost a0 = a; let ghost b0 = b;")
    loop_spec(ctx, fw, u, lp, tags=("C12",), invariants=["(a0 != 0 || b0 != 0) ==> (a != 0 || b != 0)"], decreases="b")
    l = fw.fn("lcm")
    c = rules.closure_of_call(fw, l, "try_fold")
    rules.outline_closure_body(ctx, fw, c, "lcm_step__v", "acc: usize, x: usize", "acc, x", "Option<usize>", tags=("C12", "C03"), ensures=[
        ("(acc == 0 || x == 0) ==> res == Some(0usize)", ("C03",), "lcm-step-zero"),
    ])
