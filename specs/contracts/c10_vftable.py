"""vftable slot table: convert_grammar_functions_to_semantic_functions, make_padding_functions (C04 C12 C16 C17 C20)."""
import rules
from rules import fn_into_verus, loop_spec, ghost, closure_annot, after, before, body_start, body_end, fn_end

U = ("C04", "C12", "C16", "C17", "C20")
L = ("C04", "C20")


def apply(ctx, W):
    fw = W.file("semantic/type_definition/vftable.rs")
    conv = fw.fn("convert_grammar_functions_to_semantic_functions")
    top = conv["span"][0]

    # ---- make_padding_functions (nested fn, W4)
    rules.hoist_fn(ctx, fw, "convert_grammar_functions_to_semantic_functions/make_padding_functions", top)
    fn, u = fn_into_verus(ctx, fw, "convert_grammar_functions_to_semantic_functions/make_padding_functions", hoisted=True,
                          unit="semantic::type_definition::vftable::make_padding_functions", tags=U,
                          ensures=[("padded_to(old(output)@, final(output)@, target_len as nat)", ("C04", "C16", "C17", "C20"))])
    lp = fw.loop(fn, 1)
    rules.rename_wild_for(fw, lp, "_k")
    ghost(ctx, fw, u, before(fw, lp), "let ghost base = output@;")
    loop_spec(ctx, fw, u, lp, label="itp", tags=L, invariants=[
        "base == old(output)@",
        "functions_to_add == (if base.len() >= target_len { 0 } else { target_len - base.len() })",
        "output@.len() == base.len() + _k",
        "forall|i: int| 0 <= i < base.len() ==> output@[i] == base[i]",
        "forall|i: int| base.len() <= i < output@.len() ==> is_placeholder(#[trigger] output@[i], i as nat)",
    ])
    mac = [m for m in fw.in_fn(fn, ("macro",)) if m["path"] == "format"]
    if len(mac) != 1:
        raise rules.WeaveError("make_padding_functions: expected one format! call")
    rules.fmt_value(fw, mac[0], "v_format1_usize")
    ghost(ctx, fw, u, body_end(lp), """proof {
                let n = (output@.len() - 1) as int;
                let f = output@[n];
                assert(f.arguments@ == seq![Argument::MutSelf]);
                assert(is_placeholder(f, n as nat));
            }""")

    # ---- convert_grammar_functions_to_semantic_functions
    fn, u = fn_into_verus(ctx, fw, "convert_grammar_functions_to_semantic_functions", ret="res", tags=U,
        requires=["reg_wf(type_registry)"],
        ensures=[
            ("res is Ok ==> slots_total(functions@, size) == Some(res->Ok_0@.len() as nat)", L),
            ("res is Ok ==> slots_ok(type_registry, module_scope(module), functions@, functions@.len() as int, res->Ok_0@.take(slot_end(functions@, functions@.len() as int)->0 as int))", L),
            ("res is Ok ==> forall|s: int| slot_end(functions@, functions@.len() as int)->0 <= s < res->Ok_0@.len() ==> is_placeholder(#[trigger] res->Ok_0@[s], s as nat)", L),
        ])
    l1 = fw.loop(fn, 1)
    l2 = fw.loop(fn, 2)
    rules.for_to_index_loop(ctx, fw, u, l1, seq="functions", ivar="i_f")
    rules.index_loop_spec(ctx, fw, u, l1, tags=L, invariants=[
        "reg_wf(type_registry)",
        "slots_ok(type_registry, module_scope(module), functions@, i_f as int, output@)",
    ])
    rules.for_to_index_loop(ctx, fw, u, l2, seq="function.attributes.0", ivar="i_a")
    rules.index_loop_spec(ctx, fw, u, l2, tags=L, invariants=[
        "0 < i_f <= functions.len()",
        "*function == functions@[i_f - 1]",
        """match attr_int(function.attributes.0@, "index"@, i_a as int) { Some(v) => v >= 0 && index == Some(v as usize), None => index is None }""",
    ])
    rules.slice1_all(fw, fn)
    ghost(ctx, fw, u, body_start(l2), 'proof { reveal_strlit("index"); }')
    # trusted callees
