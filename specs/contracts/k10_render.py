"""backends/rust.rs: the type printer `fully_qualified_type_ref(_impl)` / `fully_qualified_pointee_impl` (C11 C16 C04).
The only part of the back end that is plain Rust over the semantic data types: it writes the text of a type reference
into a String, which `syn::parse_str` (outside the verified text) turns into tokens.  Verified against `type_text`
(vocab/render.rs).  R-fmt-write: `write!(out, LIT [, arg])` -> `v_write_lit` / `v_write1_*` (trusted wrappers that
call the same `write!` with the same literal; their spec is literal ++ uninterpreted display text)."""
import re
import rules
from rules import fn_into_verus, ghost, closure_annot, after, before, body_start, body_end, loop_by_header

U = ("C11", "C16", "C12")

ARG_HELPERS = {"path": "v_write1_path", "size": "v_write1_usize", "calling_convention": "v_write1_cc", "field": "v_write1_string"}


def write_macros(fw, fn):
    """R-fmt-write on every `write!` of `fn`; anything that is not write!(IDENT, LIT) / write!(IDENT, LIT-with-one-placeholder[, ARG]) fails"""
    n = 0
    for m in [m for m in fw.in_fn(fn, ("macro",)) if m["path"] == "write"]:
        t = fw.text(m["span"])
        mm = re.match(r'^write!\s*\(\s*(\w+)\s*,\s*(r#"(?:.*?)"#|"(?:[^"\\]|\\.)*")\s*(?:,\s*([^,()]+?)\s*)?,?\s*\)$', t, re.S)
        if not mm:
            raise rules.WeaveError("%s:%d R-fmt-write: unexpected shape `%s`" % (fw.rel, fw.line_of(m["span"][0]), t))
        out, lit, arg = mm.group(1), mm.group(2), mm.group(3)
        body = lit[3:-2] if lit.startswith("r#") else lit[1:-1]
        ph = re.findall(r"\{([A-Za-z_][A-Za-z_0-9]*)?\}", body.replace("{{", "").replace("}}", ""))
        if "{" in re.sub(r"\{([A-Za-z_][A-Za-z_0-9]*)?\}", "", body):
            raise rules.WeaveError("%s:%d R-fmt-write: format specification in `%s`" % (fw.rel, fw.line_of(m["span"][0]), lit))
        std_lit = '"' + body.replace('"', '\\"') + '"' if lit.startswith("r#") else lit
        if len(ph) == 0 and arg is None:
            new = "crate::verif_prelude::v_write_lit(%s, %s)" % (out, std_lit)
        elif len(ph) == 1 and ((ph[0] == "") != (arg is None)):
            a = arg if arg is not None else ph[0]
            if a not in ARG_HELPERS:
                raise rules.WeaveError("%s:%d R-fmt-write: no helper for argument `%s`" % (fw.rel, fw.line_of(m["span"][0]), a))
            new = "crate::verif_prelude::%s(%s, %s, %s)" % (ARG_HELPERS[a], out, std_lit, a)
        else:
            raise rules.WeaveError("%s:%d R-fmt-write: placeholders and arguments do not match in `%s`" % (fw.rel, fw.line_of(m["span"][0]), t))
        fw.replace(m["span"][0], m["span"][1], new, "W9-R-fmt-write")
        n += 1
    return n


def drop_use_write(fw, fn):
    """the `use std::fmt::Write;` inside the function body is only needed by `write!`; items nested in function bodies are
    outside Verus' subset"""
    s, e = fn["block_span"]
    mm = re.search(rb"use\s+std::fmt::Write\s*;", fw.src[s:e])
    if not mm:
        raise rules.WeaveError("%s: `%s` has no `use std::fmt::Write;`" % (fw.rel, fw.fn_qualname(fn)))
    fw.replace(s + mm.start(), s + mm.end(), "", "W9-R-fmt-write")


def apply(ctx, W):
    fw = W.file("backends/rust.rs")
    rules.plumbing(fw)
    fi, ui = fn_into_verus(ctx, fw, "fully_qualified_type_ref_impl", ret="r", tags=U, requires=["printable(*type_ref)"],
        ensures=[("r is Ok && final(out)@ == old(out)@ + type_text(*type_ref)", ("C11", "C16", "C04"), "type-text")],
        decreases="type_ref, 0int")
    if write_macros(fw, fi) < 10:
        raise rules.WeaveError("fully_qualified_type_ref_impl: fewer write! invocations than expected")
    drop_use_write(fw, fi)
    for c in fw.method_calls(fi, "as_ref"):
        rules.box_as_ref(fw, c)
    lp = loop_by_header(fw, fi, "args.iter()")
    ghost(ctx, fw, ui, before(fw, lp), "let ghost out_a = *out; let ghost t0 = *type_ref;")
    rules.for_to_index_loop(ctx, fw, ui, lp, seq="args", ivar="i_a")
    rules.index_loop_spec(ctx, fw, ui, lp, tags=("C11", "C16"), invariants=[
        "t0 == *type_ref && t0 is Function && t0->Function_1 == *args",
        "printable(t0)",
        ("out@ == out_a@ + args_text(t0, i_a as int)", ("C11", "C16", "C04")),
    ])
    ghost(ctx, fw, ui, body_start(lp), """proof { lemma_args_printable(t0, args@.len() as int, i_a - 1); assert(**type_ref == *(t0->Function_1@[i_a - 1]).1); }""")
    ghost(ctx, fw, ui, body_end(lp), """proof {
                    let a = t0->Function_1@[i_a - 1];
                    assert(args_text(t0, i_a as int) == args_text(t0, i_a - 1) + spec_fmt1("{field}: "@, a.0@) + type_text(*a.1) + ", "@);
                    assert(out@ =~= out_a@ + args_text(t0, i_a as int));
                }""")
    rules.bind_tail(ctx, fw, ui, fi, "r__", """proof {
        if type_ref is Raw {
            let p = type_ref->Raw_0;
            crate::verif_specs::axiom_spec_segment("void"@);
            if p.0@.len() == 1 { crate::verif_specs::axiom_segment_ext(p.0@[0], crate::verif_specs::spec_segment("void"@)); }
        }
        assert(out@ =~= old(out)@ + type_text(*type_ref));
    }""", tags=("C11", "C16"))
    fp, up = fn_into_verus(ctx, fw, "fully_qualified_pointee_impl", ret="r", tags=U, requires=["printable(*type_ref)"],
        ensures=[("r is Ok && final(out)@ == old(out)@ + (if is_void_type(*type_ref) { \"::std::ffi::c_void\"@ } else { type_text(*type_ref) })", ("C11",), "pointee-text")],
        decreases="type_ref, 1int")
    write_macros(fw, fp)
    drop_use_write(fw, fp)
    rules.bind_tail(ctx, fw, up, fp, "r__", """proof {
        if type_ref is Raw {
            let p = type_ref->Raw_0;
            crate::verif_specs::axiom_spec_segment("void"@);
            if p.0@.len() == 1 { crate::verif_specs::axiom_segment_ext(p.0@[0], crate::verif_specs::spec_segment("void"@)); }
        }
    }""", tags=("C11",))
    fn_into_verus(ctx, fw, "fully_qualified_type_ref", ret="r", tags=U, requires=["printable(*type_ref)"],
        ensures=[("r is Ok && r->Ok_0@ == type_text(*type_ref)", ("C11", "C16", "C04"), "type-ref-text")])
