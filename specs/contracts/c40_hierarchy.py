"""TypeDefinition::dfs_hierarchy (C07): the pre-order walk over direct and transitive `#[base]` regions that the back
end turns into AsRef / AsMut impls.  Verified against `dfs_regions` (vocab/hierarchy.rs); the recursion goes through
the registry, whose acyclicity is not known here, so termination is not claimed (`exec_allows_no_decreases_clause`)
and the specification is indexed by a recursion budget."""
import re
import rules
from rules import fn_into_verus, ghost, closure_annot, after, before, body_start, body_end, closure_of_call, loop_by_header

U = ("C07", "C12")


def apply(ctx, W):
    fw = W.file("semantic/type_definition/mod.rs")
    fn, u = fn_into_verus(ctx, fw, "TypeDefinition::dfs_hierarchy", ret="res", tags=U, attrs=["verifier::exec_allows_no_decreases_clause"],
        ensures=[
            ("""hierarchy_result(*self, type_registry, strs_view(fields@),
                    (match res { Ok(v) => Some(entries_view(v@)), Err(_) => None::<Seq<HEntry>> }))""", ("C07",), "hierarchy-pre-order"),
        ])
    lp = loop_by_header(fw, fn, "self.regions")
    # R-std: FIELDS.iter().copied().chain(Some(X)).collect::<Vec<_>>()  ->  v_copied_chain_some(FIELDS, X)   (verified helper)
    fp = fw.let(fn, "field_path")
    t = fw.text(fp["span"])
    m = re.match(r"^let\s+field_path\s*=\s*(\w+)\s*\.iter\(\)\s*\.copied\(\)\s*\.chain\(Some\((.+?)\)\)\s*\.collect::<Vec<_>>\(\);$", t, re.S)
    if not m:
        raise rules.WeaveError("dfs_hierarchy: `field_path` is not FIELDS.iter().copied().chain(Some(X)).collect::<Vec<_>>()")
    fw.replace(fp["span"][0], fp["span"][1], "let field_path = crate::verif_prelude::v_copied_chain_some(%s, %s);" % (m.group(1), " ".join(m.group(2).split())), "W9-R-std-copied-chain-some")
    # R-std: V.extend(E) with a Vec argument -> v_vec_extend(&mut V, E)   (verified helper over Vec::append)
    ex = fw.method_calls(fn, "extend")
    if len(ex) != 1:
        raise rules.WeaveError("dfs_hierarchy: expected one `.extend(..)`")
    st_ex = fw.stmt_of(ex[0])
    recv = fw.text(ex[0]["receiver_span"]).strip()
    if not re.match(r"^\w+$", recv) or len(ex[0]["args"]) != 1 or fw.text(st_ex["span"]).strip() != fw.text(ex[0]["span"]).strip() + ";":
        raise rules.WeaveError("dfs_hierarchy: `.extend(..)` has an unexpected shape")
    fw.replace(ex[0]["span"][0], ex[0]["args"][0]["span"][0], "crate::verif_prelude::v_vec_extend(&mut %s, " % recv, "W9-R-std-vec-extend")
    # R-std: FIELD_PATH.iter().map(|s| s.to_string()).collect()
    colls = [c for c in fw.method_calls(fn, "collect") if not (fp["span"][0] <= c["span"][0] < fp["span"][1])]
    if len(colls) != 1:
        raise rules.WeaveError("dfs_hierarchy: expected one map/collect of the field path")
    mp = rules.map_collect_result(fw, fn, colls[0], plain_vec=True)
    cl = [c for c in fw.closures(fn) if c["span"] == mp["args"][0]["span"]][0]
    # vstd has no spec for `<&str as ToString>::to_string`: the call goes through a trusted wrapper of that one expression
    bt = fw.text(cl["body_span"]).strip()
    mm = re.match(r"^(\w+)\.to_string\(\)$", bt)
    if not mm:
        raise rules.WeaveError("dfs_hierarchy: the field path is not mapped with `|s| s.to_string()`")
    fw.replace(cl["body_span"][0], cl["body_span"][1], "crate::verif_prelude::v_str_to_string(%s)" % mm.group(1), "W9-R-std-to-string")
    closure_annot(ctx, fw, u, cl, params=["s: &&str"], ret="o: String", ensures=["o@ == s@"], tags=("C07",))
    gr = fw.calls(fn, "get_region_name_and_type_definition")
    if len(gr) != 1:
        raise rules.WeaveError("dfs_hierarchy: expected one call of get_region_name_and_type_definition")
    ghost(ctx, fw, u, before(fw, gr[0]), """proof {
                if base_type_of(type_registry, *region) is None {
                    assert(dfs_regions(fuel_g, self.regions@, i_h as int, type_registry, fs) == Some(None::<Seq<HEntry>>));
                    lemma_dfs_err_stable(fuel_g, self.regions@, i_h as int, self.regions@.len() as int, type_registry, fs);
                }
            }""")

    ghost(ctx, fw, u, before(fw, lp), """let ghost mut fuel_g: nat = 0;
        let ghost fs = strs_view(fields@);
        proof { assert(entries_view(output@) =~= Seq::<HEntry>::empty()); }""")
    rules.for_to_index_loop(ctx, fw, u, lp, seq="self.regions", ivar="i_h")
    rules.index_loop_spec(ctx, fw, u, lp, tags=("C07",), invariants=[
        "fs == strs_view(fields@)",
        ("dfs_regions(fuel_g, self.regions@, i_h as int, type_registry, fs) == Some(Some(entries_view(output@)))", ("C07",)),
    ])
    push = fw.method_calls(fn, "push")
    if len(push) != 1:
        raise rules.WeaveError("dfs_hierarchy: expected one `output.push(..)`")
    ghost(ctx, fw, u, before(fw, push[0]), """let ghost out0 = output@;
            let ghost fp = fs.push(field_name@);
            proof { assert(strs_view(field_path@) =~= fp); }""")
    ghost(ctx, fw, u, after(fw, push[0]), """let ghost out1 = output@;
            proof {
                let e = out1[out1.len() - 1];
                assert(strings_view(e.0@) =~= fp);
                assert(entries_view(out1) =~= entries_view(out0).push((fp, region.type_ref)));
                let n_sub = type_definition.regions@.len() as int;
                // an error below is an error of the whole walk, whatever budget the callee needed
                assert forall|f_sub: nat| #![trigger dfs_regions(f_sub, type_definition.regions@, n_sub, type_registry, fp)]
                    dfs_regions(f_sub, type_definition.regions@, n_sub, type_registry, fp) == Some(None::<Seq<HEntry>>)
                    implies hierarchy_result(*self, type_registry, fs, None::<Seq<HEntry>>) by {
                    let nf: nat = if fuel_g > f_sub + 1 { fuel_g } else { f_sub + 1 };
                    lemma_dfs_mono(fuel_g, nf, self.regions@, i_h - 1, type_registry, fs);
                    lemma_dfs_mono(f_sub, (nf - 1) as nat, type_definition.regions@, n_sub, type_registry, fp);
                    assert(dfs_regions(nf, self.regions@, i_h as int, type_registry, fs) == Some(None::<Seq<HEntry>>));
                    lemma_dfs_err_stable(nf, self.regions@, i_h as int, self.regions@.len() as int, type_registry, fs);
                }
            }""")
    ghost(ctx, fw, u, after(fw, ex[0]), """proof {
                let n_sub = type_definition.regions@.len() as int;
                let (f_sub, sub) = choose|f: nat, s: Seq<(Vec<String>, Type)>| #![trigger dfs_regions(f, type_definition.regions@, n_sub, type_registry, fp), entries_view(s)]
                    dfs_regions(f, type_definition.regions@, n_sub, type_registry, fp) == Some(Some(entries_view(s))) && output@ == out1 + s;
                let nf: nat = if fuel_g > f_sub + 1 { fuel_g } else { f_sub + 1 };
                lemma_dfs_mono(fuel_g, nf, self.regions@, i_h - 1, type_registry, fs);
                lemma_dfs_mono(f_sub, (nf - 1) as nat, type_definition.regions@, n_sub, type_registry, fp);
                assert(entries_view(output@) =~= entries_view(out1) + entries_view(sub));
                fuel_g = nf;
            }""")
    ghost(ctx, fw, u, body_start(lp), "let ghost fuel0 = fuel_g;")
