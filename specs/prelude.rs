use vstd::prelude::*;
verus!{




pub assume_specification<'a, T: core::ops::Deref> [Option::<T>::as_deref] (o: &'a Option<T>) -> (r: Option<&'a T::Target>)
    ensures o is Some <==> r is Some;

pub assume_specification [<crate::grammar::ItemPath as core::fmt::Display>::fmt] (p: &crate::grammar::ItemPath, f: &mut core::fmt::Formatter<'_>) -> core::fmt::Result;

pub broadcast axiom fn axiom_fmt_itempath()
    ensures #[trigger] vstd::std_specs::fmt::fmt_req_all::<crate::grammar::ItemPath>();
pub broadcast axiom fn axiom_key_itempath()
    ensures #[trigger] vstd::std_specs::hash::obeys_key_model::<crate::grammar::ItemPath>();


pub broadcast group group_pyxis_axioms {
    axiom_fmt_itempath,
    axiom_key_itempath,
}

pub assume_specification [<crate::semantic::types::Type as Clone>::clone] (t: &crate::semantic::types::Type) -> (r: crate::semantic::types::Type)
    ensures r == *t;

pub fn slice_single<T>(s: &[T]) -> (r: Option<&T>)
    ensures s@.len() == 1 ==> r == Some(&s@[0]), s@.len() != 1 ==> r is None
{ if s.len() == 1 { Some(&s[0]) } else { None } }


pub assume_specification<T> [Option::<T>::or] (a: Option<T>, b: Option<T>) -> (r: Option<T>)
    ensures r == (if a is Some { a } else { b });
pub assume_specification<T> [Option::<Option<T>>::flatten] (a: Option<Option<T>>) -> (r: Option<T>)
    ensures r == (match a { Some(x) => x, None => None });

#[verifier::external_body]
pub fn v_partition<'a, T, F: Fn(&&'a T) -> bool>(s: &'a [T], f: F) -> (r: (Vec<&'a T>, Vec<&'a T>))
    requires forall|x: &&'a T| f.requires((x,)),
{
    s.iter().partition(f)
}
#[verifier::external_body]
pub fn v_once_chain<'a, T>(first: &'a T, rest: &Vec<&'a T>) -> (r: Vec<&'a T>)
    ensures r@ == seq![first] + rest@
{
    std::iter::once(first).chain(rest.iter().copied()).collect()
}
}
