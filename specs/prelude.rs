use vstd::prelude::*;
verus!{




pub assume_specification<'a, T: core::ops::Deref> [Option::<T>::as_deref] (o: &'a Option<T>) -> (r: Option<&'a T::Target>)
    ensures o is Some <==> r is Some;

pub assume_specification [<crate::grammar::ItemPath as core::fmt::Display>::fmt] (p: &crate::grammar::ItemPath, f: &mut core::fmt::Formatter<'_>) -> core::fmt::Result;

/// formatting a value (Display/Debug inside format!/bail!/anyhow!) has no precondition; message texts are not specified
pub broadcast axiom fn axiom_fmt_itempath<T>()
    ensures #[trigger] vstd::std_specs::fmt::fmt_req_all::<T>();
pub broadcast axiom fn axiom_key_itempath()
    ensures #[trigger] vstd::std_specs::hash::obeys_key_model::<crate::grammar::ItemPath>();


/// a `str` value is determined by its characters (needed because Verus encodes a string-literal *pattern*
/// as equality of `str` values, while `==` on `&str` is specified over the character sequences)
pub broadcast axiom fn axiom_str_ext(a: &str, b: &str)
    ensures #[trigger] a@ == #[trigger] b@ ==> a == b;

pub broadcast group group_pyxis_axioms {
    axiom_str_ext,
    axiom_fmt_itempath,
    axiom_key_itempath,
}

pub assume_specification [<crate::semantic::types::Type as Clone>::clone] (t: &crate::semantic::types::Type) -> (r: crate::semantic::types::Type)
    ensures r == *t;

pub fn slice_single<T>(s: &[T]) -> (r: Option<&T>)
    ensures s@.len() == 1 ==> r == Some(&s@[0]), s@.len() != 1 ==> r is None
{ if s.len() == 1 { Some(&s[0]) } else { None } }


pub assume_specification<T> [Option::<T>::or] (a: Option<T>, b: Option<T>) -> (r: Option<T>)
    ensures r == (if a is Some { a } else { b });
pub assume_specification<T> [Option::<Option<T>>::flatten] (a: Option<Option<T>>) -> (r: Option<T>)
    ensures r == (match a { Some(x) => x, None => None });

#[verifier::external_body]
pub fn v_partition<'a, T, F: Fn(&&'a T) -> bool>(s: &'a [T], f: F) -> (r: (Vec<&'a T>, Vec<&'a T>))
    requires forall|x: &&'a T| f.requires((x,)),
{
    s.iter().partition(f)
}
#[verifier::external_body]
pub fn v_once_chain<'a, T>(first: &'a T, rest: &Vec<&'a T>) -> (r: Vec<&'a T>)
    ensures r@ == seq![first] + rest@
{
    std::iter::once(first).chain(rest.iter().copied()).collect()
}

// ---------- R-fmt helpers: format!(LIT, args) whose value matters ----------
#[verifier::external_body]
pub fn v_format1_usize(lit: &str, a: usize) -> (r: String)
    ensures r@ == crate::verif_specs::spec_fmt1(lit@, crate::verif_specs::spec_display_usize(a))
{
    // the std formatter: `format!(lit, a)` for the literals used at the rewritten sites
    match lit {
        "_vfunc_{}" => format!("_vfunc_{}", a),
        "_field_{size:x}" => format!("_field_{a:x}"),
        _ => unreachable!("R-fmt applied to an unknown literal"),
    }
}
}
