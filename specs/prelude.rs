use vstd::prelude::*;
verus!{




pub assume_specification<'a, T: core::ops::Deref> [Option::<T>::as_deref] (o: &'a Option<T>) -> (r: Option<&'a T::Target>)
    ensures o is Some <==> r is Some;

pub assume_specification [<crate::grammar::ItemPath as core::fmt::Display>::fmt] (p: &crate::grammar::ItemPath, f: &mut core::fmt::Formatter<'_>) -> core::fmt::Result;

/// formatting a value (Display/Debug inside format!/bail!/anyhow!) has no precondition; message texts are not specified
pub broadcast axiom fn axiom_fmt_itempath<T>()
    ensures #[trigger] vstd::std_specs::fmt::fmt_req_all::<T>();
pub broadcast axiom fn axiom_key_itempath()
    ensures #[trigger] vstd::std_specs::hash::obeys_key_model::<crate::grammar::ItemPath>();


/// a `str` value is determined by its characters (needed because Verus encodes a string-literal *pattern*
/// as equality of `str` values, while `==` on `&str` is specified over the character sequences)
pub broadcast axiom fn axiom_str_ext(a: &str, b: &str)
    ensures #[trigger] a@ == #[trigger] b@ ==> a == b;

/// `String` hashing and equality agree and compare contents (std contract of `impl Hash/Eq for String`)
pub broadcast axiom fn axiom_key_string()
    ensures #[trigger] vstd::std_specs::hash::obeys_key_model::<String>();
pub broadcast axiom fn axiom_string_ext(a: String, b: String)
    ensures #[trigger] a@ == #[trigger] b@ ==> a == b;

pub broadcast group group_pyxis_axioms {
    axiom_str_ext,
    axiom_key_string,
    axiom_fmt_itempath,
    axiom_key_itempath,
}

pub assume_specification [<crate::semantic::types::Type as Clone>::clone] (t: &crate::semantic::types::Type) -> (r: crate::semantic::types::Type)
    ensures r == *t;

pub fn slice_single<T>(s: &[T]) -> (r: Option<&T>)
    ensures s@.len() == 1 ==> r == Some(&s@[0]), s@.len() != 1 ==> r is None
{ if s.len() == 1 { Some(&s[0]) } else { None } }


pub assume_specification<T> [Option::<T>::or] (a: Option<T>, b: Option<T>) -> (r: Option<T>)
    ensures r == (if a is Some { a } else { b });
/// std contract of `HashMap::get_mut`: the entry the borrowed key denotes may change, every other entry and the key
/// set are kept.  "j is the key `k` denotes" is expressed with vstd's borrowed-key predicate on the map restricted to j.
pub assume_specification<'a, K: Eq + core::hash::Hash + core::borrow::Borrow<Q>, V, S: core::hash::BuildHasher, A: core::alloc::Allocator, Q: ?Sized + core::hash::Hash + Eq>
    [std::collections::HashMap::<K, V, S, A>::get_mut::<Q>] (m: &'a mut std::collections::HashMap<K, V, S, A>, k: &Q) -> (r: Option<&'a mut V>)
    ensures
        vstd::std_specs::hash::obeys_key_model::<K>() && vstd::std_specs::hash::builds_valid_hashers::<S>() ==> (match r {
            Some(v) => vstd::std_specs::hash::contains_borrowed_key(old(m)@, k) && vstd::std_specs::hash::maps_borrowed_key_to_value(old(m)@, k, *v)
                && vstd::std_specs::hash::contains_borrowed_key(final(m)@, k) && vstd::std_specs::hash::maps_borrowed_key_to_value(final(m)@, k, *final(v))
                && final(m)@.dom() == old(m)@.dom()
                && (forall|j: K| #![trigger final(m)@[j]] old(m)@.contains_key(j)
                        && !vstd::std_specs::hash::maps_borrowed_key_to_value(old(m)@.restrict(set![j]), k, old(m)@[j]) ==> final(m)@[j] == old(m)@[j]),
            None => !vstd::std_specs::hash::contains_borrowed_key(old(m)@, k) && *final(m) == *old(m),
        }),
;
/// std contracts of small `Option` / `bool` combinators that a refactor is likely to introduce (so that the woven text
/// of a function that starts using them stays inside the decidable subset instead of degrading its recipe, W11)
#[verifier::allow(undeclared_external_trait)]
pub assume_specification<T, F: FnOnce(T) -> bool + core::marker::Destruct> [Option::<T>::is_some_and] (o: Option<T>, f: F) -> (r: bool)
    requires o is Some ==> f.requires((o->0,)),
    ensures o is None ==> !r, o is Some ==> f.ensures((o->0,), r);
#[verifier::allow(undeclared_external_trait)]
pub assume_specification<T, F: FnOnce(T) -> bool + core::marker::Destruct> [Option::<T>::is_none_or] (o: Option<T>, f: F) -> (r: bool)
    requires o is Some ==> f.requires((o->0,)),
    ensures o is None ==> r, o is Some ==> f.ensures((o->0,), r);
#[verifier::allow(undeclared_external_trait)]
pub assume_specification<T, P: FnOnce(&T) -> bool + core::marker::Destruct> [Option::<T>::filter] (o: Option<T>, p: P) -> (r: Option<T>)
    requires o is Some ==> p.requires((&o->0,)),
    ensures o is None ==> r is None, o is Some ==> (p.ensures((&o->0,), true) && r == o) || (p.ensures((&o->0,), false) && r is None);
#[verifier::allow(undeclared_external_trait)]
pub assume_specification<T, U, F: FnOnce(T) -> U + core::marker::Destruct> [Option::<T>::map_or] (o: Option<T>, default: U, f: F) -> (r: U)
    requires o is Some ==> f.requires((o->0,)),
    ensures o is None ==> r == default, o is Some ==> f.ensures((o->0,), r);
pub assume_specification<T> [bool::then_some] (b: bool, t: T) -> (r: Option<T>)
    ensures r == (if b { Some(t) } else { None::<T> });
/// std contract of `Option::get_or_insert_with`: the slot keeps its value or receives `f()`, and the returned
/// reference is the slot's content (used by the pinned `Attributes::doc`; kept so that code using it stays decidable)
#[verifier::allow(undeclared_external_trait)]
pub assume_specification<T, F: FnOnce() -> T + core::marker::Destruct> [Option::<T>::get_or_insert_with] (o: &mut Option<T>, f: F) -> (r: &mut T)
    requires *old(o) is None ==> f.requires(()),
    ensures
        *old(o) is Some ==> *r == (*old(o))->0,
        *old(o) is None ==> f.ensures((), *r),
        *final(o) == Some(*final(r)),
;
pub assume_specification<T> [Option::<Option<T>>::flatten] (a: Option<Option<T>>) -> (r: Option<T>)
    ensures r == (match a { Some(x) => x, None => None });

/// R-std: `std::iter::once(a).chain(b.iter().cloned()).collect::<Vec<_>>()` for item paths (verified)
pub fn v_once_chain_cloned_paths(first: crate::grammar::ItemPath, rest: &[crate::grammar::ItemPath]) -> (r: Vec<crate::grammar::ItemPath>)
    ensures r@ == seq![first] + rest@,
{
    let mut out: Vec<crate::grammar::ItemPath> = Vec::new();
    out.push(first);
    let mut i: usize = 0;
    while i < rest.len()
        invariant i <= rest.len(), out@ == seq![first] + rest@.take(i as int),
        decreases rest.len() - i,
    {
        out.push(rest[i].clone());
        proof { assert(rest@.take(i as int + 1) == rest@.take(i as int).push(rest@[i as int])); }
        i += 1;
    }
    proof { assert(rest@.take(rest@.len() as int) == rest@); }
    out
}
/// R-std: `std::iter::once(a).chain(b.iter().cloned()).collect::<Vec<_>>()` (verified)
pub fn v_once_chain_cloned<T: Clone>(first: T, rest: &[T]) -> (r: Vec<T>)
    ensures r@.len() == rest@.len() + 1, r@[0] == first, forall|i: int| 0 <= i < rest@.len() ==> cloned(rest@[i], #[trigger] r@[i + 1]),
{
    let mut out: Vec<T> = Vec::new();
    out.push(first);
    let mut i: usize = 0;
    while i < rest.len()
        invariant i <= rest.len(), out@.len() == i + 1, out@[0] == first,
            forall|k: int| 0 <= k < i ==> cloned(rest@[k], #[trigger] out@[k + 1]),
        decreases rest.len() - i,
    {
        out.push(rest[i].clone());
        i += 1;
    }
    out
}
// ---------- R-fmt helpers: format!(LIT, args) whose value matters ----------
#[verifier::external_body]
pub fn v_format1_usize(lit: &str, a: usize) -> (r: String)
    ensures r@ == crate::verif_specs::spec_fmt1(lit@, crate::verif_specs::spec_display_usize(a))
{
    // the std formatter: `format!(lit, a)` for the literals used at the rewritten sites
    match lit {
        "_vfunc_{}" => format!("_vfunc_{}", a),
        "_field_{size:x}" => format!("_field_{a:x}"),
        _ => unreachable!("R-fmt applied to an unknown literal"),
    }
}

// ---------- R-fmt-write helpers: `write!(out, LIT, arg)` into a String whose *text* matters (the back end's type printer) ----------
/// `write!(out, LIT)` for a literal without placeholders: appends the literal; writing to a `String` cannot fail
#[verifier::external_body]
pub fn v_write_lit(out: &mut String, lit: &str) -> (r: Result<(), std::fmt::Error>)
    ensures r is Ok, final(out)@ == old(out)@ + lit@,
{
    use std::fmt::Write;
    match lit {
        "()" => write!(out, "()"),
        "crate::" => write!(out, "crate::"),
        "*const " => write!(out, "*const "),
        "*mut " => write!(out, "*mut "),
        "[" => write!(out, "["),
        ", " => write!(out, ", "),
        ")" => write!(out, ")"),
        " -> " => write!(out, " -> "),
        "::std::ffi::c_void" => write!(out, "::std::ffi::c_void"),
        _ => unreachable!("R-fmt-write applied to an unknown literal"),
    }
}
#[verifier::external_body]
pub fn v_write1_path(out: &mut String, lit: &str, a: &crate::grammar::ItemPath) -> (r: Result<(), std::fmt::Error>)
    ensures r is Ok, final(out)@ == old(out)@ + crate::verif_specs::spec_fmt1(lit@, crate::verif_specs::spec_display_path(*a)),
{
    use std::fmt::Write;
    match lit { "{}" => write!(out, "{}", a), _ => unreachable!("R-fmt-write applied to an unknown literal") }
}
#[verifier::external_body]
pub fn v_write1_usize(out: &mut String, lit: &str, a: &usize) -> (r: Result<(), std::fmt::Error>)
    ensures r is Ok, final(out)@ == old(out)@ + crate::verif_specs::spec_fmt1(lit@, crate::verif_specs::spec_display_usize(*a)),
{
    use std::fmt::Write;
    match lit { "; {}]" => write!(out, "; {}]", a), _ => unreachable!("R-fmt-write applied to an unknown literal") }
}
#[verifier::external_body]
pub fn v_write1_cc(out: &mut String, lit: &str, a: &crate::semantic::types::CallingConvention) -> (r: Result<(), std::fmt::Error>)
    ensures r is Ok, final(out)@ == old(out)@ + crate::verif_specs::spec_fmt1(lit@, crate::verif_specs::spec_cc_as_str(*a)),
{
    use std::fmt::Write;
    match lit { "unsafe extern \"{calling_convention}\" fn (" => write!(out, r#"unsafe extern "{a}" fn ("#), _ => unreachable!("R-fmt-write applied to an unknown literal") }
}
#[verifier::external_body]
pub fn v_write1_string(out: &mut String, lit: &str, a: &String) -> (r: Result<(), std::fmt::Error>)
    ensures r is Ok, final(out)@ == old(out)@ + crate::verif_specs::spec_fmt1(lit@, a@),
{
    use std::fmt::Write;
    match lit { "{field}: " => write!(out, "{a}: "), _ => unreachable!("R-fmt-write applied to an unknown literal") }
}

// ---------- R-std helpers (verified: plain loops with the std-documented meaning) ----------
/// `s.iter().map(f).collect::<Result<Vec<_>, _>>()`: applies f in order, stops at the first Err
pub fn v_try_map_collect<T, U, E, F: Fn(&T) -> Result<U, E>>(s: &[T], f: F) -> (r: Result<Vec<U>, E>)
    requires forall|i: int| 0 <= i < s@.len() ==> f.requires((&#[trigger] s@[i],)),
    ensures
        r is Ok ==> r->Ok_0@.len() == s@.len() && forall|i: int| 0 <= i < s@.len() ==> f.ensures((&s@[i],), Ok(#[trigger] r->Ok_0@[i])),
        r is Err ==> exists|i: int| 0 <= i < s@.len() && f.ensures((&#[trigger] s@[i],), Err(r->Err_0)),
{
    let mut out: Vec<U> = Vec::new();
    let mut i: usize = 0;
    while i < s.len()
        invariant i <= s.len(), out@.len() == i,
            forall|k: int| 0 <= k < s@.len() ==> f.requires((&#[trigger] s@[k],)),
            forall|k: int| 0 <= k < i ==> f.ensures((&s@[k],), Ok(#[trigger] out@[k])),
        decreases s.len() - i,
    {
        match f(&s[i]) {
            Ok(u) => { out.push(u); }
            Err(e) => { return Err(e); }
        }
        i += 1;
    }
    Ok(out)
}
/// `s.iter().map(f).collect::<Vec<_>>()`
pub fn v_map_collect<T, U, F: Fn(&T) -> U>(s: &[T], f: F) -> (r: Vec<U>)
    requires forall|i: int| 0 <= i < s@.len() ==> f.requires((&#[trigger] s@[i],)),
    ensures r@.len() == s@.len(), forall|i: int| 0 <= i < s@.len() ==> f.ensures((&s@[i],), #[trigger] r@[i]),
{
    let mut out: Vec<U> = Vec::new();
    let mut i: usize = 0;
    while i < s.len()
        invariant i <= s.len(), out@.len() == i,
            forall|k: int| 0 <= k < s@.len() ==> f.requires((&#[trigger] s@[k],)),
            forall|k: int| 0 <= k < i ==> f.ensures((&s@[k],), #[trigger] out@[k]),
        decreases s.len() - i,
    {
        let u = f(&s[i]);
        out.push(u);
        i += 1;
    }
    out
}
/// `a.iter().copied().chain(Some(x)).collect::<Vec<_>>()`: the elements of `a` followed by `x`
pub fn v_copied_chain_some<T: Copy>(a: &[T], x: T) -> (r: Vec<T>)
    ensures r@ == a@.push(x),
{
    let mut out: Vec<T> = Vec::new();
    let mut i: usize = 0;
    while i < a.len()
        invariant i <= a.len(), out@ == a@.take(i as int),
        decreases a.len() - i,
    {
        out.push(a[i]);
        proof { assert(a@.take(i as int + 1) =~= a@.take(i as int).push(a@[i as int])); }
        i += 1;
    }
    proof { assert(a@.take(a@.len() as int) =~= a@); }
    out.push(x);
    out
}
/// `s.to_string()` for `s: &&str` (`<&str as ToString>::to_string`, through `Display`): trusted wrapper of that expression
#[verifier::external_body]
pub fn v_str_to_string(s: &&str) -> (o: String)
    ensures o@ == s@,
{
    s.to_string()
}
/// `a.extend(b)` with a `Vec` argument: the elements of `b` are moved to the end of `a`, in order (what
/// `Vec::append` does; std's `impl Extend<T> for Vec<T>` has no spec in vstd, `append` has)
pub fn v_vec_extend<T>(a: &mut Vec<T>, b: Vec<T>)
    ensures final(a)@ == old(a)@ + b@,
{
    let mut b = b;
    a.append(&mut b);
}
/// `s.iter().any(f)`
pub fn v_any<T, F: Fn(&T) -> bool>(s: &[T], f: F) -> (r: bool)
    requires forall|i: int| 0 <= i < s@.len() ==> f.requires((&#[trigger] s@[i],)),
    ensures r ==> exists|i: int| 0 <= i < s@.len() && f.ensures((&#[trigger] s@[i],), true),
            !r ==> forall|i: int| 0 <= i < s@.len() ==> f.ensures((&#[trigger] s@[i],), false),
{
    let mut i: usize = 0;
    while i < s.len()
        invariant i <= s.len(),
            forall|k: int| 0 <= k < s@.len() ==> f.requires((&#[trigger] s@[k],)),
            forall|k: int| 0 <= k < i ==> f.ensures((&#[trigger] s@[k],), false),
        decreases s.len() - i,
    {
        if f(&s[i]) { return true; }
        i += 1;
    }
    false
}
pub assume_specification<T, E> [Option::<Result<T, E>>::transpose] (o: Option<Result<T, E>>) -> (r: Result<Option<T>, E>)
    ensures r == (match o { Some(Ok(x)) => Ok::<Option<T>, E>(Some(x)), Some(Err(e)) => Err::<Option<T>, E>(e), None => Ok::<Option<T>, E>(None) });

/// R-std: `util::lcm(s.iter().flat_map(f))` with `f: &T -> Option<usize>` (**verified**): `flat_map` over an
/// `Option`-valued closure visits the `Some` values in order, `util::lcm` is `iter.try_fold(1usize, step)` (shape
/// checked textually at weave time), and `step` is the real closure body outlined as `util::lcm_step__v`.
/// `vals` is a ghost description of what `f` returns per element.
pub fn v_lcm_flat_map<T, F: Fn(&T) -> Option<usize>>(s: &[T], f: F, Ghost(vals): Ghost<Seq<Option<usize>>>) -> (r: Option<usize>)
    requires
        vals.len() == s@.len(),
        forall|i: int| 0 <= i < s@.len() ==> f.requires((&#[trigger] s@[i],)),
        forall|i: int, o: Option<usize>| 0 <= i < s@.len() && #[trigger] f.ensures((&s@[i],), o) ==> o == vals[i],
    ensures
        r == crate::verif_specs::lcm_fold(vals, vals.len() as int),
        r is Some && r->0 != 0 ==> forall|i: int| 0 <= i < vals.len() && (#[trigger] vals[i]) is Some && vals[i]->0 != 0 ==> vals[i]->0 <= r->0,
        r is Some && r->0 == 0 ==> exists|i: int| 0 <= i < vals.len() && #[trigger] vals[i] == Some(0usize),
{
    let mut acc: usize = 1;
    let mut i: usize = 0;
    while i < s.len()
        invariant
            i <= s.len(), vals.len() == s@.len(),
            Some(acc) == crate::verif_specs::lcm_fold(vals, i as int),
            forall|k: int| 0 <= k < s@.len() ==> f.requires((&#[trigger] s@[k],)),
            forall|k: int, o: Option<usize>| 0 <= k < s@.len() && #[trigger] f.ensures((&s@[k],), o) ==> o == vals[k],
        decreases s.len() - i,
    {
        match f(&s[i]) {
            Some(x) => {
                match crate::util::lcm_step__v(acc, x) {
                    Some(n) => { acc = n; }
                    None => {
                        proof { crate::verif_specs::lemma_lcm_fold_none_stable(vals, i as int + 1, vals.len() as int); }
                        return None;
                    }
                }
            }
            None => {}
        }
        i += 1;
    }
    proof {
        if acc != 0 { crate::verif_specs::lemma_lcm_fold_ge(vals, vals.len() as int); }
        else { crate::verif_specs::lemma_lcm_fold_zero(vals, vals.len() as int); }
    }
    Some(acc)
}
pub assume_specification [usize::is_power_of_two] (n: usize) -> (r: bool)
    ensures r == crate::verif_specs::is_pow2(n as nat);

/// derived `PartialEq` of `Function` is structural (A5)
impl vstd::std_specs::cmp::PartialEqSpecImpl for crate::semantic::types::Function {
    open spec fn obeys_eq_spec() -> bool { true }
    open spec fn eq_spec(&self, other: &crate::semantic::types::Function) -> bool { *self == *other }
}

/// derived `PartialEq` of `ItemPathSegment` is structural (A5); with vocab/modules.rs `axiom_segment_ext` a segment is its text
impl vstd::std_specs::cmp::PartialEqSpecImpl for crate::grammar::ItemPathSegment {
    open spec fn obeys_eq_spec() -> bool { true }
    open spec fn eq_spec(&self, other: &crate::grammar::ItemPathSegment) -> bool { *self == *other }
}

/// derived `PartialEq` of `ItemDefinition` is structural (A5)
impl vstd::std_specs::cmp::PartialEqSpecImpl for crate::semantic::types::ItemDefinition {
    open spec fn obeys_eq_spec() -> bool { true }
    open spec fn eq_spec(&self, other: &crate::semantic::types::ItemDefinition) -> bool { *self == *other }
}

/// derived `PartialEq` of the field-less enum `ItemCategory` is structural (A5)
impl vstd::std_specs::cmp::PartialEqSpecImpl for crate::semantic::types::ItemCategory {
    open spec fn obeys_eq_spec() -> bool { true }
    open spec fn eq_spec(&self, other: &crate::semantic::types::ItemCategory) -> bool { *self == *other }
}

/// derived `Clone` impls are structural (A5)
pub assume_specification [<crate::grammar::ItemPath as Clone>::clone] (p: &crate::grammar::ItemPath) -> (r: crate::grammar::ItemPath)
    ensures r == *p;
pub assume_specification [<crate::semantic::types::Function as Clone>::clone] (p: &crate::semantic::types::Function) -> (r: crate::semantic::types::Function)
    ensures r == *p;
pub assume_specification [<crate::semantic::types::Region as Clone>::clone] (p: &crate::semantic::types::Region) -> (r: crate::semantic::types::Region)
    ensures r == *p;

/// index of the first `true` among the first k entries
pub open spec fn first_true(ps: Seq<bool>, k: int) -> Option<int>
    decreases k
{
    if k <= 0 { None } else { match first_true(ps, k - 1) { Some(i) => Some(i), None => if ps[k - 1] { Some(k - 1) } else { None } } }
}
/// R-std: `s.iter().map(f).find(g)` (verified: a plain loop returning the first mapped element that satisfies g).
/// `us` / `ps` are ghost descriptions of what f and g compute per element, checked against the closures'
/// own postconditions in `requires`.
pub fn v_map_find<'a, T, U, F: Fn(&'a T) -> &'a U, G: Fn(&&'a U) -> bool>(s: &'a [T], f: F, g: G, Ghost(us): Ghost<Seq<U>>, Ghost(ps): Ghost<Seq<bool>>) -> (r: Option<&'a U>)
    requires
        us.len() == s@.len(), ps.len() == s@.len(),
        forall|i: int| 0 <= i < s@.len() ==> f.requires((&#[trigger] s@[i],)),
        forall|i: int, o: &'a U| 0 <= i < s@.len() && #[trigger] f.ensures((&s@[i],), o) ==> *o == us[i],
        forall|u: &&'a U| #[trigger] g.requires((u,)),
        forall|i: int, u: &&'a U, b: bool| 0 <= i < s@.len() && **u == #[trigger] us[i] && #[trigger] g.ensures((u,), b) ==> b == ps[i],
    ensures
        match first_true(ps, ps.len() as int) { Some(i) => 0 <= i < ps.len() && r is Some && *r->0 == us[i], None => r is None },
{
    proof { lemma_first_true_bounds(ps, ps.len() as int); }
    let mut i: usize = 0;
    while i < s.len()
        invariant
            i <= s.len(), us.len() == s@.len(), ps.len() == s@.len(),
            first_true(ps, i as int) is None,
            forall|k: int| 0 <= k < s@.len() ==> f.requires((&#[trigger] s@[k],)),
            forall|k: int, o: &'a U| 0 <= k < s@.len() && #[trigger] f.ensures((&s@[k],), o) ==> *o == us[k],
            forall|u: &&'a U| #[trigger] g.requires((u,)),
            forall|k: int, u: &&'a U, b: bool| 0 <= k < s@.len() && **u == #[trigger] us[k] && #[trigger] g.ensures((u,), b) ==> b == ps[k],
        decreases s.len() - i,
    {
        let u = f(&s[i]);
        if g(&u) {
            proof { lemma_first_true_stable(ps, i as int + 1, ps.len() as int); }
            return Some(u);
        }
        i += 1;
    }
    None
}
pub proof fn lemma_first_true_bounds(ps: Seq<bool>, k: int)
    requires 0 <= k <= ps.len()
    ensures first_true(ps, k) is Some ==> 0 <= first_true(ps, k)->0 < k && ps[first_true(ps, k)->0]
    decreases k
{
    if k > 0 { lemma_first_true_bounds(ps, k - 1); }
}
pub proof fn lemma_first_true_stable(ps: Seq<bool>, k: int, n: int)
    requires 0 <= k <= n, first_true(ps, k) is Some
    ensures first_true(ps, n) == first_true(ps, k)
    decreases n - k
{
    if k < n { lemma_first_true_stable(ps, k, n - 1); }
}

/// R-std: `ItemPath::from(s)` (the `From<&str>` impl splits at `::`; its anonymous lifetimes cannot be named in an
/// assume_specification, so the call goes through this trusted wrapper whose body is the original call)
#[verifier::external_body]
pub fn v_item_path_from_str(value: &str) -> (r: crate::grammar::ItemPath)
    ensures r == crate::verif_specs::spec_path_from_str(value@)
{
    crate::grammar::ItemPath::from(value)
}
pub assume_specification [<crate::semantic::Module as Default>::default] () -> (r: crate::semantic::Module);
pub assume_specification [<crate::semantic::types::TypeDefinition as Default>::default] () -> (r: crate::semantic::types::TypeDefinition)
    ensures r.regions@.len() == 0, r.doc is None, r.associated_functions@.len() == 0, r.vftable is None, r.singleton is None,
            !r.copyable, !r.cloneable, !r.defaultable, !r.packed;

pub assume_specification [crate::semantic::types::TypeDefinition::with_copyable] (s: crate::semantic::types::TypeDefinition, copyable: bool) -> (r: crate::semantic::types::TypeDefinition)
    ensures r == (crate::semantic::types::TypeDefinition { copyable: copyable, ..s });
pub assume_specification [crate::semantic::types::TypeDefinition::with_cloneable] (s: crate::semantic::types::TypeDefinition, cloneable: bool) -> (r: crate::semantic::types::TypeDefinition)
    ensures r == (crate::semantic::types::TypeDefinition { cloneable: cloneable, ..s });
pub assume_specification [crate::semantic::types::TypeDefinition::with_defaultable] (s: crate::semantic::types::TypeDefinition, defaultable: bool) -> (r: crate::semantic::types::TypeDefinition)
    ensures r == (crate::semantic::types::TypeDefinition { defaultable: defaultable, ..s });

/// std contract of `<[T]>::to_vec`: a vector of clones, element by element
pub assume_specification<T: Clone> [<[T]>::to_vec] (s: &[T]) -> (r: Vec<T>)
    ensures r@.len() == s@.len(), forall|i: int| 0 <= i < s@.len() ==> cloned(s@[i], #[trigger] r@[i]);
pub assume_specification [<crate::grammar::ItemPathSegment as Clone>::clone] (p: &crate::grammar::ItemPathSegment) -> (r: crate::grammar::ItemPathSegment)
    ensures r == *p;
/// R-fmt helper for `format!(LIT, s)` with a string argument
#[verifier::external_body]
pub fn v_format1_str(lit: &str, a: &str) -> (r: String)
    ensures r@ == crate::verif_specs::spec_fmt1(lit@, a@)
{
    match lit {
        "{}Vftable" => format!("{}Vftable", a),
        _ => unreachable!("R-fmt applied to an unknown literal"),
    }
}
/// R-std: `s.iter().map(f).sum()` over usize (verified loop; the addition must not overflow, which is the
/// caller's obligation: std's `sum` panics on overflow in debug builds and wraps in release builds)
pub fn v_sum_map<T, F: Fn(&T) -> usize>(s: &[T], f: F, Ghost(vals): Ghost<Seq<usize>>) -> (r: usize)
    requires
        vals.len() == s@.len(),
        forall|i: int| 0 <= i < s@.len() ==> f.requires((&#[trigger] s@[i],)),
        forall|i: int, o: usize| 0 <= i < s@.len() && #[trigger] f.ensures((&s@[i],), o) ==> o == vals[i],
        crate::verif_specs::seq_sum(vals) <= usize::MAX,
    ensures r == crate::verif_specs::seq_sum(vals),
{
    let mut acc: usize = 0;
    let mut i: usize = 0;
    while i < s.len()
        invariant
            i <= s.len(), vals.len() == s@.len(),
            acc == crate::verif_specs::seq_sum(vals.take(i as int)),
            crate::verif_specs::seq_sum(vals) <= usize::MAX,
            forall|k: int| 0 <= k < s@.len() ==> f.requires((&#[trigger] s@[k],)),
            forall|k: int, o: usize| 0 <= k < s@.len() && #[trigger] f.ensures((&s@[k],), o) ==> o == vals[k],
        decreases s.len() - i,
    {
        let x = f(&s[i]);
        proof {
            assert(vals.take(i as int + 1).drop_last() == vals.take(i as int));
            lemma_seq_sum_prefix_le(vals, i as int + 1);
        }
        acc = acc + x;
        i += 1;
    }
    proof { assert(vals.take(s@.len() as int) == vals); }
    acc
}
pub proof fn lemma_seq_sum_prefix_le(s: Seq<usize>, k: int)
    requires 0 <= k <= s.len()
    ensures crate::verif_specs::seq_sum(s.take(k)) <= crate::verif_specs::seq_sum(s)
    decreases s.len() - k
{
    if k < s.len() {
        lemma_seq_sum_prefix_le(s, k + 1);
        assert(s.take(k + 1).drop_last() == s.take(k));
    } else {
        assert(s.take(k) == s);
    }
}

pub assume_specification [<crate::grammar::Module as Clone>::clone] (p: &crate::grammar::Module) -> (r: crate::grammar::Module)
    ensures r == *p;
pub assume_specification [<crate::grammar::FunctionBlock as Clone>::clone] (p: &crate::grammar::FunctionBlock) -> (r: crate::grammar::FunctionBlock)
    ensures r == *p;
pub assume_specification [<crate::grammar::ItemDefinition as Clone>::clone] (p: &crate::grammar::ItemDefinition) -> (r: crate::grammar::ItemDefinition)
    ensures r == *p;
pub assume_specification [<crate::grammar::Type as Clone>::clone] (p: &crate::grammar::Type) -> (r: crate::grammar::Type)
    ensures r == *p;

pub assume_specification [<crate::semantic::types::ItemState as Clone>::clone] (p: &crate::semantic::types::ItemState) -> (r: crate::semantic::types::ItemState)
    ensures r == *p;


// ---------- verified R-std helpers used by TypeRegistry::resolve_string ----------
pub open spec fn last_true(ps: Seq<bool>, k: int) -> Option<int>
    decreases k
{
    if k <= 0 { None } else if ps[k - 1] { Some(k - 1) } else { last_true(ps, k - 1) }
}
/// elements of s (as references) whose mark equals `want`, among the first k, in order
pub open spec fn sel<'a, T>(s: Seq<T>, ps: Seq<bool>, want: bool, k: int) -> Seq<&'a T>
    decreases k
{
    if k <= 0 { Seq::empty() } else if ps[k - 1] == want { sel(s, ps, want, k - 1).push(&s[k - 1]) } else { sel(s, ps, want, k - 1) }
}
pub fn v_partition<'a, T, F: Fn(&&'a T) -> bool>(s: &'a [T], f: F, Ghost(ps): Ghost<Seq<bool>>) -> (r: (Vec<&'a T>, Vec<&'a T>))
    requires
        ps.len() == s@.len(),
        forall|x: &&'a T| #[trigger] f.requires((x,)),
        forall|i: int, x: &&'a T, b: bool| 0 <= i < s@.len() && **x == #[trigger] s@[i] && #[trigger] f.ensures((x,), b) ==> b == ps[i],
    ensures
        r.0@ == sel(s@, ps, true, s@.len() as int),
        r.1@ == sel(s@, ps, false, s@.len() as int),
{
    let mut yes: Vec<&'a T> = Vec::new();
    let mut no: Vec<&'a T> = Vec::new();
    let mut i: usize = 0;
    while i < s.len()
        invariant
            i <= s.len(), ps.len() == s@.len(),
            yes@ == sel(s@, ps, true, i as int),
            no@ == sel(s@, ps, false, i as int),
            forall|x: &&'a T| #[trigger] f.requires((x,)),
            forall|k: int, x: &&'a T, b: bool| 0 <= k < s@.len() && **x == #[trigger] s@[k] && #[trigger] f.ensures((x,), b) ==> b == ps[k],
        decreases s.len() - i,
    {
        let x = &s[i];
        if f(&x) { yes.push(x); } else { no.push(x); }
        i += 1;
    }
    (yes, no)
}
pub fn v_rfind<T: Copy, G: Fn(&T) -> bool>(v: Vec<T>, g: G, Ghost(qs): Ghost<Seq<bool>>) -> (r: Option<T>)
    requires
        qs.len() == v@.len(),
        forall|x: &T| #[trigger] g.requires((x,)),
        forall|i: int, x: &T, b: bool| 0 <= i < v@.len() && *x == #[trigger] v@[i] && #[trigger] g.ensures((x,), b) ==> b == qs[i],
    ensures
        match last_true(qs, qs.len() as int) { Some(i) => 0 <= i < v@.len() && r == Some(v@[i]), None => r is None },
{
    let mut i: usize = v.len();
    while i > 0
        invariant
            i <= v.len(), qs.len() == v@.len(),
            last_true(qs, qs.len() as int) == last_true(qs, i as int),
            forall|x: &T| #[trigger] g.requires((x,)),
            forall|k: int, x: &T, b: bool| 0 <= k < v@.len() && *x == #[trigger] v@[k] && #[trigger] g.ensures((x,), b) ==> b == qs[k],
        decreases i,
    {
        i -= 1;
        let x = v[i];
        if g(&x) { return Some(x); }
    }
    None
}
pub fn v_once_chain<'a, T>(first: &'a T, rest: &Vec<&'a T>) -> (r: Vec<&'a T>)
    ensures r@ == seq![first] + rest@
{
    let mut out: Vec<&'a T> = Vec::new();
    out.push(first);
    let mut i: usize = 0;
    while i < rest.len()
        invariant i <= rest.len(), out@ == seq![first] + rest@.take(i as int),
        decreases rest.len() - i,
    {
        out.push(rest[i]);
        proof { assert(rest@.take(i as int + 1) == rest@.take(i as int).push(rest@[i as int])); }
        i += 1;
    }
    proof { assert(rest@.take(rest@.len() as int) == rest@); }
    out
}
pub fn v_map_find_owned<T: Copy, U, F: Fn(T) -> U, G: Fn(&U) -> bool>(s: &[T], f: F, g: G, Ghost(us): Ghost<Seq<U>>, Ghost(ps): Ghost<Seq<bool>>) -> (r: Option<U>)
    requires
        us.len() == s@.len(), ps.len() == s@.len(),
        forall|i: int| 0 <= i < s@.len() ==> f.requires((#[trigger] s@[i],)),
        forall|i: int, o: U| 0 <= i < s@.len() && #[trigger] f.ensures((s@[i],), o) ==> o == us[i],
        forall|u: &U| #[trigger] g.requires((u,)),
        forall|i: int, u: &U, b: bool| 0 <= i < s@.len() && *u == #[trigger] us[i] && #[trigger] g.ensures((u,), b) ==> b == ps[i],
    ensures
        match first_true(ps, ps.len() as int) { Some(i) => 0 <= i < ps.len() && r == Some(us[i]), None => r is None },
{
    let mut i: usize = 0;
    while i < s.len()
        invariant
            i <= s.len(), us.len() == s@.len(), ps.len() == s@.len(),
            first_true(ps, i as int) is None,
            forall|k: int| 0 <= k < s@.len() ==> f.requires((#[trigger] s@[k],)),
            forall|k: int, o: U| 0 <= k < s@.len() && #[trigger] f.ensures((s@[k],), o) ==> o == us[k],
            forall|u: &U| #[trigger] g.requires((u,)),
            forall|k: int, u: &U, b: bool| 0 <= k < s@.len() && *u == #[trigger] us[k] && #[trigger] g.ensures((u,), b) ==> b == ps[k],
        decreases s.len() - i,
    {
        let u = f(s[i]);
        if g(&u) {
            proof { lemma_first_true_stable(ps, i as int + 1, ps.len() as int); }
            return Some(u);
        }
        i += 1;
    }
    None
}

pub assume_specification<T, F: FnOnce() -> Option<T>> [Option::<T>::or_else] (a: Option<T>, f: F) -> (r: Option<T>)
    requires a is None ==> f.requires(()),
    ensures a is Some ==> r == a, a is None ==> f.ensures((), r);

/// R-fmt helper for `format!(LIT, a, b)` with two string arguments
#[verifier::external_body]
pub fn v_format2_str(lit: &str, a: &str, b: &str) -> (r: String)
    ensures r@ == crate::verif_specs::spec_fmt2(lit@, a@, b@)
{
    match lit {
        "{}_{}" => format!("{}_{}", a, b),
        _ => unreachable!("R-fmt applied to an unknown literal"),
    }
}
/// R-std: `ItemPath::from_iter([name.into()])` (FromIterator over an array; trusted wrapper whose body is the original
/// expression; the path is only used in the text of an error message)
#[verifier::external_body]
pub fn v_item_path_single(name: String) -> (r: crate::grammar::ItemPath)
{
    crate::grammar::ItemPath::from_iter([name.into()])
}
/// R-std: `x.strip_prefix(lit).unwrap_or(&x)` (trusted wrapper whose body is the original expression)
#[verifier::external_body]
pub fn v_strip_prefix_or_self<'a>(x: &'a String, lit: &str) -> (r: &'a str)
    ensures r@ == crate::verif_specs::spec_strip_prefix(x@, lit@)
{
    x.strip_prefix(lit).unwrap_or(x)
}
/// R-std: `FunctionBody::field(a, b)` takes `impl Into<String>` arguments (cannot be named in an assume_specification);
/// trusted wrapper whose body is the original call
#[verifier::external_body]
pub fn v_function_body_field(field: String, function_name: String) -> (r: crate::semantic::types::FunctionBody)
    ensures r == (crate::semantic::types::FunctionBody::Field { field: field, function_name: function_name })
{
    crate::semantic::types::FunctionBody::field(field, function_name)
}
}
pub mod strset {
use vstd::prelude::*;
verus!{
broadcast use super::group_pyxis_axioms;
/// R-std: `s.iter().map(f).collect::<HashSet<String>>()` (verified)
pub fn v_map_collect_string_set<T, F: Fn(&T) -> String>(s: &[T], f: F, Ghost(vals): Ghost<Seq<String>>) -> (r: std::collections::HashSet<String>)
    requires
        vals.len() == s@.len(),
        forall|i: int| 0 <= i < s@.len() ==> f.requires((&#[trigger] s@[i],)),
        forall|i: int, o: String| 0 <= i < s@.len() && #[trigger] f.ensures((&s@[i],), o) ==> o == vals[i],
    ensures r@ == vals.to_set(),
{
    let mut out: std::collections::HashSet<String> = std::collections::HashSet::new();
    let mut i: usize = 0;
    while i < s.len()
        invariant
            i <= s.len(), vals.len() == s@.len(),
            out@ == vals.take(i as int).to_set(),
            forall|k: int| 0 <= k < s@.len() ==> f.requires((&#[trigger] s@[k],)),
            forall|k: int, o: String| 0 <= k < s@.len() && #[trigger] f.ensures((&s@[k],), o) ==> o == vals[k],
        decreases s.len() - i,
    {
        let x = f(&s[i]);
        out.insert(x);
        proof {
            assert(vals.take(i as int + 1) == vals.take(i as int).push(vals[i as int]));
            assert(vals.take(i as int).push(vals[i as int]).to_set() =~= vals.take(i as int).to_set().insert(vals[i as int])) by {
                let a = vals.take(i as int); let v = vals[i as int];
                assert forall|x: String| a.push(v).to_set().contains(x) <==> a.to_set().insert(v).contains(x) by {
                    if a.push(v).contains(x) { let j = choose|j: int| 0 <= j < a.push(v).len() && a.push(v)[j] == x; if j < a.len() { assert(a[j] == x); } }
                    if a.contains(x) { let j = choose|j: int| 0 <= j < a.len() && a[j] == x; assert(a.push(v)[j] == x); }
                    if x == v { assert(a.push(v)[a.len() as int] == x); }
                }
            }
            assert(out@ =~= vals.take(i as int + 1).to_set());
        }
        i += 1;
    }
    proof { assert(vals.take(s@.len() as int) == vals); }
    out
}
}
}
#[allow(unused_imports)] pub use strset::v_map_collect_string_set;

/// its own module (see `filterkeys`): R-std helper for the HashMap entry API
pub mod entrypush {
use vstd::prelude::*;
verus!{
broadcast use super::axiom_key_string;
/// the map after `m.entry(k).or_default().push(v)`: key `k` is present, its vector is the old one (or the empty
/// default) with `v` appended, every other entry is untouched
pub open spec fn entry_pushed<V>(old_m: Map<String, Vec<V>>, new_m: Map<String, Vec<V>>, k: String, v: V) -> bool {
    &&& new_m.dom() == old_m.dom().insert(k)
    &&& new_m[k]@ == (if old_m.contains_key(k) { old_m[k]@.push(v) } else { seq![v] })
    &&& forall|j: String| #![trigger new_m[j]] old_m.contains_key(j) && j != k ==> new_m[j] == old_m[j]
}
/// R-std: `m.entry(k).or_default().push(v)` on a `HashMap<String, Vec<V>>` (**verified** against the std contracts
/// of `get_mut` / `insert` / `Vec::push`; the entry API itself is outside Verus' subset)
pub fn v_entry_push<V>(m: &mut std::collections::HashMap<String, Vec<V>>, k: String, v: V)
    ensures entry_pushed(old(m)@, final(m)@, k, v)
{
    broadcast use vstd::std_specs::hash::group_hash_axioms;
    let ghost m0 = m@;
    match m.get_mut(&k) {
        Some(vec) => {
            let ghost v0 = vec@;
            assert(m0.contains_key(k) && m0[k]@ == v0);
            vec.push(v);
        }
        None => {
            assert(!m0.contains_key(k));
            let mut nv = Vec::new();
            nv.push(v);
            m.insert(k, nv);
        }
    }
    assert(m@.dom() =~= m0.dom().insert(k));
}
}
}
#[allow(unused_imports)] pub use entrypush::{v_entry_push, entry_pushed};

/// its own module: only the hash-map axioms are in scope (the crate's broadcast groups made these proofs unstable)
pub mod filterkeys {
use vstd::prelude::*;
verus!{
broadcast use super::axiom_key_itempath;
/// R-std: `m.iter().filter(|(_, v)| P(v)).map(|(k, _)| k.clone()).collect::<Vec<_>>()` over the registry map
/// (**verified**, on vstd's iterator model of `HashMap::iter`): the keys whose value satisfies the predicate, each
/// exactly as often as the map holds it (once); the order is the map's iteration order and is not specified
pub fn v_filter_keys<F: Fn(&crate::semantic::types::ItemDefinition) -> bool>(m: &std::collections::HashMap<crate::grammar::ItemPath, crate::semantic::types::ItemDefinition>, f: F)
    -> (r: Vec<crate::grammar::ItemPath>)
    requires forall|d: crate::semantic::types::ItemDefinition| #[trigger] f.requires((&d,)),
    ensures
        forall|k: crate::grammar::ItemPath| #![trigger r@.contains(k)] r@.contains(k) ==> m@.contains_key(k) && f.ensures((&m@[k],), true),
        forall|k: crate::grammar::ItemPath| #![trigger r@.contains(k)] m@.contains_key(k) && !r@.contains(k) ==> f.ensures((&m@[k],), false),
{
    use vstd::std_specs::iter::IteratorSpec;
    broadcast use vstd::std_specs::hash::group_hash_axioms;
    let mut out: Vec<crate::grammar::ItemPath> = Vec::new();
    let it = m.iter();
    let ghost all = it.remaining();
    assert(forall|i: int| 0 <= i < all.len() ==> m@.contains_key(*(#[trigger] all[i]).0) && m@[*all[i].0] == *all[i].1);
    assert(forall|k: crate::grammar::ItemPath| m@.contains_key(k) ==> exists|i: int| 0 <= i < all.len() && *(#[trigger] all[i]).0 == k);
    for kv in iter: it
        invariant
            iter.snapshot@.remaining() == all,
            iter.history@.len() == iter.index@,
            iter.history@ + iter.iter.remaining() == all,
            forall|d: crate::semantic::types::ItemDefinition| #[trigger] f.requires((&d,)),
            forall|i: int| 0 <= i < all.len() ==> m@.contains_key(*(#[trigger] all[i]).0) && m@[*all[i].0] == *all[i].1,
            forall|x: crate::grammar::ItemPath| #![trigger out@.contains(x)] out@.contains(x) ==> exists|i: int| 0 <= i < iter.index@ && *(#[trigger] all[i]).0 == x && f.ensures((all[i].1,), true),
            forall|i: int| 0 <= i < iter.index@ ==> out@.contains(*(#[trigger] all[i]).0) || f.ensures((all[i].1,), false),
    {
        let (k, v) = kv;
        let ghost idx = iter.index@;
        let ghost out0 = out@;
        proof { assert(0 <= idx < all.len()); assert(kv == all[idx]); }
        if f(v) {
            out.push(k.clone());
            proof {
                assert(out@ =~= out0.push(*k));
                assert forall|x: crate::grammar::ItemPath| #![trigger out@.contains(x)] out@.contains(x) implies exists|i: int| 0 <= i < idx + 1 && *(#[trigger] all[i]).0 == x && f.ensures((all[i].1,), true) by {
                    let j = choose|j: int| 0 <= j < out@.len() && out@[j] == x;
                    if j < out0.len() {
                        assert(out0[j] == x);
                        assert(out0.contains(x));
                        let i = choose|i: int| 0 <= i < idx && *(#[trigger] all[i]).0 == x && f.ensures((all[i].1,), true);
                        assert(0 <= i < idx + 1);
                    } else {
                        assert(x == *k);
                        assert(*all[idx].0 == x && f.ensures((all[idx].1,), true));
                    }
                }
                assert forall|i: int| 0 <= i < idx + 1 implies out@.contains(*(#[trigger] all[i]).0) || f.ensures((all[i].1,), false) by {
                    if i < idx {
                        if out0.contains(*all[i].0) { let j = choose|j: int| 0 <= j < out0.len() && out0[j] == *all[i].0; assert(out@[j] == *all[i].0); }
                    } else {
                        assert(out@[out0.len() as int] == *k);
                    }
                }
            }
        } else {
            proof {
                assert forall|i: int| 0 <= i < idx + 1 implies out@.contains(*(#[trigger] all[i]).0) || f.ensures((all[i].1,), false) by { }
            }
        }
    }
    proof {
        assert forall|k: crate::grammar::ItemPath| #![trigger out@.contains(k)] m@.contains_key(k) && !out@.contains(k) implies f.ensures((&m@[k],), false) by {
            let i = choose|i: int| 0 <= i < all.len() && *(#[trigger] all[i]).0 == k;
            assert(out@.contains(*all[i].0) || f.ensures((all[i].1,), false));
        }
    }
    out
}
}
}
#[allow(unused_imports)] pub use filterkeys::v_filter_keys;
