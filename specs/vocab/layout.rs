use vstd::prelude::*;
use crate::grammar::ItemPath;
use crate::semantic::types::*;
use crate::semantic::types::Visibility;
use crate::semantic::TypeRegistry;
#[allow(unused_imports)] use crate::verif_specs::*;
verus!{
/// size of a registered item, `None` while it is unresolved or unknown
pub open spec fn reg_size(reg: &TypeRegistry, p: ItemPath) -> Option<usize> {
    if reg.types@.contains_key(p) {
        match reg.types@[p].state { ItemState::Resolved(r) => Some(r.size), _ => None }
    } else { None }
}
/// mathematical size of a type; the array case carries the machine bound explicitly
/// (`None` when element size times count does not fit `usize`), so that the real `Type::size`
/// is *equal* to this function.
pub open spec fn ty_size(t: Type, reg: &TypeRegistry) -> Option<usize>
    decreases t
{
    match t {
        Type::Unresolved(_) => None,
        Type::Raw(p) => reg_size(reg, p),
        Type::ConstPointer(_) => Some(reg.pointer_size),
        Type::MutPointer(_) => Some(reg.pointer_size),
        Type::Function(_, _, _) => Some(reg.pointer_size),
        Type::Array(tr, n) => match ty_size(*tr, reg) {
            Some(s) => if s * n <= usize::MAX { Some((s * n) as usize) } else { None },
            None => None,
        },
    }
}
/// sum of sizes of regions (all must be sized; unsized counted as 0).
/// Opaque: proofs use the lemmas below, so that unfolding never feeds a matching loop with vstd's
/// take/drop_last axioms.
#[verifier::opaque]
pub open spec fn sum_sizes(rs: Seq<Region>, reg: &TypeRegistry) -> nat
    decreases rs.len()
{
    if rs.len() == 0 { 0 } else {
        sum_sizes(rs.drop_last(), reg) + (match ty_size(rs.last().type_ref, reg) { Some(s) => s as nat, None => 0 })
    }
}
pub open spec fn region_size(r: Region, reg: &TypeRegistry) -> nat { match ty_size(r.type_ref, reg) { Some(s) => s as nat, None => 0 } }
pub proof fn lemma_sum_empty(reg: &TypeRegistry)
    ensures sum_sizes(Seq::<Region>::empty(), reg) == 0
{ reveal_with_fuel(sum_sizes, 2); }
pub proof fn lemma_sum_push(rs: Seq<Region>, r: Region, reg: &TypeRegistry)
    ensures sum_sizes(rs.push(r), reg) == sum_sizes(rs, reg) + region_size(r, reg)
{
    reveal_with_fuel(sum_sizes, 2);
    assert(rs.push(r).drop_last() == rs);
}
pub open spec fn all_sized(rs: Seq<Region>, reg: &TypeRegistry) -> bool {
    forall|i: int| 0 <= i < rs.len() ==> ty_size(#[trigger] rs[i].type_ref, reg) is Some
}

/// the registry contains the built-in `u8` (size 1, alignment 1) that padding regions are made of
pub open spec fn reg_wf(reg: &TypeRegistry) -> bool {
    &&& reg.types@.contains_key(u8_path())
    &&& reg.types@[u8_path()].state is Resolved
    &&& reg.types@[u8_path()].state->Resolved_0.size == 1
    &&& reg.types@[u8_path()].state->Resolved_0.alignment == 1
}
pub proof fn lemma_pad_size(n: usize, reg: &TypeRegistry)
    requires reg_wf(reg)
    ensures ty_size(pad_type(n as nat), reg) == Some(n), ty_align(pad_type(n as nat), reg) == Some(1usize)
{
    reveal_with_fuel(ty_size, 3);
    reveal_with_fuel(ty_align, 3);
}

/// end offsets: offset of region j in a region list
pub open spec fn offset_of(rs: Seq<Region>, j: int, reg: &TypeRegistry) -> nat {
    sum_sizes(rs.take(j), reg)
}
pub proof fn lemma_sum_take_push(rs: Seq<Region>, r: Region, j: int, reg: &TypeRegistry)
    requires 0 <= j <= rs.len()
    ensures offset_of(rs.push(r), j, reg) == offset_of(rs, j, reg)
{
    assert(rs.push(r).take(j) == rs.take(j));
}
pub proof fn lemma_offset_full(rs: Seq<Region>, reg: &TypeRegistry)
    ensures offset_of(rs, rs.len() as int, reg) == sum_sizes(rs, reg)
{
    assert(rs.take(rs.len() as int) == rs);
}

pub open spec fn is_prefix(a: Seq<Region>, b: Seq<Region>) -> bool {
    a.len() <= b.len() && forall|i: int| 0 <= i < a.len() ==> a[i] == b[i]
}
pub proof fn lemma_prefix_stable(a: Seq<Region>, b: Seq<Region>, j: int, reg: &TypeRegistry)
    requires is_prefix(a, b), 0 <= j < a.len()
    ensures b[j] == a[j], offset_of(b, j, reg) == offset_of(a, j, reg)
{
    assert(b.take(j) =~= a.take(j));
}

pub proof fn lemma_sum_nonneg(rs: Seq<Region>, reg: &TypeRegistry)
    requires all_sized(rs, reg), forall|i: int| 0 <= i < rs.len() ==> ty_size(#[trigger] rs[i].type_ref, reg)->0 >= 0
    ensures sum_sizes(rs, reg) >= 0
    decreases rs.len()
{
}
pub proof fn lemma_offset_step(rs: Seq<Region>, j: int, reg: &TypeRegistry)
    requires 0 <= j < rs.len()
    ensures offset_of(rs, j + 1, reg) == offset_of(rs, j, reg) + (match ty_size(rs[j].type_ref, reg) { Some(s) => s as nat, None => 0 })
{
    assert(rs.take(j + 1) == rs.take(j).push(rs[j]));
    lemma_sum_push(rs.take(j), rs[j], reg);
}
pub proof fn lemma_offset_mono(rs: Seq<Region>, j: int, reg: &TypeRegistry)
    requires 0 <= j <= rs.len()
    ensures offset_of(rs, j, reg) <= sum_sizes(rs, reg)
    decreases rs.len() - j
{
    if j == rs.len() { lemma_offset_full(rs, reg); } else { lemma_offset_step(rs, j, reg); lemma_offset_mono(rs, j + 1, reg); }
}
pub open spec fn sizes_nonneg(rs: Seq<Region>, reg: &TypeRegistry) -> bool {
    forall|i: int| 0 <= i < rs.len() ==> (match ty_size(#[trigger] rs[i].type_ref, reg) { Some(s) => s >= 0, None => true })
}
pub proof fn lemma_same_types_same_sums(a: Seq<Region>, b: Seq<Region>, reg: &TypeRegistry)
    requires a.len() == b.len(), forall|i: int| 0 <= i < a.len() ==> (#[trigger] b[i]).type_ref == a[i].type_ref
    ensures sum_sizes(a, reg) == sum_sizes(b, reg), all_sized(a, reg) ==> all_sized(b, reg)
    decreases a.len()
{
    if a.len() > 0 {
        lemma_same_types_same_sums(a.drop_last(), b.drop_last(), reg);
        assert(a == a.drop_last().push(a.last()));
        assert(b == b.drop_last().push(b.last()));
        lemma_sum_push(a.drop_last(), a.last(), reg);
        lemma_sum_push(b.drop_last(), b.last(), reg);
    } else {
        assert(a == Seq::<Region>::empty());
        assert(b == Seq::<Region>::empty());
    }
    if all_sized(a, reg) {
        assert forall|i: int| 0 <= i < b.len() implies ty_size(#[trigger] b[i].type_ref, reg) is Some by { assert(ty_size(a[i].type_ref, reg) is Some); }
    }
}
pub proof fn lemma_same_types_same_offsets(a: Seq<Region>, b: Seq<Region>, j: int, reg: &TypeRegistry)
    requires a.len() == b.len(), 0 <= j <= a.len(), forall|i: int| 0 <= i < a.len() ==> (#[trigger] b[i]).type_ref == a[i].type_ref
    ensures offset_of(a, j, reg) == offset_of(b, j, reg)
{
    lemma_same_types_same_sums(a.take(j), b.take(j), reg);
}

// ---------- functional layout spec ----------
pub uninterp spec fn u8_path() -> ItemPath;
pub open spec fn spec_field_name(off: nat) -> Seq<char> { spec_fmt1("_field_{size:x}"@, spec_display_usize(off as usize)) }

pub open spec fn pad_type(n: nat) -> Type { Type::Array(Box::new(Type::Raw(u8_path())), n as usize) }
pub open spec fn pad_region(n: nat) -> Region {
    Region { visibility: Visibility::Private, name: None, doc: None, type_ref: pad_type(n), is_base: false }
}
/// `Regions::push`: append unless zero-sized array
pub open spec fn place(acc: (Seq<Region>, nat), r: Region, reg: &TypeRegistry) -> (Seq<Region>, nat) {
    let sz = ty_size(r.type_ref, reg)->0;
    if sz == 0 && r.type_ref is Array { acc } else { (acc.0.push(r), acc.1 + sz as nat) }
}
/// sequential placement of the first k declared fields; None = overlap (rejected)
pub open spec fn layout_fields(input: Seq<(Option<usize>, Region)>, k: int, init: (Seq<Region>, nat), reg: &TypeRegistry) -> Option<(Seq<Region>, nat)>
    decreases k
{
    if k <= 0 { Some(init) } else {
        match layout_fields(input, k - 1, init, reg) {
            None => None,
            Some(acc) => {
                let (off, r) = input[k - 1];
                match off {
                    Some(o) => if (o as nat) < acc.1 { None } else { Some(place(place(acc, pad_region((o - acc.1) as nat), reg), r, reg)) },
                    None => Some(place(acc, r, reg)),
                }
            }
        }
    }
}
pub open spec fn tail_pad(acc: (Seq<Region>, nat), target: Option<usize>, reg: &TypeRegistry) -> (Seq<Region>, nat) {
    match target { Some(t) => if acc.1 < t as nat { place(acc, pad_region((t - acc.1) as nat), reg) } else { acc }, None => acc }
}
/// a generated (unnamed) region after finalisation: private, no doc, not a base, named `_field_<offset in hex>`
pub open spec fn anon_ok(r: Region, t: Type, off: nat) -> bool {
    &&& r.visibility == Visibility::Private
    &&& r.name is Some && r.name->0@ == spec_field_name(off)
    &&& r.doc is None
    &&& r.type_ref == t
    &&& !r.is_base
}
/// `out` is `pre` with every unnamed region finalised and every named region untouched
pub open spec fn finalized_from(pre: Seq<Region>, out: Seq<Region>, reg: &TypeRegistry) -> bool {
    &&& out.len() == pre.len()
    &&& forall|i: int| 0 <= i < pre.len() ==> (if pre[i].name is Some { #[trigger] out[i] == pre[i] } else { anon_ok(out[i], pre[i].type_ref, offset_of(pre, i, reg)) })
}
/// complete functional specification of resolve_regions' region list (C01 C17 C20): the declared fields laid
/// out sequentially after the optional vftable pointer region, padded up to the declared size, then finalised
pub open spec fn regions_spec(input: Seq<(Option<usize>, Region)>, vr: Option<Region>, target: Option<usize>, out: Seq<Region>, size: usize, reg: &TypeRegistry) -> bool {
    let init = match vr { Some(r) => place((Seq::<Region>::empty(), 0nat), r, reg), None => (Seq::<Region>::empty(), 0nat) };
    &&& layout_fields(input, input.len() as int, init, reg) is Some
    &&& tail_pad(layout_fields(input, input.len() as int, init, reg)->0, target, reg).1 == size
    &&& finalized_from(tail_pad(layout_fields(input, input.len() as int, init, reg)->0, target, reg).0, out, reg)
}

// ---------- alignment vocabulary ----------
pub open spec fn reg_align(reg: &TypeRegistry, p: ItemPath) -> Option<usize> {
    if reg.types@.contains_key(p) {
        match reg.types@[p].state { ItemState::Resolved(r) => Some(r.alignment), _ => None }
    } else { None }
}
pub open spec fn ty_align(t: Type, reg: &TypeRegistry) -> Option<usize>
    decreases t
{
    match t {
        Type::Unresolved(_) => None,
        Type::Raw(p) => reg_align(reg, p),
        Type::ConstPointer(_) => Some(reg.pointer_size),
        Type::MutPointer(_) => Some(reg.pointer_size),
        Type::Function(_, _, _) => Some(reg.pointer_size),
        Type::Array(tr, n) => ty_align(*tr, reg),
    }
}
pub open spec fn all_aligned_known(rs: Seq<Region>, reg: &TypeRegistry) -> bool {
    forall|i: int| 0 <= i < rs.len() ==> ty_align(#[trigger] rs[i].type_ref, reg) is Some && ty_align(rs[i].type_ref, reg)->0 > 0
}
pub uninterp spec fn lcm_aligns(rs: Seq<Region>, reg: &TypeRegistry) -> nat;
pub open spec fn eff_align(align: Option<usize>, rs: Seq<Region>, reg: &TypeRegistry) -> nat {
    match align { Some(a) => a as nat, None => if rs.len() == 1 { ty_align(rs[0].type_ref, reg)->0 as nat } else { reg.pointer_size as nat } }
}
pub open spec fn offsets_aligned(rs: Seq<Region>, n: int, reg: &TypeRegistry) -> bool {
    forall|i: int| 0 <= i < n ==> #[trigger] offset_of(rs, i, reg) % (ty_align(rs[i].type_ref, reg)->0 as nat) == 0
}
pub open spec fn align_ok(packed: bool, align: Option<usize>, rs: Seq<Region>, size: nat, reg: &TypeRegistry) -> bool {
    if packed { align is None } else {
        let a = eff_align(align, rs, reg);
        &&& lcm_aligns(rs, reg) <= a
        &&& offsets_aligned(rs, rs.len() as int, reg)
        &&& a > 0 && size % a == 0
    }
}

// ---------- placement theorem vocabulary ----------
/// like placed_ok, but modulo the renaming of unnamed regions performed by the last loop
pub open spec fn placed_ok_final(input: Seq<(Option<usize>, Region)>, k: int, out: Seq<Region>, idx: int, reg: &TypeRegistry) -> bool {
    if idx < 0 {
        ty_size(input[k].1.type_ref, reg) == Some(0usize) && input[k].1.type_ref is Array
    } else {
        idx < out.len() && out[idx].type_ref == input[k].1.type_ref
        && (input[k].1.name is Some ==> out[idx] == input[k].1)
        && (input[k].0 is Some ==> offset_of(out, idx, reg) == input[k].0->0)
    }
}
pub open spec fn all_placed_final(input: Seq<(Option<usize>, Region)>, out: Seq<Region>, pos: Seq<int>, reg: &TypeRegistry) -> bool {
    pos.len() == input.len() && forall|k: int| 0 <= k < input.len() ==> #[trigger] placed_ok_final(input, k, out, pos[k], reg)
}
pub open spec fn placement_exists(input: Seq<(Option<usize>, Region)>, out: Seq<Region>, reg: &TypeRegistry) -> bool {
    exists|pos: Seq<int>| #[trigger] all_placed_final(input, out, pos, reg)
}
/// Ghost record: input field k was placed at output index `idx` (or -1 if dropped) with byte offset `off`.
pub open spec fn placed_ok(input: Seq<(Option<usize>, Region)>, k: int, out: Seq<Region>, idx: int, reg: &TypeRegistry) -> bool {
    if idx < 0 {
        ty_size(input[k].1.type_ref, reg) == Some(0usize) && input[k].1.type_ref is Array
    } else {
        idx < out.len() && out[idx] == input[k].1
        && (input[k].0 is Some ==> offset_of(out, idx, reg) == input[k].0->0)
    }
}



// ---------- C03, both directions, for the sequential placement ----------
/// exactly the field lists the sequential placement accepts (for a type without a vftable pointer of its own):
/// no declared address lies below the running end, and the declared size, if any, is not exceeded
pub open spec fn layout_accepts(input: Seq<(Option<usize>, Region)>, target: Option<usize>, reg: &TypeRegistry) -> bool {
    let lf = layout_fields(input, input.len() as int, (Seq::<Region>::empty(), 0nat), reg);
    lf is Some && (target is Some ==> (lf->0).1 <= target->0)
}
pub proof fn lemma_layout_none_stable(input: Seq<(Option<usize>, Region)>, k: int, n: int, init: (Seq<Region>, nat), reg: &TypeRegistry)
    requires 0 <= k <= n, layout_fields(input, k, init, reg) is None
    ensures layout_fields(input, n, init, reg) is None
    decreases n - k
{
    if k < n { lemma_layout_none_stable(input, k, n - 1, init, reg); }
}
// ---------- C10: a type is deferred only while something it embeds by value is not resolved yet ----------
/// field k cannot be placed yet: its type has no size yet, or placing it would run past the address space
pub open spec fn defers_at(input: Seq<(Option<usize>, Region)>, k: int, init: (Seq<Region>, nat), reg: &TypeRegistry) -> bool {
    match layout_fields(input, k, init, reg) {
        Some(acc) => {
            let start = match input[k].0 { Some(o) => if (o as nat) < acc.1 { acc.1 } else { o as nat }, None => acc.1 };
            ty_size(input[k].1.type_ref, reg) is None || start + ty_size(input[k].1.type_ref, reg)->0 > usize::MAX
        },
        None => false,
    }
}
pub open spec fn init_of(vr: Option<Region>, reg: &TypeRegistry) -> (Seq<Region>, nat) {
    match vr { Some(r) => place((Seq::<Region>::empty(), 0nat), r, reg), None => (Seq::<Region>::empty(), 0nat) }
}
pub open spec fn layout_defers(input: Seq<(Option<usize>, Region)>, reg: &TypeRegistry) -> bool {
    exists|k: int, vr: Option<Region>| 0 <= k < input.len() && #[trigger] defers_at(input, k, init_of(vr, reg), reg)
}
}
