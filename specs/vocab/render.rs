use vstd::prelude::*;
use crate::grammar::{self, ItemPath, ItemPathSegment};
use crate::semantic::types::*;
#[allow(unused_imports)] use crate::verif_specs::*;
verus!{
// ---------- the text of a type reference as the back end writes it (C11: "the emitted reference is the fully
// qualified crate path of exactly that definition"; C16: every function-pointer type carries `extern "<cc>"`) ----------
/// `Display` of an item path: the segments joined by `::` (grammar.rs `impl Display for ItemPath`; the link between
/// this function and that impl is an assumption — `fmt::Formatter` is outside the verified text)
pub open spec fn path_text(segs: Seq<ItemPathSegment>, n: int) -> Seq<char>
    decreases n
{
    if n <= 0 { Seq::empty() } else if n == 1 { segs[0].0@ } else { path_text(segs, n - 1) + "::"@ + segs[n - 1].0@ }
}
pub open spec fn spec_display_path(p: ItemPath) -> Seq<char> { path_text(p.0@, p.0@.len() as int) }
/// the built-in `void` written as a plain name
pub open spec fn is_void_path(p: ItemPath) -> bool { p.0@.len() == 1 && p.0@[0].0@ == "void"@ }
/// nothing the printer visits is still unresolved (the printer panics on an unresolved type)
pub open spec fn printable(t: Type) -> bool
    decreases t, 1int
{
    match t {
        Type::Unresolved(_) => false,
        Type::Raw(_) => true,
        Type::ConstPointer(b) => printable(*b),
        Type::MutPointer(b) => printable(*b),
        Type::Array(b, _) => printable(*b),
        Type::Function(_, args, ret) => args_printable(t, args@.len() as int) && (match ret { Some(r) => printable(*r), None => true }),
    }
}
pub open spec fn args_printable(t: Type, n: int) -> bool
    decreases t, 0int, n
{
    if t is Function && 0 < n <= t->Function_1@.len() { args_printable(t, n - 1) && printable(*(t->Function_1@[n - 1]).1) } else { true }
}
/// what a pointer points to: the built-in `void` is `::std::ffi::c_void` there (by value it is the unit type)
pub open spec fn is_void_type(t: Type) -> bool { t is Raw && is_void_path(t->Raw_0) }
/// the text of a type reference:
///  * a named type is its path, prefixed `crate::` unless it is a single segment (built-ins, root items); by-value `void` is `()`
///  * `*const T` / `*mut T`, `[T; N]`
///  * `unsafe extern "<cc>" fn (<name>: <T>, ..) -> <R>` with the arguments in declared order
pub open spec fn type_text(t: Type) -> Seq<char>
    decreases t, 1int
{
    match t {
        Type::Unresolved(_) => Seq::empty(),
        Type::Raw(p) => if is_void_path(p) { "()"@ } else { (if p.0@.len() > 1 { "crate::"@ } else { Seq::<char>::empty() }) + spec_fmt1("{}"@, spec_display_path(p)) },
        Type::ConstPointer(b) => "*const "@ + (if is_void_type(*b) { "::std::ffi::c_void"@ } else { type_text(*b) }),
        Type::MutPointer(b) => "*mut "@ + (if is_void_type(*b) { "::std::ffi::c_void"@ } else { type_text(*b) }),
        Type::Array(b, n) => "["@ + type_text(*b) + spec_fmt1("; {}]"@, spec_display_usize(n)),
        Type::Function(cc, args, ret) =>
            spec_fmt1("unsafe extern \"{calling_convention}\" fn ("@, spec_cc_as_str(cc)) + args_text(t, args@.len() as int) + ")"@
                + (match ret { Some(r) => " -> "@ + type_text(*r), None => Seq::<char>::empty() }),
    }
}
pub open spec fn args_text(t: Type, n: int) -> Seq<char>
    decreases t, 0int, n
{
    if t is Function && 0 < n <= t->Function_1@.len() {
        let a = t->Function_1@[n - 1];
        args_text(t, n - 1) + spec_fmt1("{field}: "@, a.0@) + type_text(*a.1) + ", "@
    } else { Seq::empty() }
}
pub proof fn lemma_args_printable(t: Type, n: int, k: int)
    requires t is Function, 0 <= k < n <= t->Function_1@.len(), args_printable(t, n),
    ensures printable(*(t->Function_1@[k]).1),
    decreases n
{
    if k < n - 1 { lemma_args_printable(t, n - 1, k); }
}
/// what `resolve_grammar_type` returns never contains an unresolved type: the types that the semantic layer stores in
/// regions, arguments, return types, enum bases and (after the build) extern values satisfy the printer's precondition
pub proof fn lemma_resolved_printable(reg: &crate::semantic::TypeRegistry, scope: Seq<ItemPath>, t: grammar::Type)
    requires spec_resolve_type(reg, scope, t) is Some,
    ensures printable(spec_resolve_type(reg, scope, t)->0),
    decreases t
{
    match t {
        grammar::Type::ConstPointer(inner) => { lemma_resolved_printable(reg, scope, *inner); }
        grammar::Type::MutPointer(inner) => { lemma_resolved_printable(reg, scope, *inner); }
        grammar::Type::Array(inner, n) => { lemma_resolved_printable(reg, scope, *inner); }
        grammar::Type::Ident(id) => { }
        grammar::Type::Unknown(n) => { reveal_with_fuel(printable, 3); }
    }
}
}
