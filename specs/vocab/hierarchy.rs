use vstd::prelude::*;
use crate::grammar::{self, ItemPath};
use crate::semantic::types::*;
use crate::semantic::TypeRegistry;
#[allow(unused_imports)] use crate::verif_specs::*;
verus!{
// ---------- the base hierarchy of a type (C07: AsRef / AsMut for every direct or transitive base) ----------
/// one entry of the walk: the path of field names that leads to the base sub-object, and the base's type
pub type HEntry = (Seq<Seq<char>>, Type);
/// pre-order walk over the `#[base]` regions of the first n regions, `fields` being the field path of the object the
/// regions belong to.  A base whose type is not resolved contributes nothing; a base that is unnamed / not a plain
/// type name / unknown / an enum is an error (`Some(None)`).  The registry is not known to be acyclic here, so the
/// walk is indexed by a recursion budget: `None` = budget exhausted (the executable function would not have
/// returned).  `lemma_dfs_mono`: a result does not depend on the budget once there is one.
pub open spec fn dfs_regions(fuel: nat, regions: Seq<Region>, n: int, reg: &TypeRegistry, fields: Seq<Seq<char>>) -> Option<Option<Seq<HEntry>>>
    decreases fuel, n
{
    if n <= 0 { Some(Some(Seq::empty())) } else {
        match dfs_regions(fuel, regions, n - 1, reg, fields) {
            None => None,
            Some(None) => Some(None),
            Some(Some(acc)) => {
                let r = regions[n - 1];
                if !r.is_base { Some(Some(acc)) } else {
                    match base_type_of(reg, r) {
                        None => Some(None),
                        Some(None) => Some(Some(acc)),
                        Some(Some((name, td))) => {
                            let fp = fields.push(name@);
                            if fuel == 0 { None } else {
                                match dfs_regions((fuel - 1) as nat, td.regions@, td.regions@.len() as int, reg, fp) {
                                    None => None,
                                    Some(None) => Some(None),
                                    Some(Some(sub)) => Some(Some(acc.push((fp, r.type_ref)) + sub)),
                                }
                            }
                        }
                    }
                }
            }
        }
    }
}
pub proof fn lemma_dfs_mono(f1: nat, f2: nat, regions: Seq<Region>, n: int, reg: &TypeRegistry, fields: Seq<Seq<char>>)
    requires f1 <= f2, dfs_regions(f1, regions, n, reg, fields) is Some,
    ensures dfs_regions(f2, regions, n, reg, fields) == dfs_regions(f1, regions, n, reg, fields),
    decreases f1, n
{
    if n > 0 {
        // the prefix has a result under f1 (otherwise the whole would be None)
        assert(dfs_regions(f1, regions, n - 1, reg, fields) is Some);
        lemma_dfs_mono(f1, f2, regions, n - 1, reg, fields);
        match dfs_regions(f1, regions, n - 1, reg, fields) {
            Some(Some(acc)) => {
                let r = regions[n - 1];
                if r.is_base {
                    match base_type_of(reg, r) {
                        Some(Some((name, td))) => {
                            assert(f1 > 0);
                            lemma_dfs_mono((f1 - 1) as nat, (f2 - 1) as nat, td.regions@, td.regions@.len() as int, reg, fields.push(name@));
                        }
                        _ => {}
                    }
                }
            }
            _ => {}
        }
    }
}
/// an error among the first k regions is the result for every longer prefix
pub proof fn lemma_dfs_err_stable(fuel: nat, regions: Seq<Region>, k: int, n: int, reg: &TypeRegistry, fields: Seq<Seq<char>>)
    requires 0 <= k <= n, dfs_regions(fuel, regions, k, reg, fields) == Some(None::<Seq<HEntry>>),
    ensures dfs_regions(fuel, regions, n, reg, fields) == Some(None::<Seq<HEntry>>),
    decreases n - k
{
    if k < n { lemma_dfs_err_stable(fuel, regions, k, n - 1, reg, fields); }
}
pub open spec fn strs_view(s: Seq<&str>) -> Seq<Seq<char>> { s.map_values(|x: &str| x@) }
pub open spec fn strings_view(s: Seq<String>) -> Seq<Seq<char>> { s.map_values(|x: String| x@) }
pub open spec fn entries_view(v: Seq<(Vec<String>, Type)>) -> Seq<HEntry> { v.map_values(|e: (Vec<String>, Type)| (strings_view(e.0@), e.1)) }
/// the hierarchy of `td` as `dfs_hierarchy` returns it: every direct or transitive base once per occurrence, in
/// pre-order, with the field path that leads to it
pub open spec fn hierarchy_result(td: TypeDefinition, reg: &TypeRegistry, fields: Seq<Seq<char>>, res: Option<Seq<HEntry>>) -> bool {
    exists|fuel: nat| #![trigger dfs_regions(fuel, td.regions@, td.regions@.len() as int, reg, fields)]
        dfs_regions(fuel, td.regions@, td.regions@.len() as int, reg, fields) == Some(res)
}
}
