use vstd::prelude::*;
use crate::grammar::{self, ItemPath};
use crate::semantic::types::*;
use crate::semantic::types::Visibility;
use crate::semantic::TypeRegistry;
#[allow(unused_imports)] use crate::verif_specs::*;
verus!{
// ---------- re-exposed base members (C07, semantic half) ----------
pub open spec fn names_of(fs: Seq<Function>) -> Seq<String> { fs.map_values(|f: Function| f.name) }
pub open spec fn names_set(fs: Seq<Function>) -> Set<String> { names_of(fs).to_set() }
/// `out` is `f` re-exposed through the base field `base`: same visibility, doc, arguments, return type and
/// calling convention; "calling it has exactly the effect of calling the original on the base sub-object":
/// with a receiver its body forwards to `<base>.<original name>` (the receiver the callee sees is that
/// sub-object); without a receiver there is no sub-object to go through and the only body with the
/// original's effect that is callable from a function without `self` is the original's own (finding F16);
/// it keeps its name unless that name is already used, in which case it is called `<base>_<name>` (the raw
/// prefix `r#` of `<name>` is syntax, not part of the name: it cannot occur inside an identifier, finding F19)
pub open spec fn injected_ok(f: Function, base: String, used: Set<String>, out: Function) -> bool {
    &&& out.visibility == f.visibility && out.doc == f.doc && out.arguments == f.arguments
    &&& out.return_type == f.return_type && out.calling_convention == f.calling_convention
    &&& out.body == (if has_self(f.arguments@) { FunctionBody::Field { field: base, function_name: f.name } } else { f.body })
    &&& (if used.contains(f.name) { out.name@ == spec_fmt2("{}_{}"@, base@, spec_strip_prefix(f.name@, "r#"@)) } else { out.name == f.name })
}
/// `out` re-exposes the sources one by one; the set of used names grows with every injected function
pub open spec fn injected_seq(srcs: Seq<(Function, String)>, used0: Set<String>, out: Seq<Function>) -> bool {
    &&& out.len() == srcs.len()
    &&& forall|k: int| 0 <= k < srcs.len() ==> injected_ok(srcs[k].0, srcs[k].1, used0.union(names_set(out.take(k))), #[trigger] out[k])
}
/// the public functions among the first k of fs, in order
pub open spec fn publics(fs: Seq<Function>, k: int) -> Seq<Function>
    decreases k
{
    if k <= 0 { Seq::empty() } else if fs[k - 1].visibility == Visibility::Public { publics(fs, k - 1).push(fs[k - 1]) } else { publics(fs, k - 1) }
}
pub open spec fn tagged(fs: Seq<Function>, base: String) -> Seq<(Function, String)> { Seq::new(fs.len(), |i: int| (fs[i], base)) }
/// what base number i (0-based among the `#[base]` fields) contributes: its public associated functions, then,
/// for every base but the first, its public virtual functions
pub open spec fn base_sources(td: TypeDefinition, i: int, base: String) -> Seq<(Function, String)> {
    tagged(publics(td.associated_functions@, td.associated_functions@.len() as int), base)
        + (if i > 0 && td.vftable is Some { tagged(publics(td.vftable->0.functions@, td.vftable->0.functions@.len() as int), base) } else { Seq::empty() })
}
/// the `#[base]` regions among the first k regions, in order
pub open spec fn bases_of(regions: Seq<Region>, k: int) -> Seq<Region>
    decreases k
{
    if k <= 0 { Seq::empty() } else if regions[k - 1].is_base { bases_of(regions, k - 1).push(regions[k - 1]) } else { bases_of(regions, k - 1) }
}
/// everything the first k bases contribute (a base whose type is not resolved yet contributes nothing)
pub open spec fn sources_of(reg: &TypeRegistry, bases: Seq<Region>, k: int) -> Seq<(Function, String)>
    decreases k
{
    if k <= 0 { Seq::empty() } else {
        match base_type_of(reg, bases[k - 1]) {
            Some(Some((n, td))) => sources_of(reg, bases, k - 1) + base_sources(td, k - 1, n),
            _ => sources_of(reg, bases, k - 1),
        }
    }
}
/// C07 for one type: the injected functions are the re-exposed sources of its bases, in base order
pub open spec fn base_functions_ok(reg: &TypeRegistry, regions: Seq<Region>, used0: Set<String>, out: Seq<Function>) -> bool {
    let bases = bases_of(regions, regions.len() as int);
    injected_seq(sources_of(reg, bases, bases.len() as int), used0, out)
}
pub open spec fn vftable_names(v: Option<TypeVftable>) -> Set<String> {
    match v { Some(t) => names_set(t.functions@), None => Set::empty() }
}
pub proof fn lemma_names_set_push(fs: Seq<Function>, f: Function)
    ensures names_set(fs.push(f)) =~= names_set(fs).insert(f.name)
{
    let a = names_of(fs); let v = f.name;
    assert(names_of(fs.push(f)) =~= a.push(v));
    assert forall|x: String| a.push(v).to_set().contains(x) <==> a.to_set().insert(v).contains(x) by {
        if a.push(v).contains(x) { let j = choose|j: int| 0 <= j < a.push(v).len() && a.push(v)[j] == x; if j < a.len() { assert(a[j] == x); } }
        if a.contains(x) { let j = choose|j: int| 0 <= j < a.len() && a[j] == x; assert(a.push(v)[j] == x); }
        if x == v { assert(a.push(v)[a.len() as int] == x); }
    }
}
pub proof fn lemma_injected_seq_push(srcs: Seq<(Function, String)>, used0: Set<String>, out: Seq<Function>, f: Function, base: String, g: Function)
    requires injected_seq(srcs, used0, out), injected_ok(f, base, used0.union(names_set(out)), g)
    ensures injected_seq(srcs.push((f, base)), used0, out.push(g))
{
    let s2 = srcs.push((f, base));
    let o2 = out.push(g);
    assert forall|k: int| 0 <= k < s2.len() implies injected_ok(s2[k].0, s2[k].1, used0.union(names_set(o2.take(k))), #[trigger] o2[k]) by {
        if k < srcs.len() {
            assert(o2.take(k) == out.take(k));
            assert(o2[k] == out[k]);
        } else {
            assert(o2.take(k) == out);
        }
    }
}

/// sources_of only looks at the first k bases
pub proof fn lemma_sources_prefix(reg: &TypeRegistry, a: Seq<Region>, b: Seq<Region>, k: int)
    requires 0 <= k <= a.len(), k <= b.len(), forall|i: int| 0 <= i < k ==> a[i] == b[i]
    ensures sources_of(reg, a, k) == sources_of(reg, b, k)
    decreases k
{
    if k > 0 { lemma_sources_prefix(reg, a, b, k - 1); }
}

/// C07 for one accepted type: its associated functions start with the re-exposed members of its bases
pub open spec fn build_base_functions_ok(reg: &TypeRegistry, regions: Seq<Region>, vft: Option<TypeVftable>, assoc: Seq<Function>) -> bool {
    exists|nb: int| 0 <= nb <= assoc.len() && #[trigger] base_functions_ok(reg, regions, vftable_names(vft), assoc.take(nb))
}
/// the re-exposed functions have pairwise different names, none of which is a name of the type's own vftable functions:
/// every one of them is *callable* under the name the rule gives it (C07; two functions of the same name are not - F26)
pub open spec fn names_fresh(used0: Set<String>, fs: Seq<Function>) -> bool {
    &&& forall|i: int, j: int| 0 <= i < j < fs.len() ==> (#[trigger] fs[i]).name != (#[trigger] fs[j]).name
    &&& forall|i: int| 0 <= i < fs.len() ==> !used0.contains((#[trigger] fs[i]).name)
}
pub proof fn lemma_names_fresh_push(used0: Set<String>, fs: Seq<Function>, f: Function)
    requires names_fresh(used0, fs), !used0.contains(f.name), !names_set(fs).contains(f.name),
    ensures names_fresh(used0, fs.push(f)),
{
    let g = fs.push(f);
    assert forall|i: int, j: int| 0 <= i < j < g.len() implies (#[trigger] g[i]).name != (#[trigger] g[j]).name by {
        if j == fs.len() {
            if g[i].name == f.name {
                assert(names_of(fs)[i] == f.name);
                assert(names_of(fs).contains(f.name));
            }
        }
    }
}
}
