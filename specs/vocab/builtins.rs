use vstd::prelude::*;
use crate::grammar::{self, ItemPath};
use crate::semantic::types::*;
use crate::semantic::TypeRegistry;
#[allow(unused_imports)] use crate::verif_specs::*;
verus!{
// ---------- built-in types (C02): names, sizes and alignments from the Rust reference ----------
pub open spec fn builtin_name(k: int) -> Seq<char> {
    if k == 0 { "void"@ } else if k == 1 { "bool"@ } else if k == 2 { "u8"@ } else if k == 3 { "u16"@ } else if k == 4 { "u32"@ }
    else if k == 5 { "u64"@ } else if k == 6 { "u128"@ } else if k == 7 { "i8"@ } else if k == 8 { "i16"@ } else if k == 9 { "i32"@ }
    else if k == 10 { "i64"@ } else if k == 11 { "i128"@ } else if k == 12 { "f32"@ } else { "f64"@ }
}
/// size_of of the Rust primitive (c_void / unit-like for `void`)
pub open spec fn builtin_size(k: int) -> usize {
    if k == 0 { 0 } else if k == 1 || k == 2 || k == 7 { 1 } else if k == 3 || k == 8 { 2 } else if k == 4 || k == 9 || k == 12 { 4 }
    else if k == 5 || k == 10 || k == 13 { 8 } else { 16 }
}
/// align_of of the Rust primitive on the supported targets (u128/i128: 16 since Rust 1.77)
pub open spec fn builtin_align(k: int) -> usize { if k == 0 { 1 } else { builtin_size(k) } }
/// `ItemPath::from(s)`: the path whose segments are the `::`-separated parts of s
pub uninterp spec fn spec_path_from_str(s: Seq<char>) -> ItemPath;
pub open spec fn builtin_path(k: int) -> ItemPath { spec_path_from_str(builtin_name(k)) }
/// a built-in name contains no `::`, so its path is the single segment
pub broadcast axiom fn axiom_builtin_path(k: int)
    ensures 0 <= k < 14 ==> path_view(#[trigger] builtin_path(k)) == seq![builtin_name(k)];
pub open spec fn builtin_registered(reg: &TypeRegistry, k: int) -> bool {
    &&& reg.types@.contains_key(builtin_path(k))
    &&& reg.types@[builtin_path(k)].state is Resolved
    &&& reg.types@[builtin_path(k)].state->Resolved_0.size == builtin_size(k)
    &&& reg.types@[builtin_path(k)].state->Resolved_0.alignment == builtin_align(k)
    &&& reg.types@[builtin_path(k)].category == ItemCategory::Predefined
    &&& reg.types@[builtin_path(k)].path == builtin_path(k)
}
pub open spec fn builtins_registered(reg: &TypeRegistry, n: int) -> bool {
    forall|k: int| 0 <= k < n ==> #[trigger] builtin_registered(reg, k)
}
pub proof fn lemma_builtin_names_distinct(j: int, k: int)
    requires 0 <= j < 14, 0 <= k < 14, j != k
    ensures builtin_name(j) != builtin_name(k), builtin_path(j) != builtin_path(k)
{
    reveal_strlit("void"); reveal_strlit("bool"); reveal_strlit("u8"); reveal_strlit("u16"); reveal_strlit("u32"); reveal_strlit("u64");
    reveal_strlit("u128"); reveal_strlit("i8"); reveal_strlit("i16"); reveal_strlit("i32"); reveal_strlit("i64"); reveal_strlit("i128");
    reveal_strlit("f32"); reveal_strlit("f64");
    let a = builtin_name(j); let b = builtin_name(k);
    assert(a != b) by {
        if a == b {
            assert(a.len() == b.len());
            assert(a[0] == b[0]);
            assert(a[1] == b[1]);
            if a.len() > 2 { assert(a[2] == b[2]); }
        }
    }
    axiom_builtin_path(j); axiom_builtin_path(k);
    if builtin_path(j) == builtin_path(k) {
        assert(path_view(builtin_path(j))[0] == path_view(builtin_path(k))[0]);
    }
}
pub proof fn lemma_builtins_give_reg_wf(reg: &TypeRegistry)
    requires builtins_registered(reg, 14)
    ensures reg_wf(reg)
{
    assert(builtin_registered(reg, 2));
    axiom_builtin_path(2);
    broadcast use axiom_u8_path;
    axiom_path_ext(builtin_path(2), u8_path());
}
pub proof fn lemma_builtin_parent(k: int)
    requires 0 <= k < 14
    ensures spec_parent(builtin_path(k)) == Some(spec_empty_path())
{
    axiom_builtin_path(k);
    axiom_spec_parent(builtin_path(k));
    assert(builtin_path(k).0@.len() == path_view(builtin_path(k)).len());
    let q = spec_parent(builtin_path(k))->0;
    assert(path_view(q) =~= Seq::<Seq<char>>::empty());
    assert(q.0@.len() == path_view(q).len());
    lemma_empty_path_unique(q);
}
pub broadcast group group_builtin_axioms { axiom_builtin_path }
}
