use vstd::prelude::*;
use crate::grammar::{self, ItemPath, ItemPathSegment, Attribute, Attributes, Ident};
use crate::semantic::types::*;
use crate::semantic::types::Visibility;
use crate::semantic::TypeRegistry;
#[allow(unused_imports)] use crate::verif_specs::*;
verus!{
// ---------- module registration vocabulary (C14 C15 C02) ----------
/// `ItemPathSegment::from(s)`
pub uninterp spec fn spec_segment(s: Seq<char>) -> ItemPathSegment;
pub broadcast axiom fn axiom_spec_segment(s: Seq<char>)
    ensures (#[trigger] spec_segment(s)).0@ == s;
/// derived structural equality (A5): a segment is determined by its text
pub broadcast axiom fn axiom_segment_ext(a: ItemPathSegment, b: ItemPathSegment)
    ensures #[trigger] a.0@ == #[trigger] b.0@ ==> a == b;
pub proof fn lemma_parent_of_join(p: ItemPath, s: Seq<char>)
    ensures spec_parent(spec_join(p, s)) == Some(p)
{
    let j = spec_join(p, s);
    axiom_spec_join(p, s);
    axiom_spec_parent(j);
    assert(j.0@.len() == path_view(j).len());
    let q = spec_parent(j)->0;
    assert(path_view(q) =~= path_view(p));
    axiom_path_ext(q, p);
}
/// the impl blocks of a module's source, keyed by the path of the type they belong to: every block is there,
/// unchanged, and nothing else (C05 "every function declared in an impl block", C14 "never a silent overwrite")
pub open spec fn impl_blocks_kept(path: ItemPath, blocks: Seq<grammar::FunctionBlock>, m: Map<ItemPath, grammar::FunctionBlock>) -> bool {
    &&& forall|k: int| 0 <= k < blocks.len() ==> m.contains_key(#[trigger] spec_join(path, blocks[k].name.0@)) && m[spec_join(path, blocks[k].name.0@)] == blocks[k]
    &&& forall|p: ItemPath| #[trigger] m.contains_key(p) ==> exists|k: int| 0 <= k < blocks.len() && p == spec_join(path, #[trigger] blocks[k].name.0@)
}
/// the backend blocks named `name` among the first n of a module's source, in source order, each complete
/// (C14 "its prologues come first and its epilogues last, each complete and in source order, and text for other
/// backends is not included": the semantic half; the placement in the file is the backend's, bounded stand-in)
pub open spec fn spec_backend_group(bs: Seq<grammar::Backend>, n: int, name: String) -> Seq<Backend>
    decreases n
{
    if n <= 0 { Seq::empty() }
    else if bs[n - 1].name.0 == name { spec_backend_group(bs, n - 1, name).push(Backend { prologue: bs[n - 1].prologue, epilogue: bs[n - 1].epilogue }) }
    else { spec_backend_group(bs, n - 1, name) }
}
pub open spec fn backends_grouped(bs: Seq<grammar::Backend>, n: int, m: Map<String, Vec<Backend>>) -> bool {
    &&& forall|name: String| #[trigger] m.contains_key(name) <==> spec_backend_group(bs, n, name).len() > 0
    &&& forall|name: String| #[trigger] m.contains_key(name) ==> m[name]@ == spec_backend_group(bs, n, name)
}
/// the semantic extern value of a declaration: name, visibility, unresolved type, and the address attribute
pub open spec fn extern_value_ok(ev: grammar::ExternValue, out: ExternValue) -> bool {
    &&& out.visibility == vis_of(ev.visibility)
    &&& out.name@ == ev.name.0@
    &&& out.type_ == Type::Unresolved(ev.type_)
    &&& attr_usize(ev.attributes.0@, "address"@, ev.attributes.0@.len() as int, Some(out.address))
}
pub open spec fn extern_values_ok(evs: Seq<grammar::ExternValue>, out: Seq<ExternValue>) -> bool {
    out.len() == evs.len() && forall|i: int| 0 <= i < evs.len() ==> extern_value_ok(evs[i], #[trigger] out[i])
}
/// registry entry of declaration k of a module
pub open spec fn definition_item(path: ItemPath, d: grammar::ItemDefinition) -> ItemDefinition {
    ItemDefinition { visibility: vis_of(d.visibility), path: spec_join(path, d.name.0@), state: ItemState::Unresolved(d), category: ItemCategory::Defined }
}
pub open spec fn definitions_registered(reg: &TypeRegistry, path: ItemPath, defs: Seq<grammar::ItemDefinition>, k: int) -> bool {
    forall|j: int| 0 <= j < k ==> reg.types@.contains_key(#[trigger] spec_join(path, defs[j].name.0@))
        && reg.types@[spec_join(path, defs[j].name.0@)] == definition_item(path, defs[j])
}
/// registry entry of extern type k: resolved with the declared size and alignment, category Extern
pub open spec fn extern_type_registered(reg: &TypeRegistry, path: ItemPath, et: (Ident, Attributes)) -> bool {
    let p = spec_join(path, et.0.0@);
    let a = et.1.0@;
    &&& reg.types@.contains_key(p)
    &&& reg.types@[p].path == p
    &&& reg.types@[p].category == ItemCategory::Extern
    &&& reg.types@[p].visibility == Visibility::Public
    &&& reg.types@[p].state is Resolved
    &&& attr_usize(a, "size"@, a.len() as int, Some(reg.types@[p].state->Resolved_0.size))
    &&& attr_usize(a, "align"@, a.len() as int, Some(reg.types@[p].state->Resolved_0.alignment))
}
pub open spec fn extern_types_registered(reg: &TypeRegistry, path: ItemPath, ets: Seq<(Ident, Attributes)>, k: int) -> bool {
    forall|j: int| 0 <= j < k ==> #[trigger] extern_type_registered(reg, path, ets[j])
}
/// nothing that was registered before is changed (no silent overwrite)
pub open spec fn registry_extends(old_reg: &TypeRegistry, new_reg: &TypeRegistry) -> bool {
    &&& new_reg.pointer_size == old_reg.pointer_size
    &&& forall|q: ItemPath| #![trigger new_reg.types@[q]] #![trigger new_reg.types@.contains_key(q)] old_reg.types@.contains_key(q) ==> new_reg.types@.contains_key(q) && new_reg.types@[q] == old_reg.types@[q]
}
pub broadcast group group_module_axioms { axiom_spec_segment, axiom_segment_ext }
}
verus!{
// ---------- resolution loop vocabulary (C10) ----------
pub open spec fn is_unresolved_item(reg: &TypeRegistry, p: ItemPath) -> bool {
    reg.types@.contains_key(p) && reg.types@[p].category != ItemCategory::Predefined && !(reg.types@[p].state is Resolved)
}
/// every registered, non-predefined item is resolved (a build never succeeds with a type left out)
pub open spec fn all_resolved(reg: &TypeRegistry) -> bool {
    forall|p: ItemPath| #![trigger reg.types@[p]] #![trigger reg.types@.contains_key(p)] reg.types@.contains_key(p) && reg.types@[p].category != ItemCategory::Predefined ==> reg.types@[p].state is Resolved
}
/// registered keys are never removed by a resolution attempt
pub open spec fn keys_kept(old_reg: &TypeRegistry, new_reg: &TypeRegistry) -> bool {
    forall|q: ItemPath| #![trigger new_reg.types@.contains_key(q)] old_reg.types@.contains_key(q) ==> new_reg.types@.contains_key(q)
}
}
verus!{
// ---------- what a resolution attempt may do to the modules (C05 C14 C15 C17 C10) ----------
/// module `b` is module `a` with, at most, more registered definition paths (a generated vftable item): the source,
/// the impl blocks, the extern values, the backend blocks and the doc are the ones `add_module` stored
pub open spec fn module_kept(a: crate::semantic::Module, b: crate::semantic::Module) -> bool {
    &&& b.path == a.path
    &&& b.ast == a.ast
    &&& b.extern_values == a.extern_values
    &&& b.impls == a.impls
    &&& b.backends == a.backends
    &&& b.doc == a.doc
    &&& a.definition_paths@.subset_of(b.definition_paths@)
}
/// no module is added or removed, and every module is kept in the sense of `module_kept`
pub open spec fn modules_frame(a: Map<ItemPath, crate::semantic::Module>, b: Map<ItemPath, crate::semantic::Module>) -> bool {
    &&& b.dom() == a.dom()
    &&& forall|k: ItemPath| #![trigger b[k]] a.contains_key(k) ==> module_kept(a[k], b[k])
}
pub proof fn lemma_modules_frame_trans(a: Map<ItemPath, crate::semantic::Module>, b: Map<ItemPath, crate::semantic::Module>, c: Map<ItemPath, crate::semantic::Module>)
    requires modules_frame(a, b), modules_frame(b, c),
    ensures modules_frame(a, c),
{
    assert forall|k: ItemPath| #![trigger c[k]] a.contains_key(k) implies module_kept(a[k], c[k]) by {
        assert(b.contains_key(k));
        assert(module_kept(a[k], b[k]));
        assert(module_kept(b[k], c[k]));
    }
}
/// an extern value after the resolution of the types (C15 "a mutable reference of type T", C10 "extern values are
/// resolved after all types"): name, visibility and address are kept, a still unresolved type becomes what the
/// scoping rules select for it in the scope of its module
pub open spec fn extern_value_resolved(reg: &TypeRegistry, scope: Seq<ItemPath>, before: ExternValue, after: ExternValue) -> bool {
    &&& after.visibility == before.visibility
    &&& after.name == before.name
    &&& after.address == before.address
    &&& match before.type_ {
            Type::Unresolved(t) => Some(after.type_) == spec_resolve_type(reg, scope, t),
            _ => after.type_ == before.type_,
        }
}
pub open spec fn extern_values_resolved(reg: &TypeRegistry, scope: Seq<ItemPath>, before: Seq<ExternValue>, after: Seq<ExternValue>, n: int) -> bool {
    &&& after.len() == before.len()
    &&& forall|i: int| 0 <= i < n ==> extern_value_resolved(reg, scope, before[i], #[trigger] after[i])
}
/// some extern value among the first n has a type that the scoping rules cannot resolve
pub open spec fn extern_value_unresolvable(reg: &TypeRegistry, scope: Seq<ItemPath>, evs: Seq<ExternValue>, n: int) -> bool {
    exists|i: int| 0 <= i < n && (#[trigger] evs[i]).type_ is Unresolved && spec_resolve_type(reg, scope, evs[i].type_->Unresolved_0) is None
}
pub open spec fn module_externs_resolved(reg: &TypeRegistry, a: crate::semantic::Module, b: crate::semantic::Module) -> bool {
    &&& b.path == a.path
    &&& b.ast == a.ast
    &&& b.impls == a.impls
    &&& b.backends == a.backends
    &&& b.doc == a.doc
    &&& b.definition_paths == a.definition_paths
    &&& extern_values_resolved(reg, module_scope(&a), a.extern_values@, b.extern_values@, a.extern_values@.len() as int)
}
/// the modules of the resolved state against the modules `add_module` stored, one predicate per thing the
/// back end reads from a module (`definitions()`, `extern_values`, `backends`, `doc()`): what is *not* read after
/// the build (path, source, impl blocks) is deliberately not demanded of the resolved state
pub open spec fn modules_defs_kept(a: Map<ItemPath, crate::semantic::Module>, b: Map<ItemPath, crate::semantic::Module>) -> bool {
    &&& b.dom() == a.dom()
    &&& forall|k: ItemPath| #![trigger b[k]] a.contains_key(k) ==> a[k].definition_paths@.subset_of(b[k].definition_paths@)
}
pub open spec fn modules_backends_kept(a: Map<ItemPath, crate::semantic::Module>, b: Map<ItemPath, crate::semantic::Module>) -> bool {
    forall|k: ItemPath| #![trigger b[k]] a.contains_key(k) ==> b[k].backends == a[k].backends
}
pub open spec fn modules_doc_kept(a: Map<ItemPath, crate::semantic::Module>, b: Map<ItemPath, crate::semantic::Module>) -> bool {
    forall|k: ItemPath| #![trigger b[k]] a.contains_key(k) ==> b[k].doc == a[k].doc
}
/// the extern values are the stored ones with their types resolved in the module's scope against the final registry
pub open spec fn modules_externs_built(reg: &TypeRegistry, a: Map<ItemPath, crate::semantic::Module>, b: Map<ItemPath, crate::semantic::Module>) -> bool {
    forall|k: ItemPath| #![trigger b[k]] a.contains_key(k) ==>
        extern_values_resolved(reg, module_scope(&a[k]), a[k].extern_values@, b[k].extern_values@, a[k].extern_values@.len() as int)
}
/// what the loop over `modules.values_mut()` does (contract of the trusted segment `build__externs`)
pub open spec fn modules_externs_resolved(reg: &TypeRegistry, a: Map<ItemPath, crate::semantic::Module>, b: Map<ItemPath, crate::semantic::Module>) -> bool {
    &&& b.dom() == a.dom()
    &&& forall|k: ItemPath| #![trigger b[k]] a.contains_key(k) ==> module_externs_resolved(reg, a[k], b[k])
}
}
