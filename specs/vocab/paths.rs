use vstd::prelude::*;
use crate::grammar::{self, ItemPath, ItemPathSegment};
use crate::semantic::types::*;
use crate::semantic::TypeRegistry;
#[allow(unused_imports)] use crate::verif_specs::*;
verus!{
// ---------- item paths ----------
/// `p.parent()`: the path without its last segment, `None` for the empty path
pub uninterp spec fn spec_parent(p: ItemPath) -> Option<ItemPath>;
/// `p.join(seg)`: the path extended by one segment
pub uninterp spec fn spec_join(p: ItemPath, seg: Seq<char>) -> ItemPath;
/// the empty (root) path
pub uninterp spec fn spec_empty_path() -> ItemPath;
/// sequence of segment texts of a path
pub open spec fn path_view(p: ItemPath) -> Seq<Seq<char>> { p.0@.map_values(|s: ItemPathSegment| s.0@) }

pub broadcast axiom fn axiom_spec_parent(p: ItemPath)
    ensures match #[trigger] spec_parent(p) {
        Some(q) => p.0@.len() > 0 && path_view(q) == path_view(p).drop_last(),
        None => p.0@.len() == 0,
    };
pub broadcast axiom fn axiom_spec_join(p: ItemPath, seg: Seq<char>)
    ensures path_view(#[trigger] spec_join(p, seg)) == path_view(p).push(seg);
pub broadcast axiom fn axiom_spec_empty()
    ensures #[trigger] path_view(spec_empty_path()) == Seq::<Seq<char>>::empty();
/// derived structural equality (A5): a path is determined by the texts of its segments
pub broadcast axiom fn axiom_path_ext(a: ItemPath, b: ItemPath)
    ensures #[trigger] path_view(a) == #[trigger] path_view(b) ==> a == b;

/// a path without segments is the root path
pub broadcast proof fn lemma_empty_path_unique(p: ItemPath)
    ensures #[trigger] p.0@.len() == 0 ==> p == spec_empty_path()
{
    if p.0@.len() == 0 {
        broadcast use axiom_spec_empty;
        assert(path_view(p) =~= path_view(spec_empty_path()));
        axiom_path_ext(p, spec_empty_path());
    }
}
pub broadcast group group_path_axioms {
    axiom_spec_parent, axiom_spec_join, axiom_spec_empty, axiom_path_ext, lemma_empty_path_unique,
}

/// the module an item path belongs to
pub open spec fn module_of(s: &crate::semantic::SemanticState, p: ItemPath) -> Option<crate::semantic::Module> {
    match spec_parent(p) {
        Some(q) => if s.modules@.contains_key(q) { Some(s.modules@[q]) } else { None },
        None => None,
    }
}

// ---------- name resolution (C11): spec_resolve_string is defined in resolve.rs ----------
/// mirror of `TypeRegistry::resolve_grammar_type`
pub open spec fn spec_resolve_type(reg: &TypeRegistry, scope: Seq<ItemPath>, t: grammar::Type) -> Option<Type>
    decreases t
{
    match t {
        grammar::Type::ConstPointer(inner) => match spec_resolve_type(reg, scope, *inner) { Some(x) => Some(Type::ConstPointer(Box::new(x))), None => None },
        grammar::Type::MutPointer(inner) => match spec_resolve_type(reg, scope, *inner) { Some(x) => Some(Type::MutPointer(Box::new(x))), None => None },
        grammar::Type::Array(inner, n) => match spec_resolve_type(reg, scope, *inner) { Some(x) => Some(Type::Array(Box::new(x), n)), None => None },
        grammar::Type::Ident(id) => spec_resolve_string(reg, scope, id.0@),
        grammar::Type::Unknown(n) => Some(pad_type(n as nat)),
    }
}
}
