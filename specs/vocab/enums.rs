use vstd::prelude::*;
use crate::grammar::{self, ItemPath, Attribute, Expr, EnumStatement};
use crate::semantic::types::*;
use crate::semantic::TypeRegistry;
#[allow(unused_imports)] use crate::verif_specs::*;
verus!{
// ---------- enum vocabulary (C08) ----------
/// value of variant k: the written value, else zero for the first variant, else predecessor + 1;
/// `None` = a value that is not an integer literal, or an implicit value that does not fit `isize`
pub open spec fn enum_value(stmts: Seq<EnumStatement>, k: int) -> Option<isize>
    decreases k
{
    if k < 0 { None } else {
        match stmts[k].expr {
            Some(Expr::IntLiteral(v)) => Some(v),
            Some(_) => None,
            None => if k == 0 { Some(0isize) } else {
                match enum_value(stmts, k - 1) {
                    Some(p) => if p + 1 <= isize::MAX { Some((p + 1) as isize) } else { None },
                    None => None,
                }
            },
        }
    }
}
pub open spec fn is_ident_attr(a: Attribute, name: Seq<char>) -> bool { a is Ident && a->Ident_0.0@ == name }
/// some attribute among the first k is the bare identifier `name`
pub open spec fn has_ident(attrs: Seq<Attribute>, name: Seq<char>, k: int) -> bool
    decreases k
{
    if k <= 0 { false } else { is_ident_attr(attrs[k - 1], name) || has_ident(attrs, name, k - 1) }
}
pub open spec fn stmt_is_default(s: EnumStatement) -> bool { has_ident(s.attributes.0@, "default"@, s.attributes.0@.len() as int) }

/// "represented as the declared integer base type": one of the built-in integer types
pub open spec fn is_int_base(base: Type) -> bool {
    match base {
        Type::Raw(p) => p.0@.len() == 1 && ({
            let n = p.0@[0].0@;
            n == "u8"@ || n == "u16"@ || n == "u32"@ || n == "u64"@ || n == "u128"@ || n == "i8"@ || n == "i16"@ || n == "i32"@ || n == "i64"@ || n == "i128"@
        }),
        _ => false,
    }
}
/// the last path segment is one of the signed integer names
pub open spec fn base_is_signed(base: Type) -> bool {
    base is Raw && base->Raw_0.0@.len() > 0 && ({
        let n = base->Raw_0.0@.last().0@;
        n == "i8"@ || n == "i16"@ || n == "i32"@ || n == "i64"@ || n == "i128"@
    })
}
pub open spec fn width_min(size: usize, signed: bool) -> int {
    if size == 1 { -0x80 } else if size == 2 { -0x8000 } else if size == 4 { -0x8000_0000 } else { i128::MIN as int }
}
pub open spec fn width_max(size: usize, signed: bool) -> int {
    if size == 1 { if signed { 0x7f } else { 0xff } } else if size == 2 { if signed { 0x7fff } else { 0xffff } }
    else if size == 4 { if signed { 0x7fff_ffff } else { 0xffff_ffff } } else { i128::MAX as int }
}
/// representable in `size` bytes: exactly the signed range for a signed base; for an unsigned base the unsigned range
/// and, below zero, the two's-complement spelling of a value (`-1` = all bits set; pinned by the suite's `can_resolve_enum`)
pub open spec fn fits_width(size: usize, signed: bool, v: isize) -> bool {
    if size == 1 { -0x80 <= v <= (if signed { 0x7fint } else { 0xffint }) }
    else if size == 2 { -0x8000 <= v <= (if signed { 0x7fffint } else { 0xffffint }) }
    else if size == 4 { -0x8000_0000 <= v <= (if signed { 0x7fff_ffffint } else { 0xffff_ffffint }) }
    else { true }
}
/// range of the built-in integer types (Rust reference); any other base type: no constraint stated
pub open spec fn fits_base(base: Type, v: isize) -> bool {
    match base {
        Type::Raw(p) => if p.0@.len() != 1 { true } else {
            let n = p.0@[0].0@;
            if n == "u8"@ { 0 <= v <= 0xff }
            else if n == "u16"@ { 0 <= v <= 0xffff }
            else if n == "u32"@ { 0 <= v <= 0xffff_ffff }
            else if n == "u64"@ || n == "u128"@ { 0 <= v }
            else if n == "i8"@ { -0x80 <= v <= 0x7f }
            else if n == "i16"@ { -0x8000 <= v <= 0x7fff }
            else if n == "i32"@ { -0x8000_0000 <= v <= 0x7fff_ffff }
            else { true }
        },
        _ => true,
    }
}
// ---------- documentation (C17) ----------
/// the text of a documentation line: `#[doc = "text"]` (what the parser makes of `/// text`)
pub open spec fn doc_line(a: Attribute) -> Option<Seq<char>> {
    match a {
        Attribute::Assign(key, Expr::StringLiteral(v)) => if key.0@ == "doc"@ { Some(v@) } else { None },
        _ => None,
    }
}
/// a `doc` attribute whose value is not a string literal (rejected)
pub open spec fn doc_bad(a: Attribute) -> bool {
    a is Assign && a->Assign_0.0@ == "doc"@ && !(a->Assign_1 is StringLiteral)
}
/// the documentation lines among the first n attributes, in order, one per line ("line for line and in order"):
/// no line -> None; otherwise the lines separated by a newline
pub open spec fn spec_doc_upto(attrs: Seq<Attribute>, n: int) -> Option<Seq<char>>
    decreases n
{
    if n <= 0 { None } else {
        let prev = spec_doc_upto(attrs, n - 1);
        match doc_line(attrs[n - 1]) {
            Some(v) => Some(match prev { Some(d) => d + seq!['\n'] + v, None => v }),
            None => prev,
        }
    }
}
pub open spec fn spec_doc(attrs: Seq<Attribute>) -> Option<Seq<char>> { spec_doc_upto(attrs, attrs.len() as int) }
pub open spec fn opt_string_view(o: Option<String>) -> Option<Seq<char>> { match o { Some(s) => Some(s@), None => None } }
}
