use vstd::prelude::*;
use crate::grammar::{self, ItemPath, Attribute, Expr};
use crate::semantic::types::*;
use crate::semantic::types::Visibility;
use crate::semantic::TypeRegistry;
#[allow(unused_imports)] use crate::verif_specs::*;
verus!{
// ---------- attribute vocabulary ----------
/// value of the last attribute `name(<integer literal>)` among the first k attributes
pub open spec fn attr_int(attrs: Seq<Attribute>, name: Seq<char>, k: int) -> Option<isize>
    decreases k
{
    if k <= 0 { None } else {
        if is_int_attr(attrs[k - 1], name) { Some(attrs[k - 1]->Function_1@[0]->IntLiteral_0) } else { attr_int(attrs, name, k - 1) }
    }
}
pub open spec fn is_int_attr(a: Attribute, name: Seq<char>) -> bool {
    a is Function && a->Function_0.0@ == name && a->Function_1@.len() == 1 && a->Function_1@[0] is IntLiteral
}
pub open spec fn is_str_attr(a: Attribute, name: Seq<char>) -> bool {
    a is Function && a->Function_0.0@ == name && a->Function_1@.len() == 1 && a->Function_1@[0] is StringLiteral
}
/// value of the last attribute `name("<string literal>")` among the first k attributes
pub open spec fn attr_str(attrs: Seq<Attribute>, name: Seq<char>, k: int) -> Option<String>
    decreases k
{
    if k <= 0 { None } else {
        if is_str_attr(attrs[k - 1], name) { Some(attrs[k - 1]->Function_1@[0]->StringLiteral_0) } else { attr_str(attrs, name, k - 1) }
    }
}
/// some attribute among the first k is `name(..)` with any arguments
pub open spec fn has_fn_attr(attrs: Seq<Attribute>, name: Seq<char>, k: int) -> bool {
    exists|i: int| 0 <= i < k && (#[trigger] attrs[i]) is Function && attrs[i]->Function_0.0@ == name
}
/// some attribute among the first k is the bare identifier `name`
pub open spec fn has_ident_attr(attrs: Seq<Attribute>, name: Seq<char>, k: int) -> bool {
    exists|i: int| 0 <= i < k && (#[trigger] attrs[i]) is Ident && attrs[i]->Ident_0.0@ == name
}

// ---------- vftable slot vocabulary (C04) ----------
/// `s.strip_prefix(p).unwrap_or(s)`: the text after `p` when `s` starts with `p`, else `s`
pub open spec fn spec_strip_prefix(s: Seq<char>, p: Seq<char>) -> Seq<char> {
    if s.len() >= p.len() && s.subrange(0, p.len() as int) == p { s.subrange(p.len() as int, s.len() as int) } else { s }
}
/// `name.starts_with("_")` (str prefix tests have no vstd model; trusted one-liner `Function::is_internal`)
pub uninterp spec fn spec_name_is_internal(name: Seq<char>) -> bool;
pub uninterp spec fn spec_fmt1(lit: Seq<char>, a: Seq<char>) -> Seq<char>;
pub uninterp spec fn spec_fmt2(lit: Seq<char>, a: Seq<char>, b: Seq<char>) -> Seq<char>;
pub uninterp spec fn spec_display_usize(n: usize) -> Seq<char>;
pub open spec fn spec_vfunc_name(n: nat) -> Seq<char> { spec_fmt1("_vfunc_{}"@, spec_display_usize(n as usize)) }

pub open spec fn is_placeholder(f: Function, n: nat) -> bool {
    &&& f.visibility == Visibility::Private
    &&& f.name@ == spec_vfunc_name(n)
    &&& f.doc is None
    &&& f.arguments@ == seq![Argument::MutSelf]
    &&& f.return_type is None
    &&& f.body is Vftable && f.body->Vftable_function_name@ == spec_vfunc_name(n)
    &&& f.calling_convention == CallingConvention::Thiscall
}
/// `out` is `base` followed by placeholders up to `target` slots (no-op when already long enough)
pub open spec fn padded_to(base: Seq<Function>, out: Seq<Function>, target: nat) -> bool {
    &&& out.len() == (if base.len() >= target { base.len() } else { target })
    &&& forall|i: int| 0 <= i < base.len() ==> out[i] == base[i]
    &&& forall|i: int| base.len() <= i < out.len() ==> is_placeholder(#[trigger] out[i], i as nat)
}
/// declared slot index of a vftable function: the last `index(<int>)` attribute
pub open spec fn fn_index(f: grammar::Function) -> Option<isize> {
    attr_int(f.attributes.0@, "index"@, f.attributes.0@.len() as int)
}
/// number of slots after placing the first k functions; `None` = a declared index is negative or
/// lies below the slots already occupied (the description contradicts itself)
pub open spec fn slot_end(fns: Seq<grammar::Function>, k: int) -> Option<nat>
    decreases k
{
    if k <= 0 { Some(0nat) } else {
        match slot_end(fns, k - 1) {
            None => None,
            Some(e) => match fn_index(fns[k - 1]) {
                Some(i) => if i < 0 || (i as nat) < e { None } else { Some((i + 1) as nat) },
                None => Some(e + 1),
            },
        }
    }
}
/// slot of the k-th function
pub open spec fn slot_pos(fns: Seq<grammar::Function>, k: int) -> int {
    slot_end(fns, k + 1)->0 - 1
}
/// total number of slots: at least the declared size; `None` if the declared size is too small
pub open spec fn slots_total(fns: Seq<grammar::Function>, size: Option<usize>) -> Option<nat> {
    match slot_end(fns, fns.len() as int) {
        None => None,
        Some(e) => match size { Some(s) => if (s as nat) < e { None } else { Some(s as nat) }, None => Some(e) },
    }
}
/// the lookup scope of a module: its own path followed by its `use`s in order (C11)
pub open spec fn module_scope(m: &crate::semantic::Module) -> Seq<ItemPath> { seq![m.path] + m.ast.uses@ }

/// the slot table of C04: function k sits in slot_pos(k) and is the semantic image of declaration k,
/// every slot between two functions and after the last one is a placeholder `_vfunc_<slot>`
pub open spec fn slots_ok(reg: &TypeRegistry, scope: Seq<ItemPath>, fns: Seq<grammar::Function>, k: int, out: Seq<Function>) -> bool {
    &&& slot_end(fns, k) == Some(out.len())
    &&& forall|j: int| 0 <= j < k ==> 0 <= #[trigger] slot_pos(fns, j) < out.len() && fn_built(reg, scope, true, fns[j], out[slot_pos(fns, j)])
    &&& forall|j: int, s: int| #![trigger slot_pos(fns, j), out[s]] 0 <= j < k && slot_end(fns, j)->0 <= s < slot_pos(fns, j) ==> is_placeholder(out[s], s as nat)
}
}
verus!{
// ---------- function vocabulary (C05 C16 C17) ----------
pub open spec fn spec_cc_from_str(s: Seq<char>) -> Option<CallingConvention> {
    if s == "C"@ { Some(CallingConvention::C) }
    else if s == "cdecl"@ { Some(CallingConvention::Cdecl) }
    else if s == "stdcall"@ { Some(CallingConvention::Stdcall) }
    else if s == "fastcall"@ { Some(CallingConvention::Fastcall) }
    else if s == "thiscall"@ { Some(CallingConvention::Thiscall) }
    else if s == "vectorcall"@ { Some(CallingConvention::Vectorcall) }
    else if s == "system"@ { Some(CallingConvention::System) }
    else { None }
}
pub open spec fn spec_cc_as_str(c: CallingConvention) -> Seq<char> {
    match c {
        CallingConvention::C => "C"@,
        CallingConvention::Cdecl => "cdecl"@,
        CallingConvention::Stdcall => "stdcall"@,
        CallingConvention::Fastcall => "fastcall"@,
        CallingConvention::Thiscall => "thiscall"@,
        CallingConvention::Vectorcall => "vectorcall"@,
        CallingConvention::System => "system"@,
    }
}
/// documented default: thiscall with a receiver, system without
pub open spec fn default_cc(has_self: bool) -> CallingConvention {
    if has_self { CallingConvention::Thiscall } else { CallingConvention::System }
}
pub open spec fn arg_is_self(a: Argument) -> bool { a is ConstSelf || a is MutSelf }
pub open spec fn has_self(args: Seq<Argument>) -> bool { exists|i: int| 0 <= i < args.len() && arg_is_self(#[trigger] args[i]) }
pub open spec fn vis_of(v: grammar::Visibility) -> Visibility {
    match v { grammar::Visibility::Public => Visibility::Public, grammar::Visibility::Private => Visibility::Private }
}
/// argument k of the semantic function is declaration k: receivers keep their kind, a named argument keeps
/// its name and gets the type its written type resolves to
pub open spec fn arg_built(reg: &TypeRegistry, scope: Seq<ItemPath>, ga: grammar::Argument, a: Argument) -> bool {
    match ga {
        grammar::Argument::ConstSelf => a == Argument::ConstSelf,
        grammar::Argument::MutSelf => a == Argument::MutSelf,
        grammar::Argument::Named(n, t) => a is Field && a->Field_0 == n.0 && Some(a->Field_1) == spec_resolve_type(reg, scope, t),
    }
}
/// some attribute among the first k is `name(..)` with any arguments
pub open spec fn has_fn(attrs: Seq<Attribute>, name: Seq<char>, k: int) -> bool
    decreases k
{
    if k <= 0 { false } else { (attrs[k - 1] is Function && attrs[k - 1]->Function_0.0@ == name) || has_fn(attrs, name, k - 1) }
}
/// the semantic image of a declared function (C05: address, arguments in order, return type; C16: convention;
/// C17: visibility, doc)
pub open spec fn fn_built(reg: &TypeRegistry, scope: Seq<ItemPath>, is_vfunc: bool, gf: grammar::Function, out: Function) -> bool {
    let attrs = gf.attributes.0@;
    let n = attrs.len() as int;
    &&& out.visibility == vis_of(gf.visibility)
    &&& out.name == gf.name.0
    &&& opt_string_view(out.doc) == spec_doc(attrs)
    &&& (match attr_int(attrs, "address"@, n) {
            Some(a) => !is_vfunc && a >= 0 && out.body == (FunctionBody::Address { address: a as usize }),
            None => is_vfunc && out.body == (FunctionBody::Vftable { function_name: gf.name.0 }),
        })
    &&& (has_fn(attrs, "index"@, n) ==> is_vfunc)
    &&& out.arguments@.len() == gf.arguments@.len()
    &&& (forall|i: int| 0 <= i < gf.arguments@.len() ==> arg_built(reg, scope, gf.arguments@[i], #[trigger] out.arguments@[i]))
    &&& (match gf.return_type { None => out.return_type is None, Some(t) => out.return_type is Some && out.return_type == spec_resolve_type(reg, scope, t) })
    &&& (match attr_str(attrs, "calling_convention"@, n) {
            Some(s) => Some(out.calling_convention) == spec_cc_from_str(s@),
            None => out.calling_convention == default_cc(has_self(out.arguments@)),
        })
}
}
