use vstd::prelude::*;
#[allow(unused_imports)] use crate::verif_specs::*;
verus!{
// ---------- gcd / lcm arithmetic (C03 C12) ----------
pub open spec fn divides(d: nat, n: nat) -> bool { d > 0 && n % d == 0 }
pub open spec fn common_divisor(d: nat, a: nat, b: nat) -> bool { divides(d, a) && divides(d, b) }
/// one step of Euclid's algorithm keeps the set of common divisors
pub proof fn lemma_euclid_step(a: nat, b: nat, d: nat)
    requires b > 0, d > 0
    ensures common_divisor(d, a, b) <==> common_divisor(d, b, a % b)
{
    let q = a / b; let r = a % b;
    assert(a == b * q + r) by { vstd::arithmetic::div_mod::lemma_fundamental_div_mod(a as int, b as int); }
    if b % d == 0 {
        let k = b / d;
        assert(b == d * k) by { vstd::arithmetic::div_mod::lemma_fundamental_div_mod(b as int, d as int); }
        assert(b * q == d * (k * q)) by (nonlinear_arith) requires b == d * k;
        // a = d*(k*q) + r  =>  a % d == r % d
        assert((d * (k * q) + r) % d == r % d) by {
            vstd::arithmetic::div_mod::lemma_mod_multiples_vanish((k * q) as int, r as int, d as int);
        }
    }
}
pub proof fn lemma_divisor_le(d: nat, n: nat)
    requires divides(d, n), n > 0
    ensures d <= n
{
    if d > n { vstd::arithmetic::div_mod::lemma_small_mod(n, d); }
}
pub proof fn lemma_div_exact(n: nat, d: nat)
    requires divides(d, n)
    ensures (n / d) * d == n
{
    vstd::arithmetic::div_mod::lemma_fundamental_div_mod(n as int, d as int);
    assert((n / d) * d == d * (n / d)) by (nonlinear_arith);
}
/// (acc / g) * x is at least acc and at least x when g divides both and both are positive
pub proof fn lemma_lcm_step_bounds(acc: nat, x: nat, g: nat)
    requires acc > 0, x > 0, divides(g, acc), divides(g, x)
    ensures (acc / g) * x >= acc, (acc / g) * x >= x, (acc / g) * x > 0
{
    lemma_divisor_le(g, acc);
    lemma_divisor_le(g, x);
    lemma_div_exact(acc, g);
    let q = acc / g;
    assert(q >= 1) by { if q == 0 { assert(q * g == 0) by (nonlinear_arith) requires q == 0; } }
    assert(q * x >= q * g) by (nonlinear_arith) requires x >= g;
    assert(q * x >= x) by (nonlinear_arith) requires q >= 1;
}

/// (acc / g) * x is a common multiple of acc and x when g divides both
pub proof fn lemma_lcm_step_multiple(acc: nat, x: nat, g: nat)
    requires acc > 0, x > 0, divides(g, acc), divides(g, x)
    ensures ((acc / g) * x) % acc == 0, ((acc / g) * x) % x == 0
{
    lemma_div_exact(acc, g);
    lemma_div_exact(x, g);
    let q = acc / g; let p = x / g;
    assert(q * x == acc * p) by (nonlinear_arith) requires q * g == acc, p * g == x;
    assert((acc * p) % acc == 0) by { vstd::arithmetic::div_mod::lemma_mod_multiples_basic(p as int, acc as int); assert(p * acc == acc * p) by (nonlinear_arith); }
    assert((q * x) % x == 0) by { vstd::arithmetic::div_mod::lemma_mod_multiples_basic(q as int, x as int); }
}
}
verus!{
// ---------- mathematical gcd / lcm fold (the exec functions are proved equal to these) ----------
pub open spec fn spec_gcd(a: nat, b: nat) -> nat
    decreases b
{
    if b == 0 { a } else { spec_gcd(b, a % b) }
}
pub open spec fn spec_lcm_step(acc: usize, x: usize) -> Option<usize> {
    if acc == 0 || x == 0 { Some(0usize) } else {
        let m = (acc as nat / spec_gcd(acc as nat, x as nat)) * (x as nat);
        if m <= usize::MAX { Some(m as usize) } else { None }
    }
}
/// `util::lcm` over the present values among the first k (`flat_map` skips `None`): a `try_fold` from 1
pub open spec fn lcm_fold(vals: Seq<Option<usize>>, k: int) -> Option<usize>
    decreases k
{
    if k <= 0 { Some(1usize) } else {
        match lcm_fold(vals, k - 1) {
            None => None,
            Some(acc) => match vals[k - 1] { Some(x) => spec_lcm_step(acc, x), None => Some(acc) },
        }
    }
}
pub proof fn lemma_spec_gcd_divides(a: nat, b: nat)
    requires a > 0 || b > 0
    ensures spec_gcd(a, b) > 0, common_divisor(spec_gcd(a, b), a, b)
    decreases b
{
    if b == 0 {
        assert(a % a == 0) by (nonlinear_arith) requires a > 0;
        assert(0nat % a == 0) by (nonlinear_arith) requires a > 0;
    } else {
        lemma_spec_gcd_divides(b, a % b);
        lemma_euclid_step(a, b, spec_gcd(b, a % b));
    }
}
pub proof fn lemma_spec_gcd_of_divisor(a: nat, b: nat)
    requires a > 0, b > 0, b % a == 0
    ensures spec_gcd(a, b) == a, spec_gcd(b, a) == a
{
    reveal_with_fuel(spec_gcd, 4);
    assert(spec_gcd(b, a) == spec_gcd(a, b % a));
    assert(a <= b) by { if a > b { vstd::arithmetic::div_mod::lemma_small_mod(b, a); } }
    if a < b {
        vstd::arithmetic::div_mod::lemma_small_mod(a, b);
        assert(spec_gcd(a, b) == spec_gcd(b, a));
    } else {
        assert(a % b == 0) by (nonlinear_arith) requires a == b, b > 0;
    }
}
/// the step never decreases: the new value is at least both operands (when they are positive)
pub proof fn lemma_spec_lcm_step_bounds(acc: usize, x: usize)
    requires acc != 0, x != 0, spec_lcm_step(acc, x) is Some
    ensures spec_lcm_step(acc, x)->0 >= acc, spec_lcm_step(acc, x)->0 >= x
{
    lemma_spec_gcd_divides(acc as nat, x as nat);
    lemma_lcm_step_bounds(acc as nat, x as nat, spec_gcd(acc as nat, x as nat));
}
/// when one operand divides the other the step returns the larger one (the case of power-of-two alignments)
pub proof fn lemma_spec_lcm_step_chain(acc: usize, x: usize)
    requires acc != 0, x != 0, (x % acc == 0 || acc % x == 0)
    ensures spec_lcm_step(acc, x) == Some(if x % acc == 0 { x } else { acc })
{
    if x % acc == 0 {
        lemma_spec_gcd_of_divisor(acc as nat, x as nat);
        assert((acc as nat / acc as nat) == 1) by (nonlinear_arith) requires acc != 0;
        assert(1 * (x as nat) == x as nat) by (nonlinear_arith);
    } else {
        lemma_spec_gcd_of_divisor(x as nat, acc as nat);
        lemma_div_exact(acc as nat, x as nat);
    }
}
pub proof fn lemma_lcm_fold_ge(vals: Seq<Option<usize>>, k: int)
    requires 0 <= k <= vals.len(), lcm_fold(vals, k) is Some, lcm_fold(vals, k)->0 != 0
    ensures forall|i: int| 0 <= i < k && (#[trigger] vals[i]) is Some && vals[i]->0 != 0 ==> vals[i]->0 <= lcm_fold(vals, k)->0
    decreases k
{
    if k > 0 {
        let acc = lcm_fold(vals, k - 1)->0;
        match vals[k - 1] {
            Some(x) => {
                if acc != 0 && x != 0 {
                    lemma_spec_lcm_step_bounds(acc, x);
                    lemma_lcm_fold_ge(vals, k - 1);
                }
            },
            None => { lemma_lcm_fold_ge(vals, k - 1); },
        }
    }
}
pub proof fn lemma_lcm_fold_zero(vals: Seq<Option<usize>>, k: int)
    requires 0 <= k <= vals.len(), lcm_fold(vals, k) == Some(0usize)
    ensures exists|i: int| 0 <= i < k && #[trigger] vals[i] == Some(0usize)
    decreases k
{
    if k > 0 {
        let acc = lcm_fold(vals, k - 1)->0;
        match vals[k - 1] {
            Some(x) => {
                if x == 0 { assert(vals[k - 1] == Some(0usize)); }
                else if acc == 0 { lemma_lcm_fold_zero(vals, k - 1); }
                else { lemma_spec_lcm_step_bounds(acc, x); }
            },
            None => { lemma_lcm_fold_zero(vals, k - 1); },
        }
    }
}

pub proof fn lemma_lcm_fold_none_stable(vals: Seq<Option<usize>>, k: int, n: int)
    requires 0 <= k <= n <= vals.len(), lcm_fold(vals, k) is None
    ensures lcm_fold(vals, n) is None
    decreases n - k
{
    if k < n { lemma_lcm_fold_none_stable(vals, k, n - 1); }
}
}
verus!{
// ---------- powers of two (the alignments of the C03 domain) ----------
pub open spec fn pow2(n: nat) -> bool
    decreases n
{
    if n == 0 { false } else if n == 1 { true } else { n % 2 == 0 && pow2(n / 2) }
}
/// two powers of two: the smaller divides the larger
pub proof fn lemma_pow2_chain(a: nat, b: nat)
    requires pow2(a), pow2(b), a <= b
    ensures b % a == 0
    decreases a
{
    if a == 1 {
        assert(b % 1 == 0) by (nonlinear_arith);
    } else {
        // a even, a/2 a power of two; b >= a >= 2 so b is even too
        assert(b != 1);
        lemma_pow2_chain(a / 2, b / 2);
        let x = b / 2; let y = a / 2;
        assert(b == 2 * x && a == 2 * y) by (nonlinear_arith) requires b % 2 == 0, a % 2 == 0, x == b / 2, y == a / 2;
        vstd::arithmetic::div_mod::lemma_fundamental_div_mod(x as int, y as int);
        let k = x / y;
        assert(x == y * k);
        assert(b == a * k) by (nonlinear_arith) requires b == 2 * x, a == 2 * y, x == y * k;
        vstd::arithmetic::div_mod::lemma_mod_multiples_basic(k as int, a as int);
        assert(k * a == a * k) by (nonlinear_arith);
    }
}
pub open spec fn all_pow2(vals: Seq<Option<usize>>) -> bool {
    forall|i: int| 0 <= i < vals.len() ==> (#[trigger] vals[i]) is Some && pow2(vals[i]->0 as nat)
}
pub open spec fn all_le(vals: Seq<Option<usize>>, k: int, bound: usize) -> bool {
    forall|i: int| 0 <= i < k ==> (#[trigger] vals[i]) is Some && vals[i]->0 <= bound
}
/// for power-of-two values the least common multiple is the largest value (1 for none): it never overflows,
/// it is a power of two, and "lcm <= A" says exactly "every value <= A"
pub proof fn lemma_lcm_fold_pow2(vals: Seq<Option<usize>>, k: int)
    requires 0 <= k <= vals.len(), all_pow2(vals)
    ensures
        lcm_fold(vals, k) is Some,
        pow2(lcm_fold(vals, k)->0 as nat),
        forall|bound: usize| bound >= 1 ==> (#[trigger] all_le(vals, k, bound) <==> lcm_fold(vals, k)->0 <= bound),
    decreases k
{
    if k > 0 {
        lemma_lcm_fold_pow2(vals, k - 1);
        let acc = lcm_fold(vals, k - 1)->0;
        let x = vals[k - 1]->0;
        assert(vals[k - 1] is Some && pow2(x as nat));
        if acc <= x { lemma_pow2_chain(acc as nat, x as nat); } else { lemma_pow2_chain(x as nat, acc as nat); }
        lemma_spec_lcm_step_chain(acc, x);
        let m = lcm_fold(vals, k)->0;
        assert(m == (if x % acc == 0 { x } else { acc }));
        assert forall|bound: usize| bound >= 1 implies (#[trigger] all_le(vals, k, bound) <==> m <= bound) by {
            assert(all_le(vals, k - 1, bound) <==> acc <= bound);
            if all_le(vals, k, bound) {
                assert(vals[k - 1]->0 <= bound);
                assert forall|i: int| 0 <= i < k - 1 implies (#[trigger] vals[i]) is Some && vals[i]->0 <= bound by {}
            }
            if m <= bound {
                assert(acc <= m && x <= m) by {
                    if x % acc == 0 { lemma_divisor_le(acc as nat, x as nat); } else { lemma_divisor_le(x as nat, acc as nat); }
                }
                assert forall|i: int| 0 <= i < k implies (#[trigger] vals[i]) is Some && vals[i]->0 <= bound by {
                    if i < k - 1 { assert(all_le(vals, k - 1, bound)); }
                }
            }
        }
    } else {
        assert forall|bound: usize| bound >= 1 implies (#[trigger] all_le(vals, 0, bound) <==> 1usize <= bound) by {}
    }
}
}
