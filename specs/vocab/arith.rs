use vstd::prelude::*;
#[allow(unused_imports)] use crate::verif_specs::*;
verus!{
// ---------- gcd / lcm arithmetic (C03 C12) ----------
pub open spec fn divides(d: nat, n: nat) -> bool { d > 0 && n % d == 0 }
pub open spec fn common_divisor(d: nat, a: nat, b: nat) -> bool { divides(d, a) && divides(d, b) }
/// one step of Euclid's algorithm keeps the set of common divisors
pub proof fn lemma_euclid_step(a: nat, b: nat, d: nat)
    requires b > 0, d > 0
    ensures common_divisor(d, a, b) <==> common_divisor(d, b, a % b)
{
    let q = a / b; let r = a % b;
    assert(a == b * q + r) by { vstd::arithmetic::div_mod::lemma_fundamental_div_mod(a as int, b as int); }
    if b % d == 0 {
        let k = b / d;
        assert(b == d * k) by { vstd::arithmetic::div_mod::lemma_fundamental_div_mod(b as int, d as int); }
        assert(b * q == d * (k * q)) by (nonlinear_arith) requires b == d * k;
        // a = d*(k*q) + r  =>  a % d == r % d
        assert((d * (k * q) + r) % d == r % d) by {
            vstd::arithmetic::div_mod::lemma_mod_multiples_vanish((k * q) as int, r as int, d as int);
        }
    }
}
pub proof fn lemma_divisor_le(d: nat, n: nat)
    requires divides(d, n), n > 0
    ensures d <= n
{
    if d > n { vstd::arithmetic::div_mod::lemma_small_mod(n, d); }
}
pub proof fn lemma_div_exact(n: nat, d: nat)
    requires divides(d, n)
    ensures (n / d) * d == n
{
    vstd::arithmetic::div_mod::lemma_fundamental_div_mod(n as int, d as int);
    assert((n / d) * d == d * (n / d)) by (nonlinear_arith);
}
/// (acc / g) * x is at least acc and at least x when g divides both and both are positive
pub proof fn lemma_lcm_step_bounds(acc: nat, x: nat, g: nat)
    requires acc > 0, x > 0, divides(g, acc), divides(g, x)
    ensures (acc / g) * x >= acc, (acc / g) * x >= x, (acc / g) * x > 0
{
    lemma_divisor_le(g, acc);
    lemma_divisor_le(g, x);
    lemma_div_exact(acc, g);
    let q = acc / g;
    assert(q >= 1) by { if q == 0 { assert(q * g == 0) by (nonlinear_arith) requires q == 0; } }
    assert(q * x >= q * g) by (nonlinear_arith) requires x >= g;
    assert(q * x >= x) by (nonlinear_arith) requires q >= 1;
}

/// (acc / g) * x is a common multiple of acc and x when g divides both
pub proof fn lemma_lcm_step_multiple(acc: nat, x: nat, g: nat)
    requires acc > 0, x > 0, divides(g, acc), divides(g, x)
    ensures ((acc / g) * x) % acc == 0, ((acc / g) * x) % x == 0
{
    lemma_div_exact(acc, g);
    lemma_div_exact(x, g);
    let q = acc / g; let p = x / g;
    assert(q * x == acc * p) by (nonlinear_arith) requires q * g == acc, p * g == x;
    assert((acc * p) % acc == 0) by { vstd::arithmetic::div_mod::lemma_mod_multiples_basic(p as int, acc as int); assert(p * acc == acc * p) by (nonlinear_arith); }
    assert((q * x) % x == 0) by { vstd::arithmetic::div_mod::lemma_mod_multiples_basic(q as int, x as int); }
}
}
