use vstd::prelude::*;
use crate::grammar::{self, ItemPath, Attribute, Expr, TypeStatement};
use crate::semantic::types::*;
use crate::semantic::types::Visibility;
use crate::semantic::TypeRegistry;
#[allow(unused_imports)] use crate::verif_specs::*;
verus!{
// ---------- type definition vocabulary (C01 C02 C03 C15 C17) ----------
/// `v` is the value of the last `name(<int>)` attribute among the first k, converted to usize;
/// a negative value is not representable (the description is rejected)
pub open spec fn attr_usize(attrs: Seq<Attribute>, name: Seq<char>, k: int, v: Option<usize>) -> bool {
    match attr_int(attrs, name, k) { Some(x) => x >= 0 && v == Some(x as usize), None => v is None }
}
/// the pending region of a declared field: its address attribute, visibility, name (`_` = unnamed), doc,
/// resolved type and base marker
pub open spec fn field_region(reg: &TypeRegistry, scope: Seq<ItemPath>, st: TypeStatement, r: (Option<usize>, Region)) -> bool {
    &&& st.field is Field
    &&& attr_usize(st.attributes.0@, "address"@, st.attributes.0@.len() as int, r.0)
    &&& r.1.visibility == vis_of(st.field->Field_0)
    &&& (if st.field->Field_1.0@ == "_"@ { r.1.name is None } else { r.1.name == Some(st.field->Field_1.0) })
    &&& opt_string_view(r.1.doc) == spec_doc(st.attributes.0@)
    &&& Some(r.1.type_ref) == spec_resolve_type(reg, scope, st.field->Field_2)
    &&& r.1.is_base == has_ident(st.attributes.0@, "base"@, st.attributes.0@.len() as int)
}
pub open spec fn first_is_vftable(stmts: Seq<TypeStatement>) -> bool { stmts.len() > 0 && stmts[0].field is Vftable }
/// index of the first field statement
pub open spec fn field_off(stmts: Seq<TypeStatement>) -> int { if first_is_vftable(stmts) { 1 } else { 0 } }
/// the pending regions are the field statements among the first k statements, in order
pub open spec fn fields_built(reg: &TypeRegistry, scope: Seq<ItemPath>, stmts: Seq<TypeStatement>, k: int, pending: Seq<(Option<usize>, Region)>) -> bool {
    let off = if k > 0 { field_off(stmts) } else { 0 };
    &&& pending.len() == k - off
    &&& forall|j: int| off <= j < k ==> field_region(reg, scope, #[trigger] stmts[j], pending[j - off])
}
/// power of two (Rust reference: alignments are powers of two)
pub open spec fn is_pow2(n: nat) -> bool { pow2(n) }
/// every region's type has a known, non-zero alignment that divides its offset (repr(C) then adds no padding)
pub open spec fn offsets_aligned_upto(rs: Seq<Region>, n: int, reg: &TypeRegistry) -> bool {
    forall|i: int| 0 <= i < n ==> ty_align(#[trigger] rs[i].type_ref, reg) is Some
        && off_aligned(offset_of(rs, i, reg), ty_align(rs[i].type_ref, reg)->0)
}
/// `off` is a multiple of the non-zero alignment `a` (opaque: keeps `%` out of quantified invariants)
#[verifier::opaque]
pub open spec fn off_aligned(off: nat, a: usize) -> bool { a > 0 && off % (a as nat) == 0 }
pub proof fn lemma_off_aligned(off: usize, a: usize)
    requires a > 0, off % a == 0
    ensures off_aligned(off as nat, a)
{ reveal(off_aligned); }
pub proof fn lemma_off_aligned_pos(off: nat, a: usize)
    requires off_aligned(off, a)
    ensures a > 0, off % (a as nat) == 0
{ reveal(off_aligned); }
pub open spec fn aligns_le(rs: Seq<Region>, a: usize, reg: &TypeRegistry) -> bool {
    forall|i: int| 0 <= i < rs.len() ==> ty_align(#[trigger] rs[i].type_ref, reg) is Some && ty_align(rs[i].type_ref, reg)->0 <= a
}
/// the alignment pyxis settles on when nothing is rejected (explicit / sole field / pointer size; packed = 1)
pub open spec fn chosen_alignment(packed: bool, align: Option<usize>, rs: Seq<Region>, reg: &TypeRegistry) -> usize {
    if packed { 1usize } else {
        match align {
            Some(a) => a,
            None => if rs.len() == 1 && ty_align(rs[0].type_ref, reg) is Some { ty_align(rs[0].type_ref, reg)->0 } else { reg.pointer_size },
        }
    }
}
pub proof fn lemma_sized_aligned(t: Type, reg: &TypeRegistry)
    requires ty_size(t, reg) is Some
    ensures ty_align(t, reg) is Some
    decreases t
{
    match t {
        Type::Array(tr, n) => { lemma_sized_aligned(*tr, reg); }
        _ => {}
    }
}

/// C01 as a statement about one accepted type: some list of pending regions is the image of the declared
/// fields (names, addresses, resolved types) and every one of them is placed in `out` at its declared address
/// (or directly after its predecessor), see `placement_exists`
pub open spec fn declared_fields_placed(reg0: &TypeRegistry, scope: Seq<ItemPath>, stmts: Seq<TypeStatement>, out: Seq<Region>, reg: &TypeRegistry) -> bool {
    exists|pending: Seq<(Option<usize>, Region)>| #![trigger placement_exists(pending, out, reg)]
        fields_built(reg0, scope, stmts, stmts.len() as int, pending) && placement_exists(pending, out, reg)
}

/// C06 for one accepted type: the vftable recorded for it is the one prescribed for its own vftable block
/// (present iff the description starts with one) and the first `#[base]` among its declared fields
pub open spec fn build_vftable_ok(reg0: &TypeRegistry, scope: Seq<ItemPath>, stmts: Seq<TypeStatement>, reg: &TypeRegistry, p: ItemPath,
                                  vft: Option<TypeVftable>, out: Seq<Region>) -> bool {
    exists|pending: Seq<(Option<usize>, Region)>, own: Option<Vec<Function>>| #![trigger vftable_of_first_base(reg, p, pending, own, vft, out)]
        fields_built(reg0, scope, stmts, stmts.len() as int, pending) && (own is Some <==> first_is_vftable(stmts))
        && vftable_of_first_base(reg, p, pending, own, vft, out)
}

/// the complete statement about the regions of one accepted type: they are `regions_spec` of the declared
/// fields (C01 offsets, C17 visibility/doc carried to named fields and generated regions private, C20 explicit
/// and implicit spellings give the same list)
pub open spec fn build_regions_ok(reg0: &TypeRegistry, scope: Seq<ItemPath>, stmts: Seq<TypeStatement>, target: Option<usize>, reg: &TypeRegistry, p: ItemPath,
                                  vft: Option<TypeVftable>, out: Seq<Region>, size: usize) -> bool {
    exists|pending: Seq<(Option<usize>, Region)>, own: Option<Vec<Function>>| #![trigger resolve_regions_spec(reg, p, pending, own, target, vft, out, size)]
        fields_built(reg0, scope, stmts, stmts.len() as int, pending) && (own is Some <==> first_is_vftable(stmts))
        && resolve_regions_spec(reg, p, pending, own, target, vft, out, size)
}

/// C05 (attachment): the functions of the type's `impl` block are the last entries of its associated functions,
/// in declaration order, each the semantic image (`fn_built`) of its declaration
pub open spec fn impl_functions_attached(reg: &TypeRegistry, scope: Seq<ItemPath>, blk: Option<grammar::FunctionBlock>, fns: Seq<Function>) -> bool {
    match blk {
        None => true,
        Some(b) => {
            let n = b.functions@.len();
            &&& fns.len() >= n
            &&& forall|k: int| 0 <= k < n ==> fn_built(reg, scope, false, #[trigger] b.functions@[k], fns[fns.len() - n + k])
        },
    }
}
pub open spec fn impl_block_of(m: &crate::semantic::Module, p: ItemPath) -> Option<grammar::FunctionBlock> {
    if m.impls@.contains_key(p) { Some(m.impls@[p]) } else { None }
}

// ---------- C03, both directions, for the alignment block ----------
pub open spec fn region_aligns(rs: Seq<Region>, reg: &TypeRegistry) -> Seq<Option<usize>> { Seq::new(rs.len(), |i: int| ty_align(rs[i].type_ref, reg)) }
/// exactly the descriptions the alignment block of `type_definition::build` accepts
pub open spec fn alignment_accepts(packed: bool, align: Option<usize>, rs: Seq<Region>, size: usize, reg: &TypeRegistry) -> bool {
    if packed { align is None } else {
        let eff = chosen_alignment(packed, align, rs, reg);
        let req = lcm_fold(region_aligns(rs, reg), rs.len() as int);
        &&& (align is Some ==> is_pow2(align->0 as nat))
        &&& req is Some && req->0 <= eff
        &&& offsets_aligned_upto(rs, rs.len() as int, reg)
        &&& eff > 0 && size % eff == 0
    }
}
pub proof fn lemma_not_aligned(rs: Seq<Region>, j: int, reg: &TypeRegistry)
    requires 0 <= j < rs.len(), ty_align(rs[j].type_ref, reg) is Some,
             ty_align(rs[j].type_ref, reg)->0 == 0 || offset_of(rs, j, reg) % (ty_align(rs[j].type_ref, reg)->0 as nat) != 0
    ensures !offsets_aligned_upto(rs, rs.len() as int, reg)
{
    if offsets_aligned_upto(rs, rs.len() as int, reg) {
        lemma_off_aligned_pos(offset_of(rs, j, reg), ty_align(rs[j].type_ref, reg)->0);
    }
}

/// the alignment conditions of C03 as the property states them: packed types are exempt (and must not carry
/// `align`); otherwise the effective alignment is a power of two, not smaller than any field's alignment, every
/// offset is a multiple of its field's alignment and the size is a multiple of the effective alignment
pub open spec fn alignment_realisable(packed: bool, align: Option<usize>, rs: Seq<Region>, size: usize, reg: &TypeRegistry) -> bool {
    if packed { align is None } else {
        let eff = chosen_alignment(packed, align, rs, reg);
        &&& is_pow2(eff as nat)
        &&& aligns_le(rs, eff, reg)
        &&& offsets_aligned_upto(rs, rs.len() as int, reg)
        &&& size % eff == 0
    }
}
/// C03 for the alignment block: on the domain of the property (every field alignment and the pointer size a
/// power of two) the block accepts exactly the realisable descriptions
pub proof fn lemma_alignment_accepts_iff_realisable(packed: bool, align: Option<usize>, rs: Seq<Region>, size: usize, reg: &TypeRegistry)
    requires all_pow2(region_aligns(rs, reg)), is_pow2(reg.pointer_size as nat)
    ensures alignment_accepts(packed, align, rs, size, reg) <==> alignment_realisable(packed, align, rs, size, reg)
{
    if !packed {
        let vals = region_aligns(rs, reg);
        let eff = chosen_alignment(packed, align, rs, reg);
        lemma_lcm_fold_pow2(vals, vals.len() as int);
        assert(aligns_le(rs, eff, reg) <==> all_le(vals, vals.len() as int, eff)) by {
            if aligns_le(rs, eff, reg) {
                assert forall|i: int| 0 <= i < vals.len() implies (#[trigger] vals[i]) is Some && vals[i]->0 <= eff by { assert(ty_align(rs[i].type_ref, reg) is Some); }
            }
            if all_le(vals, vals.len() as int, eff) {
                assert forall|i: int| 0 <= i < rs.len() implies ty_align(#[trigger] rs[i].type_ref, reg) is Some && ty_align(rs[i].type_ref, reg)->0 <= eff by { assert(vals[i] is Some); }
            }
        }
        if align is None && rs.len() == 1 { assert(vals[0] is Some && pow2(vals[0]->0 as nat)); }
        if alignment_realisable(packed, align, rs, size, reg) {
            assert(eff >= 1);
        }
        if alignment_accepts(packed, align, rs, size, reg) {
            assert(is_pow2(eff as nat));
        }
    }
}
// ---------- the defaultable check (C17 "defaultable yields Default": the derive must be possible) ----------
/// the named type a by-value field consists of (through arrays); pointers and function pointers have none
pub open spec fn defaultable_path_of(t: Type) -> Option<ItemPath>
    decreases t
{
    match t {
        Type::Raw(p) => Some(p),
        Type::Array(inner, _) => defaultable_path_of(*inner),
        _ => None,
    }
}
/// what an accepted defaultable type guarantees about one field: it is made of a named type that is registered,
/// and if that type is resolved it is itself defaultable
pub open spec fn field_defaultable(reg: &TypeRegistry, t: Type) -> bool {
    match defaultable_path_of(t) {
        Some(p) => reg.types@.contains_key(p) && (match reg.types@[p].state {
            ItemState::Resolved(r) => (match r.inner {
                ItemDefinitionInner::Type(td) => td.defaultable,
                ItemDefinitionInner::Enum(ed) => ed.defaultable && ed.default_index is Some,
            }),
            _ => true,
        }),
        None => false,
    }
}

// ---------- C03 "every other description fails" read backwards: an error has a reason ----------
/// some `doc = <not a string literal>` attribute
pub open spec fn has_doc_bad(a: Seq<Attribute>) -> bool { exists|k: int| 0 <= k < a.len() && doc_bad(#[trigger] a[k]) }
/// some attribute `name(<negative integer literal>)` (every such attribute is converted to usize as it is met)
pub open spec fn neg_attr(a: Seq<Attribute>, name: Seq<char>) -> bool {
    exists|k: int| 0 <= k < a.len() && is_int_attr(#[trigger] a[k], name) && a[k]->Function_1@[0]->IntLiteral_0 < 0
}
/// the reasons for which the attribute block of a type is rejected
pub open spec fn attrs_bad(a: Seq<Attribute>) -> bool {
    has_doc_bad(a) || neg_attr(a, "size"@) || neg_attr(a, "singleton"@) || neg_attr(a, "align"@)
}
/// the reasons for which the field block rejects a statement that is a plain field
pub open spec fn field_stmt_bad(st: TypeStatement) -> bool {
    st.field is Vftable || has_doc_bad(st.attributes.0@) || neg_attr(st.attributes.0@, "address"@)
}
/// the field block fails only for a bad field statement; a `vftable` statement counts as one here because the
/// conversion of its functions has error causes of its own (C04, C05), which this predicate does not enumerate
pub open spec fn fields_bad(stmts: Seq<TypeStatement>) -> bool { exists|j: int| 0 <= j < stmts.len() && field_stmt_bad(#[trigger] stmts[j]) }
pub open spec fn has_base_region(rs: Seq<Region>) -> bool { exists|k: int| 0 <= k < rs.len() && (#[trigger] rs[k]).is_base }
/// `type_definition::build` returned an error: the reasons.  For a description without vftable block, base field,
/// impl block and `defaultable` (the explicit disjuncts below name what is *not* analysed further) the error means
/// exactly one of the causes C03 lists: a malformed attribute, an unrealisable layout, an unrealisable alignment
pub open spec fn type_rejection_explained(reg0: &TypeRegistry, scope: Seq<ItemPath>, def: grammar::TypeDefinition, impl_block: Option<grammar::FunctionBlock>,
                                          reg: &TypeRegistry, p: ItemPath) -> bool {
    let a = def.attributes.0@; let n = a.len() as int; let stmts = def.statements@;
    ||| attrs_bad(a)
    ||| fields_bad(stmts)
    ||| has_ident(a, "defaultable"@, n)
    ||| impl_block is Some
    ||| exists|pend: Seq<(Option<usize>, Region)>, target: Option<usize>, align: Option<usize>|
            #![trigger fields_built(reg0, scope, stmts, stmts.len() as int, pend), attr_usize(a, "size"@, n, target), attr_usize(a, "align"@, n, align)]
            fields_built(reg0, scope, stmts, stmts.len() as int, pend) && attr_usize(a, "size"@, n, target) && attr_usize(a, "align"@, n, align)
            && (first_base_of(pend) is Some
                || !layout_accepts(pend, target, reg)
                || exists|regions: Seq<Region>, size: usize, vft: Option<TypeVftable>| #![trigger resolve_regions_spec(reg, p, pend, None, target, vft, regions, size)]
                        resolve_regions_spec(reg, p, pend, None, target, vft, regions, size)
                        && (has_base_region(regions) || !alignment_accepts(has_ident(a, "packed"@, n), align, regions, size, reg)))
}
/// some field statement whose type does not (yet) resolve in the scope
pub open spec fn field_unresolved(reg: &TypeRegistry, scope: Seq<ItemPath>, stmts: Seq<TypeStatement>) -> bool {
    exists|j: int| 0 <= j < stmts.len() && (#[trigger] stmts[j]).field is Field && spec_resolve_type(reg, scope, stmts[j].field->Field_2) is None
}
}
