use vstd::prelude::*;
use crate::grammar::{self, ItemPath, Attribute, Expr, TypeStatement};
use crate::semantic::types::*;
use crate::semantic::types::Visibility;
use crate::semantic::TypeRegistry;
#[allow(unused_imports)] use crate::verif_specs::*;
verus!{
// ---------- type definition vocabulary (C01 C02 C03 C15 C17) ----------
/// `v` is the value of the last `name(<int>)` attribute among the first k, converted to usize;
/// a negative value is not representable (the description is rejected)
pub open spec fn attr_usize(attrs: Seq<Attribute>, name: Seq<char>, k: int, v: Option<usize>) -> bool {
    match attr_int(attrs, name, k) { Some(x) => x >= 0 && v == Some(x as usize), None => v is None }
}
/// the pending region of a declared field: its address attribute, visibility, name (`_` = unnamed), doc,
/// resolved type and base marker
pub open spec fn field_region(reg: &TypeRegistry, scope: Seq<ItemPath>, st: TypeStatement, r: (Option<usize>, Region)) -> bool {
    &&& st.field is Field
    &&& attr_usize(st.attributes.0@, "address"@, st.attributes.0@.len() as int, r.0)
    &&& r.1.visibility == vis_of(st.field->Field_0)
    &&& (if st.field->Field_1.0@ == "_"@ { r.1.name is None } else { r.1.name == Some(st.field->Field_1.0) })
    &&& opt_string_view(r.1.doc) == spec_doc(st.attributes.0@)
    &&& Some(r.1.type_ref) == spec_resolve_type(reg, scope, st.field->Field_2)
    &&& r.1.is_base == has_ident(st.attributes.0@, "base"@, st.attributes.0@.len() as int)
}
pub open spec fn first_is_vftable(stmts: Seq<TypeStatement>) -> bool { stmts.len() > 0 && stmts[0].field is Vftable }
/// index of the first field statement
pub open spec fn field_off(stmts: Seq<TypeStatement>) -> int { if first_is_vftable(stmts) { 1 } else { 0 } }
/// the pending regions are the field statements among the first k statements, in order
pub open spec fn fields_built(reg: &TypeRegistry, scope: Seq<ItemPath>, stmts: Seq<TypeStatement>, k: int, pending: Seq<(Option<usize>, Region)>) -> bool {
    let off = if k > 0 { field_off(stmts) } else { 0 };
    &&& pending.len() == k - off
    &&& forall|j: int| off <= j < k ==> field_region(reg, scope, #[trigger] stmts[j], pending[j - off])
}
/// power of two (Rust reference: alignments are powers of two)
pub open spec fn is_pow2(n: nat) -> bool
    decreases n
{
    if n == 0 { false } else if n == 1 { true } else { n % 2 == 0 && is_pow2(n / 2) }
}
/// every region's type has a known, non-zero alignment that divides its offset (repr(C) then adds no padding)
pub open spec fn offsets_aligned_upto(rs: Seq<Region>, n: int, reg: &TypeRegistry) -> bool {
    forall|i: int| 0 <= i < n ==> ty_align(#[trigger] rs[i].type_ref, reg) is Some
        && off_aligned(offset_of(rs, i, reg), ty_align(rs[i].type_ref, reg)->0)
}
/// `off` is a multiple of the non-zero alignment `a` (opaque: keeps `%` out of quantified invariants)
#[verifier::opaque]
pub open spec fn off_aligned(off: nat, a: usize) -> bool { a > 0 && off % (a as nat) == 0 }
pub proof fn lemma_off_aligned(off: usize, a: usize)
    requires a > 0, off % a == 0
    ensures off_aligned(off as nat, a)
{ reveal(off_aligned); }
pub proof fn lemma_off_aligned_pos(off: nat, a: usize)
    requires off_aligned(off, a)
    ensures a > 0, off % (a as nat) == 0
{ reveal(off_aligned); }
pub open spec fn aligns_le(rs: Seq<Region>, a: usize, reg: &TypeRegistry) -> bool {
    forall|i: int| 0 <= i < rs.len() ==> ty_align(#[trigger] rs[i].type_ref, reg) is Some && ty_align(rs[i].type_ref, reg)->0 <= a
}
/// the alignment pyxis settles on when nothing is rejected (explicit / sole field / pointer size; packed = 1)
pub open spec fn chosen_alignment(packed: bool, align: Option<usize>, rs: Seq<Region>, reg: &TypeRegistry) -> usize {
    if packed { 1usize } else {
        match align {
            Some(a) => a,
            None => if rs.len() == 1 && ty_align(rs[0].type_ref, reg) is Some { ty_align(rs[0].type_ref, reg)->0 } else { reg.pointer_size },
        }
    }
}
pub proof fn lemma_sized_aligned(t: Type, reg: &TypeRegistry)
    requires ty_size(t, reg) is Some
    ensures ty_align(t, reg) is Some
    decreases t
{
    match t {
        Type::Array(tr, n) => { lemma_sized_aligned(*tr, reg); }
        _ => {}
    }
}

/// C01 as a statement about one accepted type: some list of pending regions is the image of the declared
/// fields (names, addresses, resolved types) and every one of them is placed in `out` at its declared address
/// (or directly after its predecessor), see `placement_exists`
pub open spec fn declared_fields_placed(reg0: &TypeRegistry, scope: Seq<ItemPath>, stmts: Seq<TypeStatement>, out: Seq<Region>, reg: &TypeRegistry) -> bool {
    exists|pending: Seq<(Option<usize>, Region)>| #![trigger placement_exists(pending, out, reg)]
        fields_built(reg0, scope, stmts, stmts.len() as int, pending) && placement_exists(pending, out, reg)
}

/// C06 for one accepted type: the vftable recorded for it is the one prescribed for its own vftable block
/// (present iff the description starts with one) and the first `#[base]` among its declared fields
pub open spec fn build_vftable_ok(reg0: &TypeRegistry, scope: Seq<ItemPath>, stmts: Seq<TypeStatement>, reg: &TypeRegistry, p: ItemPath,
                                  vft: Option<TypeVftable>, out: Seq<Region>) -> bool {
    exists|pending: Seq<(Option<usize>, Region)>, own: Option<Vec<Function>>| #![trigger vftable_of_first_base(reg, p, pending, own, vft, out)]
        fields_built(reg0, scope, stmts, stmts.len() as int, pending) && (own is Some <==> first_is_vftable(stmts))
        && vftable_of_first_base(reg, p, pending, own, vft, out)
}

/// the complete statement about the regions of one accepted type: they are `regions_spec` of the declared
/// fields (C01 offsets, C17 visibility/doc carried to named fields and generated regions private, C20 explicit
/// and implicit spellings give the same list)
pub open spec fn build_regions_ok(reg0: &TypeRegistry, scope: Seq<ItemPath>, stmts: Seq<TypeStatement>, target: Option<usize>, reg: &TypeRegistry, p: ItemPath,
                                  vft: Option<TypeVftable>, out: Seq<Region>, size: usize) -> bool {
    exists|pending: Seq<(Option<usize>, Region)>, own: Option<Vec<Function>>| #![trigger resolve_regions_spec(reg, p, pending, own, target, vft, out, size)]
        fields_built(reg0, scope, stmts, stmts.len() as int, pending) && (own is Some <==> first_is_vftable(stmts))
        && resolve_regions_spec(reg, p, pending, own, target, vft, out, size)
}

/// C05 (attachment): the functions of the type's `impl` block are the last entries of its associated functions,
/// in declaration order, each the semantic image (`fn_built`) of its declaration
pub open spec fn impl_functions_attached(reg: &TypeRegistry, scope: Seq<ItemPath>, blk: Option<grammar::FunctionBlock>, fns: Seq<Function>) -> bool {
    match blk {
        None => true,
        Some(b) => {
            let n = b.functions@.len();
            &&& fns.len() >= n
            &&& forall|k: int| 0 <= k < n ==> fn_built(reg, scope, false, #[trigger] b.functions@[k], fns[fns.len() - n + k])
        },
    }
}
pub open spec fn impl_block_of(m: &crate::semantic::Module, p: ItemPath) -> Option<grammar::FunctionBlock> {
    if m.impls@.contains_key(p) { Some(m.impls@[p]) } else { None }
}
}
