use vstd::prelude::*;
use crate::grammar::{self, ItemPath};
use crate::semantic::types::*;
use crate::semantic::types::Visibility;
use crate::semantic::TypeRegistry;
#[allow(unused_imports)] use crate::verif_specs::*;
verus!{
// ---------- vftable inheritance vocabulary (C06) ----------
/// name and type definition behind a base region: `Some(Some(..))` resolved type, `Some(None)` not resolved yet,
/// `None` = the description is rejected (unnamed base, not a plain type name, unknown type, an enum)
pub open spec fn base_type_of(reg: &TypeRegistry, r: Region) -> Option<Option<(String, TypeDefinition)>> {
    if r.name is None { None } else {
        match r.type_ref {
            Type::Raw(p) => if !reg.types@.contains_key(p) { None } else {
                match reg.types@[p].state {
                    ItemState::Resolved(isr) => match isr.inner {
                        ItemDefinitionInner::Type(td) => Some(Some((r.name->0, td))),
                        _ => None,
                    },
                    _ => Some(None),
                }
            },
            _ => None,
        }
    }
}
/// the vftable a type inherits through its first base: `Some(Some((field, vftable)))`, `Some(None)` = no base
/// vftable (no base, base unresolved, base without vftable), `None` = rejected
pub open spec fn base_vftable_of(reg: &TypeRegistry, first_base: Option<Region>) -> Option<Option<(String, TypeVftable)>> {
    match first_base {
        None => Some(None),
        Some(r) => match base_type_of(reg, r) {
            None => None,
            Some(None) => Some(None),
            Some(Some((n, td))) => match td.vftable { Some(v) => Some(Some((n, v))), None => Some(None) },
        },
    }
}
/// the first region marked `#[base]` in declaration order
pub open spec fn base_marks(regions: Seq<(Option<usize>, Region)>) -> Seq<bool> { Seq::new(regions.len(), |i: int| regions[i].1.is_base) }
pub open spec fn first_base_idx(regions: Seq<(Option<usize>, Region)>, k: int) -> Option<int> {
    crate::verif_prelude::first_true(base_marks(regions), k)
}
pub open spec fn first_base_of(regions: Seq<(Option<usize>, Region)>) -> Option<Region> {
    match first_base_idx(regions, regions.len() as int) { Some(i) => Some(regions[i].1), None => None }
}
/// path of the generated vftable item of a type
pub open spec fn vft_path(p: ItemPath) -> Option<ItemPath> {
    if p.0@.len() == 0 { None } else {
        Some(spec_join(spec_parent(p)->0, spec_fmt1("{}Vftable"@, p.0@.last().0@)))
    }
}
pub open spec fn vft_ptr_type(p: ItemPath) -> Type { Type::ConstPointer(Box::new(Type::Raw(vft_path(p)->0))) }
pub open spec fn is_vftable_region(r: Region, p: ItemPath) -> bool {
    &&& r.visibility == Visibility::Private
    &&& r.name is Some && r.name->0@ == "vftable"@
    &&& r.doc is None
    &&& r.type_ref == vft_ptr_type(p)
    &&& !r.is_base
}
/// C06: what vftable::build returns for a type, given its own slot list and its first base
pub open spec fn vftable_result_ok(reg: &TypeRegistry, p: ItemPath, first_base: Option<Region>, own: Option<Vec<Function>>,
                                   out: (Option<TypeVftable>, Option<Region>)) -> bool {
    match own {
        Some(fns) => if vft_path(p) is None { out.0 is None && out.1 is None } else {
            base_vftable_of(reg, first_base) is Some && match base_vftable_of(reg, first_base)->0 {
                Some((bname, bv)) => {
                    &&& out.1 is None
                    &&& out.0 == Some(TypeVftable { functions: fns, base_field: Some(bname), type_: vft_ptr_type(p) })
                    &&& bv.functions@.len() <= fns@.len()
                    &&& forall|i: int| 0 <= i < bv.functions@.len() ==> #[trigger] fns@[i] == bv.functions@[i]
                },
                None => {
                    &&& out.0 == Some(TypeVftable { functions: fns, base_field: None, type_: vft_ptr_type(p) })
                    &&& out.1 is Some && is_vftable_region(out.1->0, p)
                },
            }
        },
        None => base_vftable_of(reg, first_base) is Some && match base_vftable_of(reg, first_base)->0 {
            Some((bname, bv)) => out.1 is None && out.0 is Some && out.0->0.functions@ == bv.functions@
                && out.0->0.base_field == Some(bname) && out.0->0.type_ == bv.type_,
            None => out.0 is None && out.1 is None,
        },
    }
}
/// C06 for one resolved type: its vftable is what `vftable_result_ok` prescribes for its own slot list and its
/// first `#[base]` field, and a vftable pointer field of its own, if any, is region 0 (offset 0)
pub open spec fn vftable_of_first_base(reg: &TypeRegistry, p: ItemPath, regions: Seq<(Option<usize>, Region)>, own: Option<Vec<Function>>,
                                       vft: Option<TypeVftable>, out: Seq<Region>) -> bool {
    exists|vr: Option<Region>| #![trigger vftable_result_ok(reg, p, first_base_of(regions), own, (vft, vr))]
        vftable_result_ok(reg, p, first_base_of(regions), own, (vft, vr)) && (vr is Some ==> out.len() > 0 && out[0] == vr->0)
}
/// resolve_regions as a whole: vftable of the first base + the complete region list
pub open spec fn resolve_regions_spec(reg: &TypeRegistry, p: ItemPath, regions: Seq<(Option<usize>, Region)>, own: Option<Vec<Function>>,
                                      target: Option<usize>, vft: Option<TypeVftable>, out: Seq<Region>, size: usize) -> bool {
    exists|vr: Option<Region>| #![trigger vftable_result_ok(reg, p, first_base_of(regions), own, (vft, vr))]
        vftable_result_ok(reg, p, first_base_of(regions), own, (vft, vr)) && regions_spec(regions, vr, target, out, size, reg)
}
/// parameter k of a vftable slot's function-pointer type: the receiver becomes `this: *const/*mut T`, a named
/// argument keeps name and type
pub open spec fn slot_param_ok(p: ItemPath, a: Argument, q: (String, Box<Type>)) -> bool {
    match a {
        Argument::ConstSelf => q.0@ == "this"@ && *q.1 == Type::ConstPointer(Box::new(Type::Raw(p))),
        Argument::MutSelf => q.0@ == "this"@ && *q.1 == Type::MutPointer(Box::new(Type::Raw(p))),
        Argument::Field(n, t) => q.0 == n && *q.1 == t,
    }
}
/// region k of the generated vftable struct is slot k: same name, visibility, doc and calling convention as
/// the function, a function-pointer type with the parameters in order and the return type (C04 C16 C17)
pub open spec fn slot_region_ok(p: ItemPath, f: Function, r: Region) -> bool {
    &&& r.visibility == f.visibility
    &&& r.name == Some(f.name)
    &&& r.doc == f.doc
    &&& !r.is_base
    &&& r.type_ref is Function
    &&& r.type_ref->Function_0 == f.calling_convention
    &&& r.type_ref->Function_1@.len() == f.arguments@.len()
    &&& (forall|i: int| 0 <= i < f.arguments@.len() ==> slot_param_ok(p, f.arguments@[i], #[trigger] r.type_ref->Function_1@[i]))
    &&& (match f.return_type { Some(t) => r.type_ref->Function_2 is Some && *r.type_ref->Function_2->0 == t, None => r.type_ref->Function_2 is None })
}
/// the generated `<T>Vftable` item (C02: size = slots x pointer size, alignment = pointer size; C14: path)
pub open spec fn vftable_item_ok(reg: &TypeRegistry, p: ItemPath, visibility: Visibility, fns: Seq<Function>, item: ItemDefinition) -> bool {
    &&& item.path == vft_path(p)->0
    &&& item.visibility == visibility
    &&& item.category == ItemCategory::Defined
    &&& item.state is Resolved
    &&& item.state->Resolved_0.alignment == reg.pointer_size
    &&& (fns.len() * reg.pointer_size <= usize::MAX ==> item.state->Resolved_0.size == fns.len() * reg.pointer_size)
    &&& item.state->Resolved_0.inner is Type
    &&& ({ let td = item.state->Resolved_0.inner->Type_0;
           &&& td.regions@.len() == fns.len()
           &&& (forall|i: int| 0 <= i < fns.len() ==> slot_region_ok(p, fns[i], #[trigger] td.regions@[i]))
           &&& td.doc is None && td.associated_functions@.len() == 0 && td.vftable is None && td.singleton is None
           &&& !td.cloneable && !td.copyable && !td.defaultable && !td.packed })
}
pub open spec fn seq_sum(s: Seq<usize>) -> nat
    decreases s.len()
{
    if s.len() == 0 { 0 } else { seq_sum(s.drop_last()) + s.last() as nat }
}
pub proof fn lemma_seq_sum_const(s: Seq<usize>, c: usize)
    requires forall|i: int| 0 <= i < s.len() ==> s[i] == c
    ensures seq_sum(s) == s.len() * c
    decreases s.len()
{
    if s.len() > 0 {
        lemma_seq_sum_const(s.drop_last(), c);
        assert(seq_sum(s) == seq_sum(s.drop_last()) + c);
        assert((s.len() - 1) * c + c == s.len() * c) by (nonlinear_arith);
    }
}
/// frame of a resolution attempt on the registry: nothing but the generated vftable item of `p` changes
pub open spec fn registry_frame(old_reg: &TypeRegistry, new_reg: &TypeRegistry, p: ItemPath) -> bool {
    &&& new_reg.pointer_size == old_reg.pointer_size
    &&& forall|q: ItemPath| #![trigger new_reg.types@.contains_key(q)] #![trigger new_reg.types@[q]] vft_path(p) != Some(q) ==>
            new_reg.types@.contains_key(q) == old_reg.types@.contains_key(q) && (old_reg.types@.contains_key(q) ==> new_reg.types@[q] == old_reg.types@[q])
}
/// an attempt changes no entry that was registered before it (the generated vftable item may only replace itself, F10)
pub open spec fn entries_kept(old_reg: &TypeRegistry, new_reg: &TypeRegistry) -> bool {
    forall|q: ItemPath| #![trigger new_reg.types@[q]] #![trigger new_reg.types@.contains_key(q)] old_reg.types@.contains_key(q) ==>
        new_reg.types@.contains_key(q) && new_reg.types@[q] == old_reg.types@[q]
}
/// across the whole resolution every registered item keeps its path, visibility and category: only its state changes
/// (C14 "every declared item .. exactly once", C17 visibility of items)
pub open spec fn items_kept(old_reg: &TypeRegistry, new_reg: &TypeRegistry) -> bool {
    forall|q: ItemPath| #![trigger new_reg.types@[q]] #![trigger new_reg.types@.contains_key(q)] old_reg.types@.contains_key(q) ==>
        new_reg.types@.contains_key(q) && new_reg.types@[q].path == old_reg.types@[q].path
        && new_reg.types@[q].visibility == old_reg.types@[q].visibility && new_reg.types@[q].category == old_reg.types@[q].category
}
pub broadcast axiom fn axiom_vftable_name_not_u8(s: Seq<char>)
    ensures #[trigger] spec_fmt1("{}Vftable"@, s) != "u8"@;
pub broadcast axiom fn axiom_u8_path()
    ensures #[trigger] path_view(u8_path()) == seq!["u8"@];
pub broadcast group group_vftable_axioms { axiom_vftable_name_not_u8, axiom_u8_path }
}
