use vstd::prelude::*;
use crate::grammar::{self, ItemPath};
use crate::semantic::types::*;
use crate::semantic::TypeRegistry;
#[allow(unused_imports)] use crate::verif_specs::*;
#[allow(unused_imports)] use crate::verif_prelude::{first_true, last_true, sel};
verus!{
// ---------- name binding (C11 C19) ----------
pub open spec fn last_seg_is(p: ItemPath, name: Seq<char>) -> bool { p.0@.len() > 0 && p.0@[p.0@.len() - 1].0@ == name }

// declarative form, written from the statement of C11 ------------------------------------------------
/// the last scope entry among the first k that is a registered type (an import `use path::Type`) named `name`
pub open spec fn last_type_import(reg: &TypeRegistry, scope: Seq<ItemPath>, name: Seq<char>, k: int) -> Option<int>
    decreases k
{
    if k <= 0 { None } else if reg.types@.contains_key(scope[k - 1]) && last_seg_is(scope[k - 1], name) { Some(k - 1) }
    else { last_type_import(reg, scope, name, k - 1) }
}
/// the first scope entry at or after `from` that is a module (not a registered type) containing a type `name`
pub open spec fn first_module_hit(reg: &TypeRegistry, scope: Seq<ItemPath>, name: Seq<char>, from: int) -> Option<int>
    decreases scope.len() - from
{
    if from < 0 || from >= scope.len() { None }
    else if !reg.types@.contains_key(scope[from]) && reg.types@.contains_key(spec_join(scope[from], name)) { Some(from) }
    else { first_module_hit(reg, scope, name, from + 1) }
}
/// C11: type import (last wins) > built-in / root > scope modules in order (own module first, then `use`s)
pub open spec fn resolve_decl(reg: &TypeRegistry, scope: Seq<ItemPath>, name: Seq<char>) -> Option<Type> {
    match last_type_import(reg, scope, name, scope.len() as int) {
        Some(i) => Some(Type::Raw(scope[i])),
        None => if reg.types@.contains_key(spec_join(spec_empty_path(), name)) { Some(Type::Raw(spec_join(spec_empty_path(), name))) }
                else { match first_module_hit(reg, scope, name, 0) { Some(j) => Some(Type::Raw(spec_join(scope[j], name))), None => None } },
    }
}

// operational form (what the partition / rfind / chain pipeline computes) ---------------------------------
pub open spec fn type_marks(reg: &TypeRegistry, scope: Seq<ItemPath>) -> Seq<bool> { Seq::new(scope.len(), |i: int| reg.types@.contains_key(scope[i])) }
pub open spec fn name_marks(st: Seq<&ItemPath>, name: Seq<char>) -> Seq<bool> { Seq::new(st.len(), |i: int| last_seg_is(*st[i], name)) }
pub open spec fn joined(chain: Seq<&ItemPath>, name: Seq<char>) -> Seq<ItemPath> { Seq::new(chain.len(), |i: int| spec_join(*chain[i], name)) }
pub open spec fn key_marks(reg: &TypeRegistry, paths: Seq<ItemPath>) -> Seq<bool> { Seq::new(paths.len(), |i: int| reg.types@.contains_key(paths[i])) }
pub open spec fn resolve_op(reg: &TypeRegistry, scope: Seq<ItemPath>, name: Seq<char>) -> Option<Type> {
    let st = sel(scope, type_marks(reg, scope), true, scope.len() as int);
    let sm = sel(scope, type_marks(reg, scope), false, scope.len() as int);
    match last_true(name_marks(st, name), st.len() as int) {
        Some(i) => Some(Type::Raw(*st[i])),
        None => {
            let e = spec_empty_path();
            let chain = seq![&e] + sm;
            let us = joined(chain, name);
            match first_true(key_marks(reg, us), us.len() as int) { Some(j) => Some(Type::Raw(us[j])), None => None }
        },
    }
}
/// what `TypeRegistry::resolve_string` returns
pub open spec fn spec_resolve_string(reg: &TypeRegistry, scope: Seq<ItemPath>, name: Seq<char>) -> Option<Type> { resolve_decl(reg, scope, name) }

// ---- the pipeline computes the declarative result -------------------------------------------------------
proof fn lemma_sel_types(reg: &TypeRegistry, scope: Seq<ItemPath>, name: Seq<char>, k: int)
    requires 0 <= k <= scope.len()
    ensures ({
        let st = sel(scope, type_marks(reg, scope), true, k);
        match last_type_import(reg, scope, name, k) {
            Some(i) => last_true(name_marks(st, name), st.len() as int) is Some
                && *st[last_true(name_marks(st, name), st.len() as int)->0] == scope[i] && 0 <= i < k,
            None => last_true(name_marks(st, name), st.len() as int) is None,
        }
    })
    decreases k
{
    if k > 0 {
        lemma_sel_types(reg, scope, name, k - 1);
        let m = type_marks(reg, scope);
        let prev = sel(scope, m, true, k - 1);
        let st = sel(scope, m, true, k);
        if m[k - 1] {
            assert(st == prev.push(&scope[k - 1]));
            let nm = name_marks(st, name);
            let nmp = name_marks(prev, name);
            assert(nm.len() == nmp.len() + 1);
            assert forall|i: int| 0 <= i < nmp.len() implies nm[i] == nmp[i] by {}
            lemma_last_true_prefix(nm, nmp, nmp.len() as int);
            if last_seg_is(scope[k - 1], name) {
                assert(nm[st.len() - 1]);
                assert(last_true(nm, st.len() as int) == Some(st.len() - 1));
                assert(*st[st.len() - 1] == scope[k - 1]);
            } else {
                assert(!nm[st.len() - 1]);
                assert(last_true(nm, st.len() as int) == last_true(nm, st.len() - 1));
                assert(last_true(nm, st.len() - 1) == last_true(nmp, prev.len() as int));
                if last_true(nmp, prev.len() as int) is Some {
                    lemma_last_true_bounds(nmp, prev.len() as int);
                    let i0 = last_true(nmp, prev.len() as int)->0;
                    assert(st[i0] == prev[i0]);
                }
            }
        } else {
            assert(st == prev);
        }
    }
}
proof fn lemma_last_true_bounds(a: Seq<bool>, k: int)
    requires 0 <= k <= a.len()
    ensures last_true(a, k) is Some ==> 0 <= last_true(a, k)->0 < k
    decreases k
{
    if k > 0 { lemma_last_true_bounds(a, k - 1); }
}
proof fn lemma_last_true_prefix(a: Seq<bool>, b: Seq<bool>, k: int)
    requires 0 <= k <= a.len(), k <= b.len(), forall|i: int| 0 <= i < k ==> a[i] == b[i]
    ensures last_true(a, k) == last_true(b, k)
    decreases k
{
    if k > 0 { lemma_last_true_prefix(a, b, k - 1); }
}
proof fn lemma_first_true_shift(a: Seq<bool>, b: Seq<bool>, k: int)
    requires 0 <= k <= b.len(), a.len() == b.len() + 1, !a[0], forall|i: int| 0 <= i < b.len() ==> a[i + 1] == b[i]
    ensures first_true(a, k + 1) == (match first_true(b, k) { Some(i) => Some(i + 1), None => None::<int> })
    decreases k
{
    if k > 0 { lemma_first_true_shift(a, b, k - 1); } else { assert(first_true(a, 0) is None); }
}
/// first_true over the module part of the scope, phrased over scope indices
proof fn lemma_sel_modules(reg: &TypeRegistry, scope: Seq<ItemPath>, name: Seq<char>, k: int)
    requires 0 <= k <= scope.len()
    ensures ({
        let sm = sel(scope, type_marks(reg, scope), false, k);
        let km = key_marks(reg, joined(sm, name));
        match first_true(km, km.len() as int) {
            Some(j) => 0 <= j < sm.len() && first_hit_below(reg, scope, name, k) is Some && *sm[j] == scope[first_hit_below(reg, scope, name, k)->0],
            None => first_hit_below(reg, scope, name, k) is None,
        }
    })
    decreases k
{
    if k > 0 {
        lemma_sel_modules(reg, scope, name, k - 1);
        let m = type_marks(reg, scope);
        let prev = sel(scope, m, false, k - 1);
        let sm = sel(scope, m, false, k);
        if !m[k - 1] {
            assert(sm == prev.push(&scope[k - 1]));
            let km = key_marks(reg, joined(sm, name));
            let kmp = key_marks(reg, joined(prev, name));
            assert(km.len() == kmp.len() + 1);
            assert forall|i: int| 0 <= i < kmp.len() implies km[i] == kmp[i] by {}
            lemma_first_true_prefix(km, kmp, kmp.len() as int);
            crate::verif_prelude::lemma_first_true_bounds(kmp, kmp.len() as int);
        } else {
            assert(sm == prev);
        }
    }
}
proof fn lemma_first_true_prefix(a: Seq<bool>, b: Seq<bool>, k: int)
    requires 0 <= k <= a.len(), k <= b.len(), forall|i: int| 0 <= i < k ==> a[i] == b[i]
    ensures first_true(a, k) == first_true(b, k)
    decreases k
{
    if k > 0 { lemma_first_true_prefix(a, b, k - 1); }
}
/// the first module hit among the first k scope entries (ascending)
pub open spec fn first_hit_below(reg: &TypeRegistry, scope: Seq<ItemPath>, name: Seq<char>, k: int) -> Option<int>
    decreases k
{
    if k <= 0 { None } else {
        match first_hit_below(reg, scope, name, k - 1) {
            Some(i) => Some(i),
            None => if !reg.types@.contains_key(scope[k - 1]) && reg.types@.contains_key(spec_join(scope[k - 1], name)) { Some(k - 1) } else { None },
        }
    }
}
proof fn lemma_hit_forms(reg: &TypeRegistry, scope: Seq<ItemPath>, name: Seq<char>, from: int)
    requires 0 <= from <= scope.len(), first_hit_below(reg, scope, name, from) is None
    ensures first_hit_below(reg, scope, name, scope.len() as int) == first_module_hit(reg, scope, name, from)
    decreases scope.len() - from
{
    if from < scope.len() {
        if !reg.types@.contains_key(scope[from]) && reg.types@.contains_key(spec_join(scope[from], name)) {
            assert(first_hit_below(reg, scope, name, from + 1) == Some(from));
            lemma_hit_stable(reg, scope, name, from + 1, scope.len() as int);
        } else {
            lemma_hit_forms(reg, scope, name, from + 1);
        }
    }
}
proof fn lemma_hit_stable(reg: &TypeRegistry, scope: Seq<ItemPath>, name: Seq<char>, k: int, n: int)
    requires 0 <= k <= n <= scope.len(), first_hit_below(reg, scope, name, k) is Some
    ensures first_hit_below(reg, scope, name, n) == first_hit_below(reg, scope, name, k)
    decreases n - k
{
    if k < n { lemma_hit_stable(reg, scope, name, k, n - 1); }
}
/// the partition / rfind / once-chain / find pipeline of resolve_string computes the precedence list of C11
pub proof fn lemma_resolve_op_is_decl(reg: &TypeRegistry, scope: Seq<ItemPath>, name: Seq<char>)
    ensures resolve_op(reg, scope, name) == resolve_decl(reg, scope, name)
{
    let n = scope.len() as int;
    lemma_sel_types(reg, scope, name, n);
    let st = sel(scope, type_marks(reg, scope), true, n);
    if last_type_import(reg, scope, name, n) is None {
        lemma_sel_modules(reg, scope, name, n);
        lemma_hit_forms(reg, scope, name, 0);
        let sm = sel(scope, type_marks(reg, scope), false, n);
        let e = spec_empty_path();
        let chain = seq![&e] + sm;
        let us = joined(chain, name);
        let a = key_marks(reg, us);
        let b = key_marks(reg, joined(sm, name));
        assert(a.len() == b.len() + 1);
        assert forall|i: int| 0 <= i < b.len() implies a[i + 1] == b[i] by {
            assert(chain[i + 1] == sm[i]);
        }
        assert(us[0] == spec_join(e, name));
        if a[0] {
            reveal_with_fuel(first_true, 3);
            assert(first_true(a, 1) == Some(0int));
            crate::verif_prelude::lemma_first_true_stable(a, 1, a.len() as int);
        } else {
            lemma_first_true_shift(a, b, b.len() as int);
            crate::verif_prelude::lemma_first_true_bounds(b, b.len() as int);
            if first_true(b, b.len() as int) is Some {
                let j = first_true(b, b.len() as int)->0;
                assert(us[j + 1] == spec_join(*sm[j], name));
            }
        }
    }
}
}
verus!{
// ---------- footprint of a lookup (C19) ----------
/// the registry keys a lookup of `name` from `scope` can depend on: the scope entries themselves, the root
/// entry of that name, and the entry of that name in every scope entry
pub open spec fn in_footprint(scope: Seq<ItemPath>, name: Seq<char>, p: ItemPath) -> bool {
    ||| p == spec_join(spec_empty_path(), name)
    ||| exists|i: int| 0 <= i < scope.len() && (p == #[trigger] scope[i] || p == spec_join(scope[i], name))
}
pub open spec fn agree_on_footprint(r1: &TypeRegistry, r2: &TypeRegistry, scope: Seq<ItemPath>, name: Seq<char>) -> bool {
    forall|p: ItemPath| in_footprint(scope, name, p) ==> r1.types@.contains_key(p) == r2.types@.contains_key(p)
}
proof fn lemma_fp_types(r1: &TypeRegistry, r2: &TypeRegistry, scope: Seq<ItemPath>, name: Seq<char>, k: int)
    requires agree_on_footprint(r1, r2, scope, name), 0 <= k <= scope.len()
    ensures last_type_import(r1, scope, name, k) == last_type_import(r2, scope, name, k)
    decreases k
{
    if k > 0 {
        assert(in_footprint(scope, name, scope[k - 1]));
        lemma_fp_types(r1, r2, scope, name, k - 1);
    }
}
proof fn lemma_fp_modules(r1: &TypeRegistry, r2: &TypeRegistry, scope: Seq<ItemPath>, name: Seq<char>, from: int)
    requires agree_on_footprint(r1, r2, scope, name), 0 <= from <= scope.len()
    ensures first_module_hit(r1, scope, name, from) == first_module_hit(r2, scope, name, from)
    decreases scope.len() - from
{
    if from < scope.len() {
        assert(in_footprint(scope, name, scope[from]));
        assert(in_footprint(scope, name, spec_join(scope[from], name)));
        lemma_fp_modules(r1, r2, scope, name, from + 1);
    }
}
/// C19 (semantic half): definitions outside the footprint of a lookup cannot change what a name binds to.
/// Adding, removing or changing items that a module neither imports nor defines leaves every lookup made
/// from that module unchanged.
pub proof fn lemma_resolve_footprint(r1: &TypeRegistry, r2: &TypeRegistry, scope: Seq<ItemPath>, name: Seq<char>)
    requires agree_on_footprint(r1, r2, scope, name)
    ensures resolve_decl(r1, scope, name) == resolve_decl(r2, scope, name)
{
    lemma_fp_types(r1, r2, scope, name, scope.len() as int);
    lemma_fp_modules(r1, r2, scope, name, 0);
    assert(in_footprint(scope, name, spec_join(spec_empty_path(), name)));
}
}
