use vstd::prelude::*;
use crate::grammar::{self, ItemPath, EnumStatement, Expr};
use crate::semantic::types::*;
use crate::semantic::TypeRegistry;
#[allow(unused_imports)] use crate::verif_specs::*;
verus!{
// ---------- C20: the rewrites the property lists are no-ops on the specification functions the code is proved equal to ----------
// (the refinement obligations say "result == spec(input)"; these lemmas say "spec(input) == spec(rewritten input)")

/// writing an enum value that equals the implicit one: every variant keeps its value
pub proof fn lemma_enum_explicit_value_noop(a: Seq<EnumStatement>, b: Seq<EnumStatement>, k: int, j: int)
    requires
        a.len() == b.len(), 0 <= k < a.len(), 0 <= j < a.len(),
        a[k].expr is None, enum_value(a, k) is Some,
        b[k].expr == Some(Expr::IntLiteral(enum_value(a, k)->0)),
        forall|i: int| 0 <= i < a.len() && i != k ==> #[trigger] b[i].expr == a[i].expr,
    ensures enum_value(b, j) == enum_value(a, j),
    decreases j
{
    if j == k {
    } else if j > 0 && a[j].expr is None {
        lemma_enum_explicit_value_noop(a, b, k, j - 1);
    }
}

/// giving a virtual function the index it already had: every slot boundary stays where it was
pub proof fn lemma_index_explicit_noop(a: Seq<grammar::Function>, b: Seq<grammar::Function>, k: int, n: int)
    requires
        a.len() == b.len(), 0 <= k < a.len(), 0 <= n <= a.len(),
        fn_index(a[k]) is None, slot_end(a, k + 1) is Some,
        fn_index(b[k]) == Some(slot_pos(a, k) as isize), slot_pos(a, k) <= isize::MAX,
        forall|i: int| 0 <= i < a.len() && i != k ==> fn_index(#[trigger] b[i]) == fn_index(a[i]),
    ensures slot_end(b, n) == slot_end(a, n),
    decreases n
{
    if n > 0 {
        lemma_index_explicit_noop(a, b, k, n - 1);
        if n - 1 == k {
            assert(slot_end(a, k) is Some);
        }
    }
}

/// giving a field the explicit address it already had: the zero-length padding that the address asks for is dropped,
/// the layout of every prefix is unchanged
pub proof fn lemma_address_explicit_noop(a: Seq<(Option<usize>, Region)>, b: Seq<(Option<usize>, Region)>, k: int, n: int, init: (Seq<Region>, nat), reg: &TypeRegistry)
    requires
        reg_wf(reg), a.len() == b.len(), 0 <= k < a.len(), 0 <= n <= a.len(),
        a[k].0 is None, layout_fields(a, k, init, reg) is Some, (layout_fields(a, k, init, reg)->0).1 <= usize::MAX,
        b[k] == (Some((layout_fields(a, k, init, reg)->0).1 as usize), a[k].1),
        forall|i: int| 0 <= i < a.len() && i != k ==> #[trigger] b[i] == a[i],
    ensures layout_fields(b, n, init, reg) == layout_fields(a, n, init, reg),
    decreases n
{
    if n > 0 {
        lemma_address_explicit_noop(a, b, k, n - 1, init, reg);
        if n - 1 == k {
            let acc = layout_fields(a, k, init, reg)->0;
            lemma_pad_size(0usize, reg);
            assert(place(acc, pad_region(0nat), reg) == acc);
        }
    }
}

/// adding a size attribute equal to the natural size: no trailing padding either way
pub proof fn lemma_size_natural_noop(acc: (Seq<Region>, nat), reg: &TypeRegistry)
    requires acc.1 <= usize::MAX,
    ensures tail_pad(acc, Some(acc.1 as usize), reg) == tail_pad(acc, None, reg),
{
}
}
