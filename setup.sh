#!/bin/bash
# One-time offline setup: dependency rlibs with Verus' toolchain, anyhow stand-in, span-map tool.
set -e
cd "$(dirname "$0")"
export CARGO_NET_OFFLINE=true
TC=1.98.1-x86_64-unknown-linux-gnu
mkdir -p work/depsbuild/src
cat > work/depsbuild/Cargo.toml <<'EOT'
[package]
name = "pyxis_deps"
version = "0.0.0"
edition = "2021"

[dependencies]
glob = { version = "0.3.0" }
quote = "1.0"
proc-macro2 = { version = "1.0", features = ["span-locations"] }
syn = { version = "2.0", features = ["full", "extra-traits"] }
prettyplease = "0.2.20"

[workspace]
EOT
echo "" > work/depsbuild/src/lib.rs
cp /repo/Cargo.lock work/depsbuild/Cargo.lock
(cd work/depsbuild && cargo +$TC build --offline 2>&1 | tail -3)
(cd work && verus ../stubs/anyhow.rs --crate-type=lib --crate-name anyhow --export anyhow.vir --compile -o libanyhow.rlib 2>&1 | tail -2)
(cd tools/spanmap && CARGO_TARGET_DIR=../../work/spanmap-target cargo build --release --offline 2>&1 | tail -2)
# warm the dependency cache of the bounded differential check (tools/replay links the tree under check by path)
mkdir -p work/replay-crate && rm -rf work/replay-crate/src && cp -r tools/replay/src work/replay-crate/src
sed "s#@REPO@#/repo#" tools/replay/Cargo.toml.in > work/replay-crate/Cargo.toml && cp /repo/Cargo.lock work/replay-crate/Cargo.lock
(cd work/replay-crate && CARGO_TARGET_DIR=../replay-target cargo build --release --offline 2>&1 | tail -2)
sha256sum /repo/Cargo.lock > work/setup.stamp
echo "setup done"
